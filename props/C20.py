"""C20 — the type-erased container bfl::any::any / bfl::Data is type-safe, value-semantic and leak-free (DESIGN.md §5 C20).

Operation tokens (word `ops`; d, s container indices, t type index, v small integer code of the value):
  def:d            any()                       val:d:t:v / valmv:d:t:v   any(const T&)|any(T&) / any(T&&)
  cpy:d:s cpyn:d:s any(const any&) from a const / non-const lvalue       mov:d:s   any(any&&)
  cas:d:s casn:d:s operator=(const any&) / a = b with a non-const b      mas:d:s   operator=(any&&)
  vas:d:t:v vasmv:d:t:v   operator=(T&&)      rst:d reset()   swp:d:s member swap   swpf:d:s bfl::any::swap   del:d ~any()
  has:d typ:d      has_value(), type()
  cp ccp cv cr ccv crv :d:t   any_cast<T>(any*) | (const any*) | (any&) | <T&>(any&) | (const any&) | (any&&)
  cpq:d:t          any_cast<const T>(any*)                   crq:d:t      const T& r = any_cast<const T&>(a), a non-const
  xv:d:t:m         T x = any_cast<T&&>(std::move(a))  (the form the library uses)      xa:d:t:m   x = any_cast<T&&>(std::move(a))
                   m = 1: T's move operations leave the source moved-from (types 2, 3, 5); 0: moving copies
  setp:d:t:v       if (T* p = any_cast<T>(&a)) *p = v        setr:d:t:v   any_cast<T&>(a) = v
  valx:d:6:v vasx:d:6:v   any(const T&) / a = (const T&) while T's copy constructor throws
  cpyx:d:s:6 casx:d:s:6   any(const any&) / operator=(const any&) while the copy constructor of type 6 throws
Types: 0 int, 1 double, 2 std::string, 3 Eigen::MatrixXd, 4 Probe (instance counters, no move operations),
       5 MProbe (move-aware), 6 TProbe (copy constructor throws on demand).
Observation line per step: <result> <container 0> ... <container N-1> L<live 4>,<live 5>,<live 6> K<ctors 4>,<copies 5>,<moves 5>,<ctors 6>
a container is D (no object) or h<has_value>.t<type>.<six casts per type: T*, const any*, const T via any*, T by value, const T& of const any, const T& of any>;
n = null, x = bad_any_cast, m = a moved-from object, ? = an object that does not decode.
A constructor token on an index that holds a container, or a member token on an index that holds none, is skipped by both sides.
"""
import itertools
from vlib import caseio

ID = "C20"
COQ_TARGETS = ["C20_Extract.vo"]
EXTRACTED = "C20_model"
DRIVER = "drv_C20.ml"
HARNESS = "h_C20.cpp"
VARIANTS = {"quick": ["O1", "asan"], "thorough": ["O1", "asan"]}
AXIOMS_ALLOWED = []
REQUIRED_THEOREMS = ["C20_ownership_inv", "C20_no_double_free", "C20_no_use_after_free", "C20_no_leak",
                     "C20_value_semantics", "C20_cast_ok", "C20_cast_wrong_type", "C20_copy_independent",
                     "C20_moved_from_empty", "C20_self_assign_harmless", "C20_empty_type_void",
                     "C20_rvalue_ref_cast", "C20_constructions", "C20_strong_guarantee"]
RULE = ("operation words over pools of 1..6 containers and 7 held types (int, double, std::string, Eigen::MatrixXd, counting probe, move-aware probe, "
        "probe with a throwing copy constructor): every word of valid operations up to length 3 (quick) / 4 (thorough) over a reduced alphabet "
        "(2 containers, std::string and the probe, all constructors, assignments incl. self-assignment, swap, reset, destructor, write through a cast "
        "pointer, a by-value cast, a const-qualified pointer cast and the T&& cast the library uses - each right-typed or wrong-typed depending on the "
        "history), plus seeded random words (quick 1000 of length <= 10; thorough 4000 of length <= 200) that also use invalid indices, dead containers, "
        "every cast form and the throwing copy constructor; both tiers also run under ASan/LSan; "
        "non-trivial = the word allocates and then copies/moves/assigns/swaps/resets/writes/moves the value out; distinct by (pool size, word)")
TRUSTED_BASE = ["Coq 8.16.1 kernel (coqc); no axioms (Print Assumptions: closed under the global context)",
                "extraction (ExtrOcamlBasic only) and ocaml/drv_C20.ml, ocaml/caseio.ml, ocaml/float_ops.ml (conversions only)",
                "cpp/h_C20.cpp harness: the mapping of operation tokens to C++ expressions, the value codecs, the probe types, and its process handling "
                "(words run in forked children, a failing batch is re-run word by word, a dying child's record is closed by the parent with `crashed`/`sanitizer`)",
                "the abstraction itself: held values are integer codes, `new`/`delete` never fail, exceptions thrown by a held type's copy constructor are not modelled",
                "correspondence is sampled: agreement of model and code is established on the generated words only",
                "AddressSanitizer/LeakSanitizer (thorough tier) for the memory errors the probes cannot see"]
ASSUMPTIONS = ["operator new does not throw; move constructors of held types do not throw (a throwing COPY constructor is modelled and checked: strong guarantee, no leak)",
               "T's moved-from state is recognisable (empty std::string / 0x0 matrix / flag): the model only says 'moved-from', not what it contains"]

NPOOL = 4
NTYPES = 7
MOVING = (2, 3, 5)      # types whose move operations leave the source moved-from
ALLOC = ("val", "valmv", "vas", "vasmv")
MIX = ("cpy", "cpyn", "mov", "cas", "casn", "mas", "swp", "swpf", "rst", "setp", "setr", "xv", "xa", "cpyx", "casx")
CAST = ("cp", "ccp", "cv", "cr", "ccv", "crv", "cpq", "crq")


def kind(tok):
    return tok.split(":")[0]


def args(tok):
    return [int(x) for x in tok.split(":")[1:]]


# ---------------------------------------------------------------- generators

def sim_apply(livev, tok):
    """Bookkeeping for the generators only: livev[i] is None (no container), "E" (empty) or the held type.
    Returns True if the token is executed, not skipped."""
    k, a = kind(tok), args(tok)
    n = len(livev)
    def ok(d): return 0 <= d < n
    def live(d): return ok(d) and livev[d] is not None
    def free(d): return ok(d) and livev[d] is None
    if k == "def":
        if free(a[0]):
            livev[a[0]] = "E"; return True
        return False
    if k in ("val", "valmv"):
        if free(a[0]):
            livev[a[0]] = a[1]; return True
        return False
    if k == "valx":
        return free(a[0])
    if k in ("cpy", "cpyn", "cpyx"):
        if free(a[0]) and live(a[1]):
            if not (k == "cpyx" and livev[a[1]] == a[2]):
                livev[a[0]] = livev[a[1]]
            return True
        return False
    if k == "mov":
        if free(a[0]) and live(a[1]):
            livev[a[0]] = livev[a[1]]; livev[a[1]] = "E"; return True
        return False
    if k in ("cas", "casn", "casx"):
        if live(a[0]) and live(a[1]):
            if not (k == "casx" and livev[a[1]] == a[2]):
                livev[a[0]] = livev[a[1]]
            return True
        return False
    if k == "mas":
        if live(a[0]) and live(a[1]):
            if a[0] != a[1]:
                livev[a[0]] = livev[a[1]]; livev[a[1]] = "E"
            return True
        return False
    if k in ("swp", "swpf"):
        if live(a[0]) and live(a[1]):
            livev[a[0]], livev[a[1]] = livev[a[1]], livev[a[0]]; return True
        return False
    if k in ("vas", "vasmv"):
        if live(a[0]):
            livev[a[0]] = a[1]; return True
        return False
    if k == "rst":
        if live(a[0]):
            livev[a[0]] = "E"; return True
        return False
    if k == "del":
        if live(a[0]):
            livev[a[0]] = None; return True
        return False
    if k in ("cp", "ccp", "cpq", "setp"):
        return True
    return live(a[0])


def reduced_alphabet():
    """2 containers; std::string (heap storage, visible to ASan) and the counting probe."""
    al = []
    for d in (0, 1):
        al += ["def:%d" % d, "rst:%d" % d, "del:%d" % d]
        for t in (2, 4):
            al += ["val:%d:%d:1" % (d, t), "vas:%d:%d:3" % (d, t), "setp:%d:%d:2" % (d, t)]
        for s in (0, 1):
            al += ["cas:%d:%d" % (d, s), "mas:%d:%d" % (d, s)]
            if s != d:
                al += ["cpy:%d:%d" % (d, s), "mov:%d:%d" % (d, s)]
    al += ["swp:0:1", "swp:0:0"]
    # casts: right-typed or wrong-typed depending on what the container holds at that point
    al += ["cv:0:2", "cpq:1:4", "xv:0:2:1"]
    return al


def valid_words(alphabet, maxlen):
    """Every word of at most maxlen tokens in which no token is skipped."""
    out = []
    def rec(word, livev):
        if word:
            out.append(list(word))
        if len(word) == maxlen:
            return
        for tok in alphabet:
            lv = list(livev)
            if sim_apply(lv, tok):
                word.append(tok); rec(word, lv); word.pop()
    rec([], [None] * 2)
    return out


def random_token(rng, livev, valid):
    n = len(livev)
    lives = [i for i in range(n) if livev[i] is not None]
    frees = [i for i in range(n) if livev[i] is None]
    def anyidx(): return rng.randint(0, n) if rng.random() < 0.15 else rng.randrange(n)
    def L(): return rng.choice(lives) if (valid and lives) else anyidx()
    def F(): return rng.choice(frees) if (valid and frees) else anyidx()
    def T(): return rng.randrange(NTYPES)
    def V(): return rng.randint(-3, 9)
    r = rng.random()
    if not lives or (frees and r < 0.22):
        c = rng.random()
        if c < 0.15 or (valid and not lives and c < 0.3):
            return "def:%d" % F()
        if c < 0.05 + 0.15:
            return "valx:%d:6:%d" % (F(), V())
        if c < 0.6 or (valid and not lives):
            return "%s:%d:%d:%d" % (rng.choice(["val", "valmv"]), F(), T(), V())
        if c < 0.66:
            return "cpyx:%d:%d:6" % (F(), L())
        return "%s:%d:%d" % (rng.choice(["cpy", "cpyn", "mov", "mov"]), F(), L())
    if r < 0.30:
        if rng.random() < 0.1:
            return "vasx:%d:6:%d" % (L(), V())
        return "%s:%d:%d:%d" % (rng.choice(["vas", "vasmv"]), L(), T(), V())
    if r < 0.52:
        d = L()
        s = d if rng.random() < 0.2 else L()
        if rng.random() < 0.12:
            return "casx:%d:%d:6" % (d, s)
        return "%s:%d:%d" % (rng.choice(["cas", "casn", "mas", "mas"]), d, s)
    if r < 0.62:
        d = L()
        s = d if rng.random() < 0.15 else L()
        return "%s:%d:%d" % (rng.choice(["swp", "swpf"]), d, s)
    if r < 0.68:
        return "rst:%d" % L()
    if r < 0.76:
        return "del:%d" % L()
    def held_or_any(d):
        h = livev[d] if 0 <= d < n else None
        return h if (isinstance(h, int) and rng.random() < 0.7) else T()
    if r < 0.84:
        d = L()
        return "%s:%d:%d:%d" % (rng.choice(["setp", "setr"]), d, held_or_any(d), V())
    if r < 0.91:
        d = L(); t = held_or_any(d)
        return "%s:%d:%d:%d" % (rng.choice(["xv", "xv", "xa"]), d, t, 1 if t in MOVING else 0)
    if r < 0.94:
        return "%s:%d" % (rng.choice(["has", "typ"]), L())
    d = L()
    return "%s:%d:%d" % (rng.choice(CAST), d, held_or_any(d))


def random_word(rng, length, npool):
    livev = [None] * npool
    w = []
    for _ in range(length):
        tok = random_token(rng, livev, rng.random() < 0.85)
        sim_apply(livev, tok)
        w.append(tok)
    return w


HAND = [
    # copy, then write through the copy / through the source
    ["val:0:2:5", "cpy:1:0", "setp:1:2:7", "setp:0:2:8", "del:0", "cv:1:2"],
    ["val:0:4:5", "def:1", "cas:1:0", "setr:0:4:6", "cas:0:0", "casn:0:0", "mas:0:0", "mas:1:0", "mas:0:1"],
    # moved-from is empty, wrong-type casts on empty / other type
    ["valmv:0:5:4", "mov:1:0", "typ:0", "has:0", "cv:0:5", "cp:0:5", "crv:1:5", "cv:1:5", "cr:1:4", "cp:3:0", "cp:4:0"],
    # the library's own usage: Data holding a matrix, value taken out once through the T&& cast; then again; then copied, overwritten
    ["valmv:0:3:2", "xv:0:3:1", "has:0", "typ:0", "xv:0:3:1", "crq:0:3", "cpq:0:3", "cpy:1:0", "setp:0:3:4", "xa:0:3:1", "xv:1:2:1", "xa:0:0:0"],
    ["val:0:5:3", "xa:0:5:1", "cas:0:0", "valmv:1:2:6", "xv:1:2:1", "mas:0:1", "xv:0:2:1", "val:2:0:7", "xv:2:0:0", "xv:2:0:0"],
    # throwing copy constructor: nothing changes, nothing leaks
    ["val:0:6:5", "def:1", "casx:1:0:6", "cpyx:2:0:6", "vasx:1:6:2", "valx:3:6:1", "casx:0:0:6", "cas:1:0", "casx:1:0:6", "val:3:2:1", "casx:0:3:6"],
    ["val:0:3:2", "val:1:1:2", "swpf:0:1", "swp:0:0", "rst:1", "vasmv:1:3:-2", "ccv:1:3", "ccp:1:1", "del:1", "del:0"],
]


def generate(rng, tier):
    words = [(NPOOL, list(w)) for w in HAND]
    words += [(2, w) for w in valid_words(reduced_alphabet(), 3 if tier == "quick" else 4)]
    if tier == "quick":
        for _ in range(1000):
            words.append(rnd(rng, 1, 10))
    else:
        for _ in range(3000):
            words.append(rnd(rng, 1, 40))
        for _ in range(1000):
            words.append(rnd(rng, 41, 200))
    cases = []
    for k, (npool, w) in enumerate(words):
        c = caseio.Case(k, "word", {"len": len(w), "pool": npool})
        c.int("pool", npool).word("ops", w)
        cases.append(c)
    return cases


def rnd(rng, lo, hi):
    npool = rng.choice([1, 2, 3, 4, 4, 5, 6])
    return (npool, random_word(rng, rng.randint(lo, hi), npool))


def nontrivial(c):
    w = c.get("ops")
    ks = [kind(t) for t in w]
    if any(k in ALLOC for k in ks) and any(k in MIX for k in ks):
        return (c.get("pool"),) + tuple(w)
    return None


def histogram(cases):
    lens, kinds = {}, {}
    for c in cases:
        w = c.get("ops")
        b = "len<=2" if len(w) <= 2 else "len<=4" if len(w) <= 4 else "len<=10" if len(w) <= 10 else "len<=40" if len(w) <= 40 else "len<=200"
        lens[b] = lens.get(b, 0) + 1
        for t in w:
            kinds[kind(t)] = kinds.get(kind(t), 0) + 1
    self_assign = sum(1 for c in cases for t in c.get("ops") if kind(t) in ("cas", "casn", "casx", "mas", "swp", "swpf") and args(t)[0] == args(t)[1])
    pools = {}
    for c in cases:
        pools[str(c.get("pool"))] = pools.get(str(c.get("pool")), 0) + 1
    return {"length": lens, "op_kind": kinds, "self_assign_or_self_swap_ops": self_assign, "pool_size": pools}


# ---------------------------------------------------------------- comparison

def compare(c, impl, model):
    n = len(c.get("ops"))
    return caseio.compare_fields(impl, model, ["r%d" % k for k in range(n)], 0, 0)


# ---------------------------------------------------------------- property oracle

def parse_slot(tok):
    """'D' or 'h<0|1>.t<type>.<six casts>/...'  ->  None or (has, type, [[p, cp, pq, v, cv, rq] per type])"""
    if tok == "D":
        return None
    h, t, rest = tok.split(".", 2)
    return (h[1:], t[1:], [x.split(",") for x in rest.split("/")])


def slot_clauses(tok):
    """The clauses that one container must satisfy on its own, whatever the history."""
    out = []
    s = parse_slot(tok)
    if s is None:
        return out
    has, ty, casts = s
    if has == "0":
        if ty != "void":
            out.append(("empty-type-not-void", "an empty container reports type %s" % ty))
        if any(x not in ("n", "x") for cs in casts for x in cs):
            out.append(("cast-of-empty-succeeds", "a cast of an empty container returned an object: %s" % tok))
        return out
    if ty == "void" or ty == "other":
        out.append(("held-type-not-reported", "has_value() but type() is %s" % ty))
        return out
    for t, cs in enumerate(casts):
        if str(t) == ty:
            if any(x in ("n", "x") for x in cs):
                out.append(("cast-stored-type-fails", "cast to the stored type %s fails: %s" % (ty, ",".join(cs))))
            elif any(x == "?" for x in cs):
                out.append(("held-value-corrupt", "the held object of type %s does not decode (destroyed or overwritten): %s" % (ty, ",".join(cs))))
            elif len(set(cs)) != 1:
                out.append(("cast-forms-disagree", "cast forms disagree on the held value: %s" % ",".join(cs)))
        else:
            if cs[:3] != ["n", "n", "n"] or cs[3:] != ["x", "x", "x"]:
                out.append(("cast-wrong-type-succeeds", "container holds type %s but a cast to type %d gives %s (pointer forms must be null, value forms must throw)" % (ty, t, ",".join(cs))))
    return out


def oracle(c, impl, model):
    v = []
    w = c.get("ops")
    n = c.get("pool")
    if model is not None:
        if model.get("heap_after_destroy_all") != 0 or model.get("destroyed_eq_allocated") != 1 or model.get("faults") != 0 or model.get("views_agree") != 1:
            v.append(("C20:model-self-check", "the extracted model violates its own theorems: heap %s, destroyed=allocated %s, faults %s, refinement %s" % (
                model.get("heap_after_destroy_all"), model.get("destroyed_eq_allocated"), model.get("faults"), model.get("views_agree"))))
    for k, tok in enumerate(w):
        line = impl.get("r%d" % k)
        if line is None and impl.get("crashed") is not None:
            san = (impl.get("sanitizer") or ["none"])[0]
            v.append(("C20:crash:%s:%s" % (san if san != "none" else "status-%s" % impl.get("crashed"), kind(tok)),
                      "the process died in step %d (%s) of %s (status %s, %s)" % (k, tok, " ".join(w[:k + 1][-8:]), impl.get("crashed"), san)))
            break
        if line is None or len(line) != n + 3:
            v.append(("C20:no-observation:%s" % kind(tok), "step %d (%s): no observation line" % (k, tok)))
            break
        res, slots, lv, kv = line[0], line[1:1 + n], line[1 + n], line[2 + n]
        found = []
        # (a) each container on its own
        for i, st in enumerate(slots):
            for sig, d in slot_clauses(st):
                found.append((sig, "container %d: %s" % (i, d)))
        # (b) instance counters against the containers that report holding a probe
        try:
            l4, l5, l6 = [int(x) for x in lv[1:].split(",")]
            for t, l in ((4, l4), (5, l5), (6, l6)):
                holders = sum(1 for st in slots if parse_slot(st) is not None and parse_slot(st)[1] == str(t))
                if l > holders:
                    found.append(("leak", "%d live instances of probe type %d but %d container(s) hold one" % (l, t, holders)))
                elif l < holders:
                    found.append(("destroyed-while-owned", "%d live instances of probe type %d but %d container(s) hold one" % (l, t, holders)))
        except ValueError:
            found.append(("no-observation", "bad counter token %s" % lv))
        # (c) against the value-level specification (a pool of plain values)
        if model is not None and model.get("s%d" % k) is not None and not found:
            spec = model.get("s%d" % k)
            sres, sslots, slv = spec[0], spec[1:1 + n], spec[1 + n]
            kd, a = kind(tok), args(tok)
            if res != sres:
                if sres == "exn" or res == "exn":
                    found.append(("exception-not-propagated" if sres == "exn" else "unexpected-exception", "result %s, specified %s" % (res, sres)))
                elif (kd in CAST or kd in ("setp", "setr", "xv", "xa")) and (sres in ("pnull", "throw", "b0") or res in ("pnull", "throw", "b0")):
                    ok_impl = res not in ("pnull", "throw", "b0")
                    found.append(("cast-wrong-type-succeeds" if ok_impl else "cast-stored-type-fails", "result %s, specified %s" % (res, sres)))
                elif kd in ("xv", "xa"):
                    found.append(("value-not-transferred", "the caller received %s, specified %s" % (res, sres)))
                else:
                    found.append(("wrong-result", "result %s, specified %s" % (res, sres)))
            diff = [i for i in range(n) if slots[i] != sslots[i]]
            if diff:
                d0 = a[0] if a else -1
                s0 = a[1] if kd in ("cpy", "cpyn", "mov", "cas", "casn", "mas", "swp", "swpf") else -1
                if sres == "exn":
                    found.append(("strong-guarantee", "the copy constructor threw but container(s) %s changed: %s, specified %s" % (diff, slots[diff[0]], sslots[diff[0]])))
                elif kd in ("xv", "xa") and diff == [d0]:
                    found.append(("moved-out-state", "container %d after %s: %s, specified %s (it must keep a value of the same type, moved-from exactly when the type moves)" % (d0, tok, slots[d0], sslots[d0])))
                elif kd in ("setp", "setr", "xv", "xa") and any(i != d0 for i in diff):
                    found.append(("copy-not-independent", "a write through a cast of container %d changed container(s) %s" % (d0, [i for i in diff if i != d0])))
                elif kd in ("cas", "casn", "mas", "swp", "swpf") and d0 == s0:
                    found.append(("self-assign-not-harmless", "container %d after %s: %s, specified %s" % (d0, tok, slots[diff[0]], sslots[diff[0]])))
                elif kd in ("mov", "mas") and s0 in diff and sslots[s0].startswith("h0") and not slots[s0].startswith("h0"):
                    found.append(("moved-from-not-empty", "container %d after %s: %s" % (s0, tok, slots[s0])))
                elif any(i not in (d0, s0) for i in diff):
                    found.append(("other-container-changed", "%s changed container(s) %s" % (tok, [i for i in diff if i not in (d0, s0)])))
                else:
                    i = diff[0]
                    found.append(("wrong-value", "container %d after %s: %s, specified %s" % (i, tok, slots[i], sslots[i])))
            if lv != slv and not diff:
                more = sum(int(x) for x in lv[1:].split(",")) > sum(int(x) for x in slv[1:].split(","))
                found.append(("leak" if more else "destroyed-while-owned", "probe counters %s, specified %s" % (lv, slv)))
            # (c') constructions of probe objects performed by the operation: type 4 all, type 5 copies, type 5 moves, type 6 all
            mline = model.get("r%d" % k)
            if not found and mline is not None and mline[-1] != kv:
                found.append(("constructions", "the operation performed K<ctors 4>,<copies 5>,<moves 5>,<ctors 6> = %s, the model %s "
                              "(a value move must be one move and no copy; a pointer steal none)" % (kv, mline[-1])))
        if found:
            sig, d = found[0]
            v.append(("C20:%s:%s" % (sig, kind(tok)), "step %d (%s): %s" % (k, tok, d)))
            break
    if impl.get("crashed") is not None and impl.get("r%d" % (len(w) - 1)) is not None:
        san = (impl.get("sanitizer") or ["none"])[0]
        v.append(("C20:crash:%s:end-of-scope" % (san if san != "none" else "status-%s" % impl.get("crashed")),
                  "the process died while the containers were destroyed after %s (status %s)" % (" ".join(w[-8:]), impl.get("crashed"))))
    if impl.get("leaked"):
        v.append(("C20:leak-at-end:lsan", "LeakSanitizer: memory allocated by the word %s is unreachable after every container was destroyed" % " ".join(w[:12])))
    # (d) end of scope: everything destroyed exactly once
    for t, name in ((4, "probe"), (5, "mprobe"), (6, "tprobe")):
        e = impl.get(name + "_live_end")
        if e is None:
            continue
        if e > 0:
            v.append(("C20:leak-at-end", "%d instance(s) of %s alive after every container was destroyed" % (e, name)))
        elif e < 0:
            v.append(("C20:destroyed-twice", "%s destroyed %d time(s) more than constructed" % (name, -e)))
    if impl.get("probe_bad_lifetime_events", 0):
        v.append(("C20:use-after-destroy", "%d operation(s) on a destroyed probe object" % impl.get("probe_bad_lifetime_events")))
    return v


def on_crash(c, info, model):
    se = info.get("stderr", "")
    w = c.get("ops")
    for pat, sig in (("attempting double-free", "double-free"), ("heap-use-after-free", "use-after-free"),
                     ("BFL_VERIF_LEAK", "leak"), ("detected memory leaks", "leak"),
                     ("heap-buffer-overflow", "heap-buffer-overflow"), ("alloc-dealloc-mismatch", "alloc-dealloc-mismatch"),
                     ("SEGV", "segv"), ("double free or corruption", "double-free"), ("free(): invalid pointer", "double-free")):
        if pat in se:
            return [("C20:%s:%s" % (info.get("kind", "crash"), sig), "word %s: %s" % (" ".join(w[:12]), se[-600:]))]
    return None


LEVEL_TEXT = ("Proof: a heap/ownership machine transcribed member by member from any.h (default/value/copy/move constructors, the three assignments incl. "
              "the self test of move assignment, swap, reset, destructor, every any_cast form, has_value, type) is proved, for every pool size and every "
              "operation word, to keep the ownership invariant (each live holder owned by exactly one container, no dangling pointer, allocated = destroyed + live, "
              "no fault), to leave an empty heap with every holder destroyed exactly once when the containers are destroyed, and to refine a pool of plain "
              "values (copy = value copy, move = transfer + empty source, casts compare the type first; the T&& cast the library itself uses hands the value to the caller exactly once and leaves a moved-from value of the same type; value construction / assignment is exactly one move (rvalue) or one copy of the held type; when a held type's copy constructor throws, the copying members change nothing and leak nothing). Exceptions from MOVE constructors and from operator new are out of scope. The machine is tied to the code by running the "
              "extracted step function and bfl::Data on the same words, comparing after every operation.")
LEVEL_NOTE = ("Trusted: Coq kernel, extraction + driver, the harness' token-to-C++ mapping and codecs; values are integer codes; allocation failure and throwing "
              "MOVE constructors are outside the model (a throwing copy constructor is modelled: strong guarantee of the copying members, checked with a throwing probe); the tie to the code is sampled (all valid words to length 2/4 over a reduced alphabet + random words).")
