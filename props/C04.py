"""C04 — UKF steps coincide with the Kalman filter on linear-Gaussian models (DESIGN.md §5 C04).

A case is ONE UKFPrediction resp. ONE UKFCorrection object driven through 1..4 calls.  Between the calls the live
model's F / B / Q / exogenous input resp. H / D / R / y change (through setters, setSamplingTime, a move of the object)
or stay, the belief changes, its component count changes or stays; every call is compared with the stateless
model (the extracted Coq model applied to the operands of that call; the correction model threads only the state kept
for getLikelihood) and with the Kalman step of the implementation (the property)."""
import math
import numpy as np
from vlib import caseio, gen

ID = "C04"
COQ_TARGETS = ["C04_Extract.vo", "C04_Proofs.vo", "C04_Seq.vo", "UT_Transport.vo", "C03_Transport.vo", "C04_Transport.vo", "C05_Transport.vo"]
EXTRA_PROPERTIES = ["Transport"]   # Properties_Transport.v: the unscented steps executed at the list instance represent the MathComp instance of the theorems
COQ_PREFIXES = ["C04", "C03", "C01", "C02"]
EXTRACTED = "C04_model"
DRIVER = "drv_C04.ml"
HARNESS = "h_C04.cpp"
VARIANTS = {"quick": ["O1", "assert"], "thorough": ["O1", "assert", "asan"]}   # assert: Eigen assertions on (shape / index slips that NDEBUG hides)
AXIOMS_ALLOWED = []
REQUIRED_THEOREMS = ["C04_predict_additive", "C04_predict_augmented", "C04_predict_additive_exogenous", "C04_kf_predict_is_C02",
                     "C04_kf_predict_mean_is_C02", "C04_correct_additive", "C04_correct_augmented",
                     "C04_likelihood_additive", "C04_likelihood_augmented", "C04_innovation_cov_invertible",
                     "C04_skip_is_identity", "C04_no_measurement_is_identity", "C04_unusable_measurement_is_identity",
                     "C04_correct_history_independent", "C04_unskipped_calls_are_fresh_calls",
                     "C04_transport_kf_predict",
                     "Transport_oracle_counterpart_exists", "Transport_C03_weights", "Transport_C03_sigma_points", "Transport_C03_ut_generic", "Transport_C03_ut_state", "Transport_C03_ut_additive_state", "Transport_C03_ut_meas", "Transport_C03_ut_additive_meas", "Transport_model_functions_correspond", "Transport_C04_ukf_predict_additive", "Transport_C04_ukf_predict_generic", "Transport_C04_ukf_correct_additive", "Transport_C04_ukf_correct_generic", "Transport_C04_ukf_likelihood", "Transport_C04_Pyy_invertible_linear"]
RULE = ("one UKFPrediction / UKFCorrection object per case (additive and generic = noise-input, augmented constructors) driven through 1..4 calls (55% multi-call); between calls the live model "
        "keeps or changes F / B / Q / exogenous input resp. H / D / R / y (all, or only one of them) through setters, StateModel::setSamplingTime, a move construction or move assignment of the object, "
        "the belief changes (or stays), its component count stays (70%) or changes, the measurement size stays or changes, with update_weights_online also the state / noise sizes; "
        "30% of the cases run an independent twin object inside every model callback (re-entrancy); 40-50% of the objects under test are not the constructed one but move-constructed from a fresh or an already used object, UKFPrediction also move-assigned (over an object holding another model); "
        "n in 1..5, m in 1..3 (also m > n), noise inputs q in 1..3, components 1..3, P_i PSD incl. rank-deficient and zero (SPD ones with chosen "
        "condition number <= 1e4), F random / singular / identity, H random / rank-deficient / zero row / selector / zero, B, D random incl. rank-deficient, "
        "R SPD, alpha in [0.1,2], beta in [0,3], kappa in [0,3]; physical units: homogeneous state unit 1e-5..1e4, measurement unit 1e-3..1e3, noise-input unit ratio 10^+-1.5, "
        "coordinate-wise factors 10^+-1.5 on state and measurement rows (tolerances carried by the homogeneous units, norm-based for the others); "
        "30% of the objects have 1..2 Euler-circular state rows in the regimes where a linear model is transformed exactly (C03's Euler exactness: structured F / H, small spreads; or no sigma point wraps); "
        "constant exogenous input on the additive state model, output object of another shape, correct(g, g) with the output object being the input object (8% of the calls), measurement descriptions that declare noise components, skip flags, missing measurement, failing predicted measurement, failing innovation at any call; "
        "non-trivial = several calls or components >= 2 or generic or rank-deficient H/F or singular P or an early-return path or circular rows; "
        "distinct by (kind, generic, n, circ, q, steps, hows, paths, component counts, matrix kinds)")
TRUSTED_BASE = ["Coq 8.16.1 kernel (coqc); no axioms (Print Assumptions: closed under the global context)",
                "MathComp 1.15 matrix theory",
                "extraction (ExtrOcamlBasic only) and ocaml/float_ops.ml, ocaml/drv_C04.ml (incl. its Jacobi eigen-iteration used as square-root oracle, and its loop over the calls of a case), ocaml/caseio.ml",
                "ListOps list instance of MatOps: proved to compute the MathComp operations on well-formed inputs over any realFieldType, incl. the Gauss-Jordan inverse/determinant on invertible inputs (ListOpsCorrect.v, ListGauss.v); the unscented steps executed at the list instance are proved to represent the MathComp instance the theorems are about (UT_Transport.v, C03_/C04_/C05_Transport.v; the theorems of Properties_Transport.v are obligations of this check), under per-call premises: the list-level and the matrix-level square-root / eigenvector oracles correspond on the matrices actually passed, the model functions map corresponding columns to corresponding columns, and the inverted matrices (the predicted measurement covariances Pyy_i) are invertible at the MathComp instance (derived for linear measurement models with SPD noise: Transport_C04_Pyy_invertible_linear); what remains between executed model and theorem model is IEEE rounding and the oracle correspondence",
                "cpp/h_C04.cpp harness and its linear, time-varying models; comparison tolerances rtol 1e-8 * cond + 1e-12 * max|weight| (UKF vs KF), 1e-9 * cond + 1e-12 * max|weight| (implementation vs model), in the case's homogeneous units",
                "states with Euler-circular rows: the theorems of Properties_C04.v are stated for plain layouts; that the unscented steps coincide with the Kalman ones on the generated circular cases rests on C03's Euler exactness theorems (Properties_C03_Real.v, over Coq's reals) for the structured class and on the observation that no wrap occurs for the other class; both classes are also run through the extracted model",
                "correspondence is sampled: agreement is established on the generated cases only",
                "IEEE rounding is not modelled (theorems over an exact real field)"]
ASSUMPTIONS = ["square-root oracle: P symmetric PSD => A A^T = P (Eigen jacobiSvd; checked on the implementation's sigma points by C03, on the model side here)",
               "sqrt oracle: 0 <= c => sqrt c * sqrt c = c",
               "Eigen inverse()/determinant() behave as matrix inverse/determinant up to rounding",
               "linear measurement description (m linear, no circular components; declared noise components are allowed and irrelevant: the cross-covariance is sliced by predicted_meas_.dim_covariance); quaternion states/measurements are outside C04",
               "a linear model on a state with Euler-circular rows is 'linear-Gaussian' only where the circle does not matter: circular rows read by linear rows / with real coefficients are admitted only while no sigma point wraps, otherwise the model must not read circular rows from linear ones and must map circular rows to circular rows with integer coefficients; spreads on circular rows below half a turn and circular variances below 2 (positive resultant); everything else on circular rows is outside C04 (C03 / C19 territory)",
               "a moved-from / moved-to UKFCorrection does not keep the likelihood state (its move constructor does not transfer it): a skipped correction is never generated right after a move"]

COUNTS = {"quick": 1000, "thorough": 12000}
SEARCH_CASES = 1500
PI = math.pi
# relative tolerances per unit of the call's conditioning figure `cond` (see predict_step / correct_step).  Calibrated on
# 6000 generated cases (39000 compared means / covariances, all classes: units, coordinate factors, circular rows,
# rank-deficient data): the largest observed |ukf - kf| is 6e-12 * cond * magnitude (median 1e-20 * cond * magnitude), the
# largest observed |impl - model| 7e-12 * cond * magnitude; the figures below keep a margin of 1700x resp. 140x over that.
R_ORACLE = 1e-8
R_MODEL = 1e-9


# --------------------------------------------------------------------------------------------------------------
# generators
def ut_params(rng):
    alpha = rng.choice([0.1, 1.0, 2.0, rng.uniform(0.1, 2.0), rng.uniform(0.1, 2.0)])
    beta = rng.choice([0.0, 2.0, rng.uniform(0.0, 3.0)])
    kappa = rng.choice([0.0, 0.0, rng.uniform(0.0, 3.0)])
    return alpha, beta, kappa


def wmag(alpha, beta, kappa, dof):
    c = alpha * alpha * (dof + kappa)
    return max(abs(1 - dof / c) + abs(1 - alpha * alpha + beta), 1 / (2 * c), 1.0)


def rect(rng, r, c):
    kind = rng.choice(["random", "random", "rankdef", "zero"])
    if kind == "random" or min(r, c) < 1:
        return gen.matrix(rng, r, c), "random"
    if kind == "rankdef":
        return gen.matrix(rng, r, 1) @ gen.matrix(rng, 1, c), "rankdef"
    return np.zeros((r, c)), "zero"


def factors(rng, k, span=1.5):
    """coordinate-wise unit factors: none / one common factor / one factor per coordinate"""
    r = rng.random()
    if r < 0.7:
        return np.ones(k)
    if r < 0.8:
        return np.full(k, 10.0 ** rng.uniform(-span, span))
    return np.array([10.0 ** rng.uniform(-span, span) for _ in range(k)])


def norm2(a):
    return float(np.linalg.norm(a, 2)) if a.size else 0.0


def blockdiag(a, b):
    n, q = a.shape[0], b.shape[0]
    o = np.zeros((n + q, n + q)); o[:n, :n] = a; o[n:, n:] = b
    return o


class Obj:
    """what is fixed for the object under test"""
    pass


def draw_object(rng, kind):
    o = Obj()
    o.kind = kind
    o.generic = rng.randint(0, 1)
    o.n = rng.randint(1, 5)
    o.circ = 0 if rng.random() < 0.7 else rng.randint(1, min(2, o.n))
    o.regime = rng.choice(["euler", "nowrap"]) if o.circ else "-"
    o.q = rng.randint(1, 3) if o.generic else 0
    o.alpha, o.beta, o.kappa = ut_params(rng)
    o.steps = 1 if rng.random() < 0.45 else rng.randint(2, 4)
    o.exo = int(kind == "predict" and not o.generic and rng.random() < 0.4)
    o.online = rng.randint(0, 1) if (kind == "correct" and o.generic) else 0
    o.intrude = int(rng.random() < 0.3)
    # how the object under test was obtained: constructed, move-constructed from a fresh / a used object, (UKFPrediction) move-assigned
    o.lifetime = rng.choice(["fresh"] * 6 + ["moved"] * 2 + ["moved_after_use"] * 2 + (["assigned", "assigned_after_use"] if kind == "predict" else []))
    o.target_generic = rng.randint(0, 1)      # constructor of the object that is move-assigned to (lifetime = assigned*)
    # physical units.  Homogeneous: state in units of L (means L, covariances L^2; F, B unchanged because the noise
    # inputs are measured in the state's unit times rho), measurement in units of e (y e, R e^2, H e/L): the steps are
    # homogeneous, conditioning is unchanged, so tolerances are carried by the same factors.  Circular rows are radians.
    o.L = 10.0 ** rng.uniform(-5, 4) if (o.circ == 0 and rng.random() < 0.4) else 1.0
    o.e = 10.0 ** rng.uniform(-3, 3) if rng.random() < 0.3 else 1.0
    o.rho = 10.0 ** rng.uniform(-1.5, 1.5) if (o.generic and rng.random() < 0.3) else 1.0
    # coordinate-wise factors (not homogeneous: they enter the conditioning, tolerances are norm-based)
    o.kx = factors(rng, 5)
    if o.circ:
        o.kx[o.n - o.circ:o.n] = 1.0
    o.jy = factors(rng, 3)
    return o


def c_of(o, n, q):
    return o.alpha ** 2 * (n + q + o.kappa)


def state_model(rng, o, prev, keep):
    """unit-free (coordinate factors and rho included) F, B, Q, exo c of a call; keep in {None, 'F', 'Q', 'all'}"""
    n, q, circ = o.n, o.q, o.circ
    K = np.diag(o.kx[:n]); Ki = np.diag(1.0 / o.kx[:n])
    if keep == "all":
        return dict(prev)
    d = {}
    if keep == "F":
        d["F"], d["B"], d["fk"], d["bk"] = prev["F"], prev["B"], prev["fk"], prev["bk"]
    else:
        fk = rng.choice(["random", "random", "singular", "identity"])
        F = gen.matrix(rng, n, n) if fk == "random" else (np.eye(n) if fk == "identity" else gen.matrix(rng, n, 1) @ gen.matrix(rng, 1, n))
        if circ and o.regime == "euler":
            # linear rows do not read circular rows; circular rows read circular rows with integer coefficients
            F = F.copy(); l = n - circ
            F[:l, l:] = 0.0
            Z = np.diag([float(rng.choice([1, 1, 1, -1])) for _ in range(circ)])
            if circ == 2 and rng.random() < 0.4:
                Z[0, 1] = float(rng.choice([-1, 1, 2])); Z[1, 0] = float(rng.choice([0, 0, 1]))
            F[l:, l:] = Z
        F = K @ F @ Ki
        if o.generic:
            B, bk = rect(rng, n, q)
            B = K @ B / o.rho
        else:
            B, bk = np.zeros((n, 0)), "none"
        d["F"], d["B"], d["fk"], d["bk"] = F, B, fk, bk
    if keep == "Q":
        d["Q"] = prev["Q"]
    elif o.generic:
        d["Q"] = gen.psd(rng, q, rng.choice([q, q, max(0, q - 1)])) * o.rho ** 2
    else:
        d["Q"] = K @ gen.psd(rng, n, rng.choice([n, n, n, max(0, n - 1), 0])) @ K
    if circ and o.generic:
        # the noise inputs alone must leave room on the circular output rows (spread below half a turn, variance below 2)
        lim = 0.7 * min(PI ** 2 / c_of(o, n, q), 2.0)
        B = d["B"].copy()
        for i in range(n - circ, n):
            v = float(B[i] @ d["Q"] @ B[i])
            if v > 0.25 * lim:
                B[i] *= math.sqrt(0.25 * lim / v) * rng.uniform(0.3, 1.0)
        d["B"] = B
    if o.exo:
        d["exo"] = prev["exo"] if (keep in ("F", "Q") and prev is not None and rng.random() < 0.5) else K @ gen.matrix(rng, n, 1, 3.0)
    return d


def belief(rng, o, n, comps, kind):
    """unit-free means / covariances of a belief with o.circ circular rows at the end"""
    K = np.diag(o.kx[:n])
    means = K @ gen.matrix(rng, n, comps, 3.0)
    if o.circ:
        for j in range(n - o.circ, n):
            for i in range(comps):
                means[j, i] = rng.uniform(-2.0, 2.0) if o.regime == "nowrap" else rng.uniform(-4.0, 4.0)
    covs, cond, sing = [], 1.0, 0
    for i in range(comps):
        if kind == "predict":
            rank = rng.choice([n, n, n, max(0, n - 1), 0])
            P = gen.psd(rng, n, rank); sing = max(sing, n - rank)
        else:
            pk = rng.choice(["spd", "spd", "spd", "rankdef", "zero"])
            if pk == "spd":
                P, cd = gen.spd(rng, n, 10 ** rng.uniform(0, 4))
            else:
                rank = max(0, n - 1) if pk == "rankdef" else 0      # S = H P H^T + R stays SPD through R
                P = gen.psd(rng, n, rank); sing = max(sing, n - rank)
        covs.append(K @ P @ K)
    w = np.array([rng.random() + 0.1 for _ in range(comps)]); w = w / w.sum()
    return means, covs, w, sing


def fit_circular(rng, o, n, q, means, covs, Am=None, noise_out=None):
    """scales each covariance so that the circular rows stay in the regime where the unscented transform of a linear
    map is exact (Properties_C03_Real.v: small_cov): c P_jj < pi^2 on circular input rows, c (A P A^T)_ii < pi^2 and
    (A P A^T)_ii < 2 on circular output rows; regime nowrap: |m_j| + sqrt(c P_jj) < pi.  Margins 0.6 .. 0.9."""
    if not o.circ:
        return covs
    c = c_of(o, n, q)
    out = []
    for i, P in enumerate(covs):
        t = 1.0
        for j in range(n - o.circ, n):
            if P[j, j] > 0:
                t = min(t, 0.6 * PI ** 2 / (c * P[j, j]))
                if o.regime == "nowrap":
                    room = 0.9 * PI - abs(means[j, i])
                    t = min(t, room * room / (c * P[j, j]))
        if Am is not None:
            lim = 0.7 * min(PI ** 2 / c, 2.0)
            S = Am[:, :n] @ P @ Am[:, :n].T
            for r in range(n - o.circ, n):
                room = lim - (noise_out[r] if noise_out is not None else 0.0)
                if S[r, r] > 0:
                    t = min(t, max(room, 0.0) / S[r, r])
        if t < 1.0:
            t *= rng.uniform(0.3, 1.0)
        out.append(P * t)
    return out


def predict_step(rng, o, prev, how):
    n, q = o.n, o.q
    keep = None
    if prev is not None:
        if how in ("same", "movector"):
            keep = "all"
        else:
            r = rng.random()
            keep = None if r < 0.55 else ("F" if r < 0.8 else "Q")
    mdl = state_model(rng, o, prev["mdl"] if prev else None, keep)
    comps = prev["comps"] if (prev is not None and rng.random() < 0.7) else rng.randint(1, 3)
    if prev is not None and comps == prev["comps"] and rng.random() < 0.12:
        means, covs, w, sing = prev["means"], prev["covs"], prev["w"], prev["sing"]      # the very same belief again
    else:
        means, covs, w, sing = belief(rng, o, n, comps, "predict")
    F, B, Q = mdl["F"], mdl["B"], mdl["Q"]
    A = np.hstack([F, B]) if o.generic else F
    if o.circ:
        noise_out = [float(B[i] @ Q @ B[i]) if o.generic else 0.0 for i in range(n)]
        covs = fit_circular(rng, o, n, q, means, covs, A, noise_out)
    if o.generic:
        scale = norm2(A) ** 2 * max(norm2(blockdiag(P, Q)) for P in covs)
        scale = max(scale, norm2(F) ** 2 * max(norm2(P) for P in covs) + norm2(Q) * max(1.0, norm2(B) ** 2))
    else:
        scale = norm2(F) ** 2 * max(norm2(P) for P in covs) + norm2(Q)
    path = rng.choice(["step"] * 8 + ["skip_pred", "skip_state"])
    return dict(mdl=mdl, comps=comps, means=means, covs=covs, w=w, sing=sing, A=A, path=path, cond=max(1.0, scale),
                out_shape=rng.choice([0, 0, 1, 2]), mkind=mdl["fk"] + "/" + mdl["bk"], how=how, n=n, q=q, m=0)


def meas_model(rng, o, n, q, m, prev, keep):
    K = np.diag(1.0 / o.kx[:n]); J = np.diag(o.jy[:m])
    if keep == "all":
        return dict(prev)
    d = {}
    if keep == "H":
        d["H"], d["D"], d["hk"] = prev["H"], prev["D"], prev["hk"]
    else:
        H, hk = gen.measurement_matrix(rng, m, n)
        if o.circ and o.regime == "euler":
            H = H.copy(); H[:, n - o.circ:] = 0.0        # the (linear) measurement does not read circular rows
        d["H"], d["hk"] = J @ H @ K, hk
        d["D"] = J @ gen.matrix(rng, m, q) / o.rho if o.generic else np.zeros((m, 0))
    if keep == "R":
        d["R"] = prev["R"]
    elif o.generic:
        d["R"] = gen.spd(rng, q, 10 ** rng.uniform(0, 2))[0] * o.rho ** 2
    else:
        d["R"] = J @ gen.spd(rng, m, 10 ** rng.uniform(0, 3))[0] @ J
    return d


def correct_step(rng, o, prev, how, path):
    n, q = (prev["n"], prev["q"]) if prev else (o.n, o.q)
    m = prev["m"] if prev else rng.randint(1, 3)
    keep = None
    if prev is not None:
        if how in ("same", "movector"):
            keep = "all"
        else:
            r = rng.random()
            if r < 0.25:
                m = rng.randint(1, 3)                        # another measurement size
                if o.online and o.circ == 0 and rng.random() < 0.5:
                    q = rng.randint(1, 3)                    # update_weights_online: the input description may change
                    if rng.random() < 0.4:
                        n = rng.randint(1, 5)
            elif r < 0.6:
                keep = None
            else:
                keep = "H" if r < 0.8 else "R"
    if o.generic and q < m:
        # D (m x q) of full row rank, so that D Rv D^T is SPD for the equivalent Kalman step
        if prev is None or o.online and o.circ == 0:
            q = rng.randint(m, 3)
        else:
            m = rng.randint(1, q)
        if keep in ("H", "R"):
            keep = None
    if prev is not None and (m != prev["m"] or n != prev["n"] or q != prev["q"]):
        keep = None
    mdl = meas_model(rng, o, n, q, m, prev["mdl"] if prev else None, keep)
    comps = prev["comps"] if (prev is not None and n == prev["n"] and rng.random() < 0.7) else rng.randint(1, 3)
    if prev is not None and comps == prev["comps"] and n == prev["n"] and rng.random() < 0.12:
        means, covs, w, sing = prev["means"], prev["covs"], prev["w"], prev["sing"]
    else:
        means, covs, w, sing = belief(rng, o, n, comps, "correct")
    covs = fit_circular(rng, o, n, q, means, covs)
    H, D, R = mdl["H"], mdl["D"], mdl["R"]
    Reff = D @ R @ D.T if o.generic else R
    A = np.hstack([H, D]) if o.generic else H
    cond = np.linalg.cond(Reff)
    for P in covs:
        S = H @ P @ H.T + Reff
        ev = np.linalg.eigvalsh((S + S.T) / 2)
        cond = max(cond, np.linalg.cond(S))
        # rounding of the unscented sums relative to what is inverted: |[H D]|^2 |blockdiag(P, Rv)| / lambda_min(S)
        Pa = blockdiag(P, R) if o.generic else P
        cond = max(cond, (norm2(A) ** 2 * norm2(Pa) + (0.0 if o.generic else norm2(R))) / max(ev[0], 1e-300))
        if np.linalg.matrix_rank(P) == n and n > 0:
            cond = max(cond, np.linalg.cond(P))
    J = np.diag(o.jy[:m])
    y = J @ gen.matrix(rng, m, 1, 5.0)
    alias = int(rng.random() < 0.08)          # correct(g, g): the output object is the input object
    old_comps = comps if alias else comps + rng.choice([0, 0, 1])
    Kx = np.diag(o.kx[:n])
    return dict(mdl=mdl, comps=comps, means=means, covs=covs, w=w, sing=sing, A=A, path=path, cond=max(1.0, cond), m=m, n=n, q=q,
                y=y, old_comps=old_comps, old_means=Kx @ gen.matrix(rng, n, old_comps, 7.0), old_covs=gen.matrix(rng, n, n * old_comps, 2.0),
                mnoise=rng.choice([0, 0, 1, 2]), mkind=mdl["hk"] + "/" + ("random" if o.generic else "none"), how=how,
                rankH=int(np.linalg.matrix_rank(H)), alias=alias)


PRED_HOWS = ["same", "set", "set", "time", "time", "moveassign", "movector", "movector+set"]
CORR_HOWS = ["same", "set", "set", "set", "movector", "movector+set"]


def gen_case(rng, k):
    kind = rng.choice(["predict", "correct", "correct"])
    o = draw_object(rng, kind)
    st = []
    for t in range(o.steps):
        how = "first" if t == 0 else rng.choice(PRED_HOWS if kind == "predict" else CORR_HOWS)
        if kind == "predict":
            st.append(predict_step(rng, o, st[-1] if st else None, how))
        else:
            path = rng.choice(["step"] * 10 + ["skip", "no_measurement", "fail", "fail_innov"])
            if path == "skip" and t > 0:
                how = "same"        # a skipped correction does not consult the model; its sizes are those of the kept state
            st.append(correct_step(rng, o, st[-1] if st else None, how, path))
            if t == 0:
                o.q = st[0]["q"]      # generic: q >= m of the first call
    return build_case(k, o, st)


def build_case(k, o, st):
    L, e = o.L, o.e
    meta = {"kind": o.kind, "generic": o.generic, "n": o.n, "circ": o.circ, "regime": o.regime, "q": o.q, "steps": o.steps,
            "alpha": "%.4g" % o.alpha, "beta": "%.4g" % o.beta, "kappa": "%.4g" % o.kappa, "exo": o.exo, "online": o.online,
            "intrude": o.intrude, "lifetime": o.lifetime, "L": repr(L), "e": repr(e), "rho": "%.3g" % o.rho,
            "kx": "%.3g" % (max(o.kx[:o.n]) / min(o.kx[:o.n])), "comps": max(s["comps"] for s in st),
            "hows": ",".join(s["how"] for s in st), "paths": ",".join(s["path"] for s in st),
            "shapes": ",".join("%d:%d:%d:%d" % (s["n"], s["q"], s["m"], s["comps"]) for s in st),
            "conds": ",".join("%.3g" % s["cond"] for s in st), "mkinds": ",".join(s["mkind"] for s in st),
            "singular": max(s["sing"] for s in st), "alias": max(s.get("alias", 0) for s in st)}
    c = caseio.Case(k, o.kind, meta)
    c.int("n", o.n).int("circ", o.circ).int("q", o.q).int("generic", o.generic).int("nsteps", o.steps).int("intrude", o.intrude)
    c.int("online", o.online)
    if o.lifetime.startswith("assigned"):
        c.int("target_generic", o.target_generic)
    c.mat("params", np.array([[o.alpha, o.beta, o.kappa]]))
    c.word("hows", [s["how"] for s in st])
    for t, s in enumerate(st):
        x = "_s%d" % t
        n, q, comps = s["n"], s["q"], s["comps"]
        mdl = s["mdl"]
        c.mat_shape("means" + x, n, comps, s["means"] * L).mat_shape("covs" + x, n, n * comps, np.hstack(s["covs"]) * L * L)
        c.mat_shape("weights" + x, comps, 1, s["w"])
        if o.kind == "predict":
            c.int("skip_pred" + x, int(s["path"] == "skip_pred")).int("skip_state" + x, int(s["path"] == "skip_state")).int("out_shape" + x, s["out_shape"])
            if o.exo:
                c.mat_shape("exo_c" + x, n, 1, mdl["exo"] * L)
            Q = mdl["Q"] * L * L
            c.mat_shape("F" + x, n, n, mdl["F"]).mat_shape("B" + x, n, q, mdl["B"]).mat_shape("A" + x, n, n + q, s["A"])
            c.mat_shape("Q" + x, Q.shape[0], Q.shape[0], Q)
        else:
            m = s["m"]
            c.int("n" + x, n).int("q" + x, q).int("m" + x, m).int("mnoise" + x, s["mnoise"]).int("alias" + x, s["alias"])
            c.int("skip" + x, int(s["path"] == "skip")).int("have_y" + x, int(s["path"] != "no_measurement")).int("fail" + x, int(s["path"] == "fail")).int("fail_innov" + x, int(s["path"] == "fail_innov"))
            H, D = mdl["H"] * (e / L), mdl["D"] * (e / L)
            R = mdl["R"] * (L * L if o.generic else e * e)
            c.mat_shape("H" + x, m, n, H).mat_shape("D" + x, m, q, D).mat_shape("A" + x, m, n + q, np.hstack([H, D]) if o.generic else H)
            c.mat_shape("R" + x, R.shape[0], R.shape[0], R).mat_shape("y" + x, m, 1, s["y"] * e)
            oc = s["old_comps"]
            c.mat_shape("old_means" + x, n, oc, s["old_means"] * L).mat_shape("old_covs" + x, n, n * oc, s["old_covs"] * L * L)
            c.mat_shape("old_weights" + x, oc, 1, np.array([0.125 + 0.0625 * i for i in range(oc)]))
    return c


def generate(rng, tier):
    return [gen_case(rng, k) for k in range(COUNTS[tier])]


def nontrivial(c):
    m = c.meta
    paths = m["paths"].split(",")
    if (int(m["steps"]) > 1 or int(m["comps"]) >= 2 or int(m["generic"]) or any(p != "step" for p in paths) or "rankdef" in m["mkinds"]
            or "zero" in m["mkinds"] or "singular" in m["mkinds"] or int(m.get("singular", 0)) or int(m["circ"]) or m.get("lifetime", "fresh") != "fresh"):
        return (m["kind"], m["generic"], m["n"], m["circ"], m["regime"], m["q"], m["steps"], m["hows"], m["paths"], m["shapes"], m["mkinds"], m["exo"], m["online"], m["singular"], m.get("lifetime", "fresh"))
    return None


# --------------------------------------------------------------------------------------------------------------
# per-call views
def step_shapes(c):
    return [tuple(int(v) for v in x.split(":")) for x in c.meta["shapes"].split(",")]


class Step:
    """call t of a case: sizes, path, conditioning, units, and field access with the call's suffix"""

    def __init__(self, c, t):
        m = c.meta
        self.c, self.t, self.x = c, t, "_s%d" % t
        self.n, self.q, self.m, self.comps = step_shapes(c)[t]
        self.path = m["paths"].split(",")[t]
        self.how = m["hows"].split(",")[t]
        self.cond = float(m["conds"].split(",")[t])
        self.circ = int(m["circ"])
        self.L = float(m["L"])
        self.wmag = wmag(float(m["alpha"]), float(m["beta"]), float(m["kappa"]), self.n + self.q)
        self.generic = int(m["generic"])

    def op(self, name):
        return self.c.get(name + self.x)

    def f(self, rec, name):
        return None if rec is None else rec.get(name + self.x)

    def unit(self, field):
        return self.L if "mean" in field else self.L * self.L

    def tol(self, field, mag_unitfree, r):
        """(r * cond (conditioning of the innovation covariance / size of F P F^T + Q) + the rounding amplification of the
        unscented sums, 1e-12 * max|weight|) * magnitude, computed in unit-free terms and carried by the homogeneous unit"""
        return (r * self.cond + 1e-12 * self.wmag) * max(1.0, mag_unitfree) * self.unit(field)

    def diff(self, field, a, b):
        """|a - b|, modulo a full turn on the circular rows of a mean"""
        d = np.abs(np.asarray(a, dtype=float) - np.asarray(b, dtype=float))
        if self.circ and "mean" in field and d.ndim == 2 and d.shape[0] == self.n:
            for j in range(self.n - self.circ, self.n):
                d[j] = np.abs((d[j] + PI) % (2 * PI) - PI)
        return d


def comp_fields(k):
    out = []
    for i in range(k):
        out += ["mean%d" % i, "cov%d" % i]
    return out


def close_in(s, field, a, b, r):
    """returns None if a ~ b within the call's tolerance, else (maxdiff, tol)"""
    if a is None or b is None or np.shape(a) != np.shape(b):
        return (math.inf, 0.0)
    if not (np.all(np.isfinite(a)) and np.all(np.isfinite(b))):
        return None if np.array_equal(a, b, equal_nan=True) else (math.inf, 0.0)
    mag = (float(np.max(np.abs(b))) if np.size(b) else 1.0) / s.unit(field)
    t = s.tol(field, mag, r)
    d = s.diff(field, a, b)
    md = float(np.max(d)) if d.size else 0.0
    return None if md <= t else (md, t)


def compare(c, impl, model):
    d = []
    for t in range(int(c.meta["steps"])):
        s = Step(c, t)
        ki, km = s.f(impl, "components"), s.f(model, "components")
        if ki != km:
            d.append("components%s: impl=%s model=%s" % (s.x, ki, km)); continue
        for f in comp_fields(ki) + ["kf_" + f for f in comp_fields(s.comps)] + ["weights"]:
            a, b = s.f(impl, f), s.f(model, f)
            if a is None or b is None or a.shape != b.shape:
                d.append("%s%s: missing or shape (impl %s, model %s)" % (f, s.x, None if a is None else a.shape, None if b is None else b.shape)); continue
            if f == "weights":
                if not caseio.close(a, b, 1e-15, 0):
                    d.append("weights%s: max|impl-model|=%.3g" % (s.x, caseio.maxdiff(a, b)))
                continue
            bad = close_in(s, f, a, b, R_MODEL)
            if bad:
                d.append("%s%s: max|impl-model|=%.3g (tol %.3g)" % (f, s.x, bad[0], bad[1]))
        if c.kind == "correct":
            if s.f(impl, "lik_valid") != s.f(model, "lik_valid"):
                d.append("lik_valid%s: impl=%s model=%s" % (s.x, s.f(impl, "lik_valid"), s.f(model, "lik_valid")))
            elif s.f(impl, "lik_valid") == 1:
                if not caseio.close(s.f(impl, "lik"), s.f(model, "lik"), 1e-300, R_MODEL * s.cond + 1e-12 * s.wmag):
                    d.append("lik%s: impl %s model %s" % (s.x, s.f(impl, "lik"), s.f(model, "lik")))
            for i in range(s.comps):
                if not caseio.close(s.f(impl, "kf_lik%d" % i), s.f(model, "kf_lik%d" % i), 1e-300, R_MODEL * s.cond):
                    d.append("kf_lik%d%s: impl %r model %r" % (i, s.x, s.f(impl, "kf_lik%d" % i), s.f(model, "kf_lik%d" % i)))
    return d


def oracle(c, impl, model):
    """UKF output vs KF output of the implementation itself, same inputs, at every call of the sequence."""
    v = []
    m = c.meta
    base = "C04:%s:%s" % (c.kind, "generic" if int(m["generic"]) else "additive")
    prev_lik = None        # what getLikelihood reported after the previous call (None: nothing)
    lifetime = m.get("lifetime", "fresh")
    if (impl.get("relocations") or 0) != (0 if lifetime == "fresh" else 1):
        v.append(("C04:harness:object-not-relocated", "lifetime=%s but %s relocation(s)" % (lifetime, impl.get("relocations"))))
    for t in range(int(m["steps"])):
        s = Step(c, t)
        comps, n, path = s.comps, s.n, s.path
        later = "" if t == 0 else ":later-call-on-same-object"
        sig = base
        where = "call %d (%s%s%s): " % (t, s.how, "" if lifetime == "fresh" else ", object obtained as lifetime=" + lifetime,
                                        ", a twin object runs inside every model callback" if int(m["intrude"]) else "")
        if s.f(impl, "input_unchanged") != 1:
            v.append((sig + ":input-modified" + later, where + "the input belief was modified"))
        if int(m["intrude"]) and (s.f(impl, "intruder_calls") or 0) < 1 and path == "step":
            v.append(("C04:harness:intruder-not-called", where + "no model callback ran during the step"))
        means, covs = s.op("means"), s.op("covs")
        lik_now = (s.f(impl, "lik").reshape(-1) if s.f(impl, "lik_valid") == 1 and s.f(impl, "lik") is not None else None) if c.kind == "correct" else None
        if c.kind == "correct" and s.f(impl, "lik_requery_same") != 1:
            v.append((sig + ":likelihood-changes-on-requery" + later, where + "a second getLikelihood() returned something else"))
        if path != "step":
            # early-return paths hand back the input belief
            if s.f(impl, "components") != comps:
                v.append((sig + ":%s:component-count%s" % (path, later), where + "%s components" % s.f(impl, "components")))
                prev_lik = lik_now; continue
            for i in range(comps):
                if not (np.array_equal(s.f(impl, "mean%d" % i).reshape(-1), means[:, i]) and np.array_equal(s.f(impl, "cov%d" % i), covs[:, i * n:(i + 1) * n])):
                    v.append((sig + ":%s:belief-changed%s" % (path, later), where + "component %d differs from the input belief" % i)); break
            if c.kind == "correct" and path in ("no_measurement", "fail", "fail_innov") and s.f(impl, "lik_valid") != 0:
                v.append((sig + ":%s:likelihood-without-correction%s" % (path, ":after-earlier-step" if t else ""),
                          where + "a likelihood is reported after a correction that could not use the measurement"))
            if c.kind == "correct" and path == "skip":
                same = (lik_now is None and prev_lik is None) or (lik_now is not None and prev_lik is not None and np.array_equal(lik_now, prev_lik))
                if not same:
                    v.append((sig + ":skip:likelihood-state-touched" + later, where + "a skipped correction changed what getLikelihood reports (now %s, before %s)" % (lik_now, prev_lik)))
            prev_lik = lik_now
            continue
        alias = c.kind == "correct" and c.has("alias" + s.x) and s.op("alias") == 1
        exp_comps = comps if (c.kind == "predict" or alias) else s.op("old_means").shape[1]
        if s.f(impl, "components") != exp_comps:
            v.append((sig + ":component-count" + later, where + "%s components, expected %d" % (s.f(impl, "components"), exp_comps)))
            prev_lik = lik_now; continue
        for i in range(comps):
            for f in ("mean%d" % i, "cov%d" % i):
                a, b = s.f(impl, f), s.f(impl, "kf_" + f)
                if a is None or b is None or a.shape != b.shape:
                    v.append((sig + ":missing-output" + later, where + f)); continue
                bad = close_in(s, f, a, b, R_ORACLE)
                if bad:
                    v.append((sig + ":ukf-differs-from-kf:%s:comp%s%s" % (f.rstrip("0123456789"), "0" if i == 0 else "k", later),
                              where + "component %d: max|ukf-kf| = %.3g (tol %.3g)" % (i, bad[0], bad[1])))
        if c.kind == "predict":
            if s.f(impl, "dim") != n:
                v.append((sig + ":output-shape" + later, where + "predicted mixture has dimension %s, expected %d" % (s.f(impl, "dim"), n)))
            if s.f(impl, "dim_circular") != s.circ:
                v.append((sig + ":output-layout" + later, where + "predicted mixture has %s circular rows, expected %d" % (s.f(impl, "dim_circular"), s.circ)))
            if not caseio.close(s.f(impl, "weights").reshape(-1), np.full(comps, 1.0 / comps), 1e-15, 0):
                v.append((sig + ":output-weights" + later, where + "the predicted mixture does not carry the uniform weights of a fresh mixture"))
        else:
            # frame: weights of the output object and components beyond the predicted ones are untouched
            if not np.array_equal(s.f(impl, "weights").reshape(-1), s.op("weights" if alias else "old_weights").reshape(-1)):
                v.append((sig + ":output-weights-written" + later, where + "weights of the output object changed"))
            om, oc = s.op("old_means"), s.op("old_covs")
            for i in range(comps, exp_comps):
                if not (np.array_equal(s.f(impl, "mean%d" % i).reshape(-1), om[:, i]) and np.array_equal(s.f(impl, "cov%d" % i), oc[:, i * n:(i + 1) * n])):
                    v.append((sig + ":frame" + later, where + "component %d of the output object (beyond the predicted ones) was written" % i))
            if lik_now is None:
                v.append((sig + ":likelihood-missing" + later, where + "no likelihood after a correction"))
            elif len(lik_now) != comps:
                v.append((sig + ":likelihood-size" + later, where + "%d entries for %d components" % (len(lik_now), comps)))
            else:
                for i in range(comps):
                    kl = s.f(impl, "kf_lik%d" % i)
                    if not caseio.close(lik_now[i], kl, 1e-300, R_ORACLE * s.cond + 1e-12 * s.wmag):
                        v.append((sig + ":likelihood-differs-from-kf:comp%s%s" % ("0" if i == 0 else "k", later), where + "component %d: ukf %r kf %r" % (i, lik_now[i], kl)))
        prev_lik = lik_now
    if model is not None and (model.get("sqrt_residual") or 0.0) > 1e-10:
        v.append(("C04:model-sqrt-oracle-contract", "residual %.3g" % model.get("sqrt_residual")))
    return v


def histogram(cases):
    h = {}
    for key in ("kind", "generic", "n", "circ", "regime", "q", "steps", "comps", "exo", "online", "intrude", "lifetime", "alias", "singular"):
        hk = {}
        for c in cases:
            if key in c.meta:
                hk[str(c.meta[key])] = hk.get(str(c.meta[key]), 0) + 1
        h[key] = hk
    for key in ("hows", "paths", "mkinds"):
        hk = {}
        for c in cases:
            for tok in c.meta[key].split(","):
                hk[tok] = hk.get(tok, 0) + 1
        h[key + "_per_call"] = hk
    hk = {"same": 0, "changed": 0}
    for c in cases:
        sh = step_shapes(c)
        for a, b in zip(sh, sh[1:]):
            hk["same" if a == b else "changed"] += 1
    h["shape_vs_previous_call"] = hk
    for key, lab in (("L", "state_unit_decade"), ("e", "measurement_unit_decade")):
        hk = {}
        for c in cases:
            d = str(gen.decade(float(c.meta[key])))
            hk[d] = hk.get(d, 0) + 1
        h[lab] = hk
    return h


LEVEL_TEXT = ("Proof: the unscented prediction and correction models (additive-noise and generic/augmented constructors, slice offsets as in the code, "
              "state kept for the likelihood) are proved, for every real field, dimension, mixture, admissible (alpha, beta, kappa), PSD P_i and the "
              "square-root contract, to return on linear models exactly the Kalman prediction (F m, F P F^T + Q, resp. + B Q B^T) and the Kalman "
              "correction of C01 (mean, covariance, innovation covariance, likelihood; R resp. D R D^T), component by component, whatever an earlier call "
              "left in the object (history independence). Tied to the code by running the extracted model, ONE UKFPrediction / UKFCorrection object over "
              "sequences of calls with a changing model, and the implementation's own KFPrediction/KFCorrection on the same cases.")
LEVEL_NOTE = ("Trusted: Coq kernel, MathComp, extraction + float driver (with its Jacobi oracle), list instance of the matrix interface, harness and tolerances; "
              "rounding is not modelled; the tie to the code is sampled. Quaternion states/measurements are outside C04 (linear models); Euler-circular state rows "
              "are covered on the check side only, in the regimes where C03's Euler exactness applies.")
