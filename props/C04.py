"""C04 — UKF steps coincide with the Kalman filter on linear-Gaussian models (DESIGN.md §5 C04)."""
import math
import numpy as np
from vlib import caseio, gen

ID = "C04"
COQ_TARGETS = ["C04_Extract.vo", "C04_Proofs.vo", "UT_Transport.vo", "C03_Transport.vo", "C04_Transport.vo", "C05_Transport.vo"]
EXTRA_PROPERTIES = ["Transport"]   # Properties_Transport.v: the unscented steps executed at the list instance represent the MathComp instance of the theorems
COQ_PREFIXES = ["C04", "C03", "C01", "C02"]
EXTRACTED = "C04_model"
DRIVER = "drv_C04.ml"
HARNESS = "h_C04.cpp"
VARIANTS = {"quick": ["O1"], "thorough": ["O1", "asan"]}
AXIOMS_ALLOWED = []
REQUIRED_THEOREMS = ["C04_predict_additive", "C04_predict_augmented", "C04_predict_additive_exogenous", "C04_kf_predict_is_C02",
                     "C04_kf_predict_mean_is_C02", "C04_correct_additive", "C04_correct_augmented",
                     "C04_likelihood_additive", "C04_likelihood_augmented", "C04_innovation_cov_invertible",
                     "C04_skip_is_identity", "C04_no_measurement_is_identity", "C04_unusable_measurement_is_identity",
                     "C04_transport_kf_predict",
                     "Transport_oracle_counterpart_exists", "Transport_C03_weights", "Transport_C03_sigma_points", "Transport_C03_ut_generic", "Transport_C03_ut_state", "Transport_C03_ut_additive_state", "Transport_C03_ut_meas", "Transport_C03_ut_additive_meas", "Transport_model_functions_correspond", "Transport_C04_ukf_predict_additive", "Transport_C04_ukf_predict_generic", "Transport_C04_ukf_correct_additive", "Transport_C04_ukf_correct_generic", "Transport_C04_ukf_likelihood", "Transport_C04_Pyy_invertible_linear"]
RULE = ("cases drawn from one seeded stream: kinds predict / correct, additive and generic (noise-input, augmented) constructors, "
        "n in 1..5, m in 1..3 (also m > n), noise inputs q in 1..3, components 1..3, P_i PSD incl. rank-deficient and zero (prediction and correction; SPD ones with chosen "
        "condition number <= 1e4), F random / singular / identity, H random / rank-deficient / zero row / selector / zero, B, D random incl. rank-deficient, "
        "R SPD, alpha in [0.1,2], beta in [0,3], kappa in [0,3]; constant exogenous input on the additive state model, output object of another shape, measurement descriptions that declare noise components, skip flags, missing measurement, failing prediction, each also after an earlier successful correction by the same object; "
        "non-trivial = components >= 2 or generic or rank-deficient H/F or singular P or an early-return path; "
        "distinct by (kind, generic, n, m, q, comps, matrix kind, path)")
TRUSTED_BASE = ["Coq 8.16.1 kernel (coqc); no axioms (Print Assumptions: closed under the global context)",
                "MathComp 1.15 matrix theory",
                "extraction (ExtrOcamlBasic only) and ocaml/float_ops.ml, ocaml/drv_C04.ml (incl. its Jacobi eigen-iteration used as square-root oracle), ocaml/caseio.ml",
                "ListOps list instance of MatOps: proved to compute the MathComp operations on well-formed inputs over any realFieldType, incl. the Gauss-Jordan inverse/determinant on invertible inputs (ListOpsCorrect.v, ListGauss.v); the unscented steps executed at the list instance are proved to represent the MathComp instance the theorems are about (UT_Transport.v, C03_/C04_/C05_Transport.v; the theorems of Properties_Transport.v are obligations of this check), under per-call premises: the list-level and the matrix-level square-root / eigenvector oracles correspond on the matrices actually passed, the model functions map corresponding columns to corresponding columns, and the inverted matrices (the predicted measurement covariances Pyy_i) are invertible at the MathComp instance (derived for linear measurement models with SPD noise: Transport_C04_Pyy_invertible_linear); what remains between executed model and theorem model is IEEE rounding and the oracle correspondence",
                "cpp/h_C04.cpp harness and its linear models; comparison tolerances rtol 1e-7 * cond + 1e-12 * max|weight| (UKF vs KF), 1e-9 * cond + 1e-12 * max|weight| (implementation vs model)",
                "correspondence is sampled: agreement is established on the generated cases only",
                "IEEE rounding is not modelled (theorems over an exact real field)"]
ASSUMPTIONS = ["square-root oracle: P symmetric PSD => A A^T = P (Eigen jacobiSvd; checked on the implementation's sigma points by C03, on the model side here)",
               "sqrt oracle: 0 <= c => sqrt c * sqrt c = c",
               "Eigen inverse()/determinant() behave as matrix inverse/determinant up to rounding",
               "linear measurement description (m linear, no circular components; declared noise components are allowed and irrelevant: the cross-covariance is sliced by predicted_meas_.dim_covariance); quaternion states/measurements are outside C04"]

COUNTS = {"quick": 300, "thorough": 8000}


def ut_params(rng):
    alpha = rng.choice([0.1, 1.0, 2.0, rng.uniform(0.1, 2.0), rng.uniform(0.1, 2.0)])
    beta = rng.choice([0.0, 2.0, rng.uniform(0.0, 3.0)])
    kappa = rng.choice([0.0, 0.0, rng.uniform(0.0, 3.0)])
    return alpha, beta, kappa


def wmag(alpha, beta, kappa, dof):
    c = alpha * alpha * (dof + kappa)
    return max(abs(1 - dof / c) + abs(1 - alpha * alpha + beta), 1 / (2 * c), 1.0)


def rect(rng, r, c):
    kind = rng.choice(["random", "random", "rankdef", "zero"])
    if kind == "random" or min(r, c) < 1:
        return gen.matrix(rng, r, c), "random"
    if kind == "rankdef":
        return gen.matrix(rng, r, 1) @ gen.matrix(rng, 1, c), "rankdef"
    return np.zeros((r, c)), "zero"


def gen_case(rng, k):
    kind = rng.choice(["predict", "correct", "correct"])
    generic = rng.randint(0, 1)
    n = rng.randint(1, 5); comps = rng.randint(1, 3)
    m = rng.randint(1, 3)
    q = rng.randint(1, 3) if generic else 0
    if generic and kind == "correct":
        q = rng.randint(m, 3)      # D (m x q) of full row rank, so that D Rv D^T is SPD for the equivalent Kalman step
    alpha, beta, kappa = ut_params(rng)
    means = gen.matrix(rng, n, comps, 3.0)
    w = np.array([rng.random() + 0.1 for _ in range(comps)]); w = w / w.sum()
    meta = {"kind": kind, "generic": generic, "n": n, "q": q, "comps": comps,
            "alpha": "%.4g" % alpha, "beta": "%.4g" % beta, "kappa": "%.4g" % kappa}
    c = caseio.Case(k, kind, meta)
    c.int("n", n).int("q", q).int("generic", generic).mat("params", np.array([[alpha, beta, kappa]]))
    if kind == "predict":
        covs, sing = [], 0
        for i in range(comps):
            rank = rng.choice([n, n, n, max(0, n - 1), 0])
            covs.append(gen.psd(rng, n, rank)); sing = max(sing, n - rank)
        fk = rng.choice(["random", "random", "singular", "identity"])
        F = gen.matrix(rng, n, n) if fk == "random" else (np.eye(n) if fk == "identity" else gen.matrix(rng, n, 1) @ gen.matrix(rng, 1, n))
        path = rng.choice(["step"] * 8 + ["skip_pred", "skip_state"])
        if generic:
            B, bk = rect(rng, n, q)
            Q = gen.psd(rng, q, rng.choice([q, q, max(0, q - 1)]))
            A = np.hstack([F, B])
        else:
            B, bk = np.zeros((n, 0)), "none"
            Q = gen.psd(rng, n, rng.choice([n, n, max(0, n - 1), 0]))
            A = F
        scale = max(1.0, np.linalg.norm(F, 2) ** 2 * max(np.linalg.norm(P, 2) for P in covs) + np.linalg.norm(Q, 2) * max(1.0, np.linalg.norm(B, 2) ** 2 if B.size else 1.0))
        meta.update({"mkind": fk + "/" + bk, "path": path, "singular": sing, "wmag": "%.4g" % wmag(alpha, beta, kappa, n + q), "cond": "%.3g" % scale})
        c.meta = meta
        exo = (not generic) and rng.random() < 0.4       # constant exogenous input on both state models
        out_shape = rng.choice([0, 0, 1, 2])            # output object of another shape (it is assigned as a whole)
        meta["exo"] = int(exo); meta["out_shape"] = out_shape
        c.int("skip_pred", int(path == "skip_pred")).int("skip_state", int(path == "skip_state")).int("out_shape", out_shape)
        if exo:
            c.mat_shape("exo_c", n, 1, gen.matrix(rng, n, 1, 3.0))
        c.mat_shape("F", n, n, F).mat_shape("B", n, q, B).mat_shape("A", n, n + q, A).mat_shape("Q", Q.shape[0], Q.shape[0], Q)
        c.mat_shape("means", n, comps, means).mat_shape("covs", n, n * comps, np.hstack(covs)).mat_shape("weights", comps, 1, w)
        return c
    covs, cond, sing = [], 1.0, 0
    for i in range(comps):
        pk = rng.choice(["spd", "spd", "spd", "rankdef", "zero"])
        if pk == "spd":
            P, cd = gen.spd(rng, n, 10 ** rng.uniform(0, 4)); cond = max(cond, cd)
        else:
            rank = max(0, n - 1) if pk == "rankdef" else 0      # S = H P H^T + R stays SPD through R
            P = gen.psd(rng, n, rank); sing = max(sing, n - rank)
        covs.append(P)
    H, hk = gen.measurement_matrix(rng, m, n)
    path = rng.choice(["step"] * 10 + ["skip", "no_measurement", "fail"])
    if generic:
        D, dk = gen.matrix(rng, m, q), "random"
        Rv, condR = gen.spd(rng, q, 10 ** rng.uniform(0, 2))
        R = Rv; Reff = D @ Rv @ D.T
        A = np.hstack([H, D])
    else:
        D, dk = np.zeros((m, 0)), "none"
        R, condR = gen.spd(rng, m, 10 ** rng.uniform(0, 3)); Reff = R
        A = H
    condS = max(np.linalg.cond(H @ P @ H.T + Reff) for P in covs)
    y = gen.matrix(rng, m, 1, 5.0)
    old_comps = comps + rng.choice([0, 0, 1])
    old_w = np.array([0.125] * old_comps)
    mnoise = rng.choice([0, 0, 1, 2])      # noise components declared by the measurement description
    meta.update({"m": m, "mkind": hk + "/" + dk, "path": path, "rankH": int(np.linalg.matrix_rank(H)), "singular": sing, "mnoise": mnoise,
                 "wmag": "%.4g" % wmag(alpha, beta, kappa, n + q), "cond": "%.3g" % max(cond, condS, np.linalg.cond(Reff))})
    c.meta = meta
    c.int("mnoise", mnoise)
    c.int("m", m).int("skip", int(path == "skip")).int("have_y", int(path != "no_measurement")).int("fail", int(path == "fail")).int("online", rng.randint(0, 1))
    c.mat_shape("H", m, n, H).mat_shape("D", m, q, D).mat_shape("A", m, n + q, A).mat_shape("R", R.shape[0], R.shape[0], R).mat_shape("y", m, 1, y)
    c.mat_shape("means", n, comps, means).mat_shape("covs", n, n * comps, np.hstack(covs)).mat_shape("weights", comps, 1, w)
    c.mat_shape("old_means", n, old_comps, gen.matrix(rng, n, old_comps, 7.0)).mat_shape("old_covs", n, n * old_comps, gen.matrix(rng, n, n * old_comps, 2.0))
    c.mat_shape("old_weights", old_comps, 1, old_w)
    warm = rng.randint(0, 1)
    c.meta["warm"] = warm
    c.int("warm", warm).mat_shape("y0", m, 1, gen.matrix(rng, m, 1, 5.0))
    return c


def generate(rng, tier):
    return [gen_case(rng, k) for k in range(COUNTS[tier])]


def nontrivial(c):
    m = c.meta
    if int(m["comps"]) >= 2 or int(m["generic"]) or m["path"] != "step" or "rankdef" in m["mkind"] or "zero" in m["mkind"] or "singular" in m["mkind"] or int(m.get("singular", 0)):
        return (m["kind"], m["generic"], m["n"], m.get("m", "-"), m["q"], m["comps"], m["mkind"], m["path"], m.get("warm", "-"), m.get("mnoise", "-"), m.get("exo", "-"), m.get("singular", "-"))
    return None


def tol(c, mag, r=1e-7):
    """rtol * cond (conditioning of the innovation covariance / size of F P F^T + Q) plus the rounding
    amplification of the unscented sums, 1e-12 * max|weight|"""
    return (r * float(c.meta["cond"]) + 1e-12 * float(c.meta["wmag"])) * max(1.0, mag)


def comp_fields(k):
    out = []
    for i in range(k):
        out += ["mean%d" % i, "cov%d" % i]
    return out


def compare(c, impl, model):
    d = caseio.compare_fields(impl, model, ["components"], 0, 0)
    k = impl.get("components")
    if d:
        return d
    for f in comp_fields(k) + ["kf_" + f for f in comp_fields(int(c.meta["comps"]))] + ["weights"]:
        a, b = impl.get(f), model.get(f)
        if a is None or b is None or a.shape != b.shape:
            d.append("%s: missing or shape (impl %s, model %s)" % (f, None if a is None else a.shape, None if b is None else b.shape)); continue
        t = tol(c, float(np.max(np.abs(a))) if a.size else 1.0, 1e-9)
        if not caseio.close(a, b, t, 0):
            d.append("%s: max|impl-model|=%.3g (tol %.3g)" % (f, caseio.maxdiff(a, b), t))
    if c.kind == "correct":
        d += caseio.compare_fields(impl, model, ["lik_valid"], 0, 0)
        if impl.get("lik_valid") == 1 and model.get("lik_valid") == 1:
            if not caseio.close(impl.get("lik"), model.get("lik"), 1e-300, 1e-9 * float(c.meta["cond"]) + 1e-12 * float(c.meta["wmag"])):
                d.append("lik: impl %s model %s" % (impl.get("lik"), model.get("lik")))
        for i in range(int(c.meta["comps"])):
            if not caseio.close(impl.get("kf_lik%d" % i), model.get("kf_lik%d" % i), 1e-300, 1e-9 * float(c.meta["cond"])):
                d.append("kf_lik%d: impl %r model %r" % (i, impl.get("kf_lik%d" % i), model.get("kf_lik%d" % i)))
    return d


def oracle(c, impl, model):
    """UKF output vs KF output of the implementation itself, same inputs."""
    v = []
    m = c.meta
    comps = int(m["comps"]); path = m["path"]
    sig = "C04:%s:%s" % (c.kind, "generic" if int(m["generic"]) else "additive")
    if impl.get("input_unchanged") != 1:
        v.append((sig + ":input-modified", "the input belief was modified"))
    means, covs, n = c.get("means"), c.get("covs"), int(m["n"])
    if path != "step":
        # early-return paths hand back the input belief
        if impl.get("components") != comps:
            v.append((sig + ":%s:component-count" % path, "%s components" % impl.get("components"))); return v
        for i in range(comps):
            if not (np.array_equal(impl.get("mean%d" % i).reshape(-1), means[:, i]) and np.array_equal(impl.get("cov%d" % i), covs[:, i * n:(i + 1) * n])):
                v.append((sig + ":%s:belief-changed" % path, "component %d differs from the input belief" % i)); break
        warm = int(m.get("warm", 0))
        if c.kind == "correct" and path in ("no_measurement", "fail") and impl.get("lik_valid") != 0:
            v.append((sig + ":%s:likelihood-without-correction%s" % (path, ":after-earlier-step" if warm else ""),
                      "a likelihood is reported after a correction that could not use the measurement"))
        if c.kind == "correct" and path == "skip" and impl.get("lik_valid") != warm:
            v.append((sig + ":skip:likelihood-state-touched", "a skipped correction changed what getLikelihood reports (lik_valid %s, earlier step %d)" % (impl.get("lik_valid"), warm)))
        return v
    exp_comps = comps if c.kind == "predict" else c.get("old_means").shape[1]
    if impl.get("components") != exp_comps:
        v.append((sig + ":component-count", "%s components, expected %d" % (impl.get("components"), exp_comps))); return v
    for i in range(comps):
        for f in ("mean%d" % i, "cov%d" % i):
            a, b = impl.get(f), impl.get("kf_" + f)
            if a is None or b is None or a.shape != b.shape:
                v.append((sig + ":missing-output", f)); continue
            t = tol(c, float(np.max(np.abs(b))) if b.size else 1.0)
            if not caseio.close(a, b, t, 0):
                v.append((sig + ":ukf-differs-from-kf:%s:comp%s" % (f.rstrip("0123456789"), "0" if i == 0 else "k"),
                          "component %d: max|ukf-kf| = %.3g (tol %.3g)" % (i, caseio.maxdiff(a, b), t)))
    if c.kind == "predict":
        if impl.get("dim") != n:
            v.append((sig + ":output-shape", "predicted mixture has dimension %s, expected %d" % (impl.get("dim"), n)))
        if not caseio.close(impl.get("weights").reshape(-1), np.full(comps, 1.0 / comps), 1e-15, 0):
            v.append((sig + ":output-weights", "the predicted mixture does not carry the uniform weights of a fresh mixture"))
    else:
        # frame: weights of the output object and components beyond the predicted ones are untouched
        if not np.array_equal(impl.get("weights").reshape(-1), c.get("old_weights").reshape(-1)):
            v.append((sig + ":output-weights-written", "weights of the output object changed"))
        om, oc = c.get("old_means"), c.get("old_covs")
        for i in range(comps, exp_comps):
            if not (np.array_equal(impl.get("mean%d" % i).reshape(-1), om[:, i]) and np.array_equal(impl.get("cov%d" % i), oc[:, i * n:(i + 1) * n])):
                v.append((sig + ":frame", "component %d of the output object (beyond the predicted ones) was written" % i))
        if impl.get("lik_valid") != 1:
            v.append((sig + ":likelihood-missing", "no likelihood after a correction"))
        else:
            lik = impl.get("lik").reshape(-1)
            if len(lik) != comps:
                v.append((sig + ":likelihood-size", "%d entries for %d components" % (len(lik), comps)))
            else:
                for i in range(comps):
                    kl = impl.get("kf_lik%d" % i)
                    if not caseio.close(lik[i], kl, 1e-300, 1e-7 * float(m["cond"]) + 1e-12 * float(m["wmag"])):
                        v.append((sig + ":likelihood-differs-from-kf:comp%s" % ("0" if i == 0 else "k"), "component %d: ukf %r kf %r" % (i, lik[i], kl)))
    if model is not None and model.get("sqrt_residual", 0.0) > 1e-10:
        v.append(("C04:model-sqrt-oracle-contract", "residual %.3g" % model.get("sqrt_residual")))
    return v


def histogram(cases):
    h = {}
    for key in ("kind", "generic", "n", "m", "q", "comps", "path", "mkind", "warm", "mnoise", "exo", "out_shape", "singular"):
        hk = {}
        for c in cases:
            if key in c.meta:
                hk[str(c.meta[key])] = hk.get(str(c.meta[key]), 0) + 1
        h[key] = hk
    return h


LEVEL_TEXT = ("Proof: the unscented prediction and correction models (additive-noise and generic/augmented constructors, slice offsets as in the code, "
              "state kept for the likelihood) are proved, for every real field, dimension, mixture, admissible (alpha, beta, kappa), PSD P_i and the "
              "square-root contract, to return on linear models exactly the Kalman prediction (F m, F P F^T + Q, resp. + B Q B^T) and the Kalman "
              "correction of C01 (mean, covariance, innovation covariance, likelihood; R resp. D R D^T), component by component. Tied to the code by "
              "running the extracted model, UKFPrediction/UKFCorrection and the implementation's own KFPrediction/KFCorrection on the same cases.")
LEVEL_NOTE = ("Trusted: Coq kernel, MathComp, extraction + float driver (with its Jacobi oracle), list instance of the matrix interface, harness and tolerances; "
              "rounding is not modelled; the tie to the code is sampled. Quaternion states/measurements are outside C04 (linear models).")
