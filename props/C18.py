"""C18 — quaternion utilities form a consistent exponential/logarithm pair (DESIGN.md §5 C18)."""
import math
import numpy as np
from vlib import caseio, gen, runner

ID = "C18"
COQ_PREFIXES = ["C18", "C19"]            # C19_ROps.v: the Coq-reals instance of SOps
COQ_TARGETS = ["C18_Extract.vo", "C18_Proofs.vo", "C18_Mean.vo"]
EXTRACTED = "C18_model"
DRIVER = "drv_C18.ml"
HARNESS = "h_C18.cpp"
VARIANTS = {"quick": ["O1"], "thorough": ["O1", "asan"]}
AXIOMS_ALLOWED = runner.REAL_AXIOMS
REQUIRED_THEOREMS = ["C18_exp_unit", "C18_log_exp", "C18_log_exp_error_bound", "C18_true_bound_exceeds_2e_4", "C18_bound_2e_4_refuted", "C18_exp_log",
                     "C18_double_cover", "C18_log_norm_le_pi", "C18_sum_unit", "C18_diff_sum", "C18_left_convention",
                     "C18_exp_log_neg", "C18_exp_log_pm", "C18_right_convention_differs",
                     "C18_mean_negation_invariant", "C18_mean_permutation_invariant", "C18_mean_all_equal",
                     "C18_mean_symmetric_centre_is_eigenvector", "C18_mean_symmetric_gap", "C18_mean_symmetric", "C18_mean_symmetric_partial",
                     "C18_mean_matrix_negation_invariant", "C18_mean_matrix_permutation_invariant", "C18_mean_contract_fixes_rotation",
                     "C18_mean_contract_needs_simplicity", "C18_mean_negation_invariant_rotation", "C18_mean_permutation_invariant_rotation",
                     "C18_mean_all_equal_matrix", "C18_mean_all_equal_spectrum", "C18_mean_all_equal_simple", "C18_mean_all_equal_sum_one",
                     "C18_mean_symmetric_gap_any_central_weight", "C18_mean_symmetric_simple", "C18_mean_symmetric_any_central_weight",
                     "C18_sigma_set_layout", "C18_sigma_angle", "C18_mean_sigma_set", "C18_sigma_margin_sum_one",
                     "C18_mean_symmetric_negative_weight_refuted"]
RULE = ("cases from one seeded stream: conversions on batches of width 0, 1, 2, 3..6, 7..64 of unit quaternions (and, for correspondence only, quaternions of norm "
        "1 +- 1e-12..1e-3, marked outside the property and counted) (uniform on S^3, within 3e-4 rad of the identity densely around both cut-offs at relative distances "
        "1e-16..1e-1.5, within 1e-6 of a half turn incl. real part exactly 0, real part +-1e-17..1e-1 at the hemisphere boundary, the basis quaternions) and rotation "
        "vectors (norm in [0, pi): around the cut-offs 1e-4 and 2 asin(1e-4), pi - 1e-15..1e-2, the largest double below pi, 1e-300..1e-5, zero; and (pi, 2 pi)); "
        "sum/difference round trips with the same flavours; weighted means of 1..201 quaternions (clustered, all +-q, symmetric sets on both sides of the premise "
        "0 < w0 + 2 sum w_j cos|d_j| incl. parallel axes, uniform, two groups a half turn apart with eigen-gaps from 0 to 0.3), positive weights (ratios up to 1e6) and "
        "unscented weights (alpha 1e-3..1, negative central weight), random sign flips and permutations; direction clauses compared when cond = sum|w| / eigen-gap <= 1e8 "
        "(tolerance 1e-9 + 1e-13 cond), otherwise excluded and counted; unit norm and the eigen-solver contract on every mean case; "
        "non-trivial = every case; distinct by (kind, batch, q flavour, r flavour / weight flavour)")
TRUSTED_BASE = ["Coq 8.16.1 kernel (coqc); the four real-number axioms of Coq's Reals",
                "Coq stdlib Reals (sqrt, cos, sin, acos, asin, PI)",
                "extraction (ExtrOcamlBasic only) and ocaml/float_ops.ml (libm), ocaml/drv_C18.ml (incl. a Jacobi eigen-iteration as the eigen-solver oracle of the executable model), ocaml/caseio.ml",
                "cpp/h_C18.cpp harness (every template instantiated with MatrixXd, Block and Ref<const MatrixXd> arguments, results required bit-identical); tolerance 1e-9 outside the cut-off zones, 2e-4 + 1e-9 inside, 1e-9 + 1e-13 * (sum_i |w_i|) / eigen-gap for means (N / 20 times that for more than 20 inputs)",
                "correspondence is sampled: agreement is established on the generated cases only",
                "IEEE rounding is not modelled (theorems over R)"]
ASSUMPTIONS = ["eigen-solver contract (premise of the mean theorems, checked on every mean case for Eigen::SelfAdjointEigenSolver and for the driver's Jacobi iteration): "
               "returns a unit eigenvector of the largest eigenvalue of the symmetric matrix sum_i w_i q_i q_i^T",
               "Eigen::Quaternion product is the Hamilton product, conjugate() negates the vector part (checked through the model on every case)"]

COUNTS = {"quick": 1500, "thorough": 30000}
PI = math.pi
CUT = 1e-4
ZONE = 2e-4 + 1e-9          # run-time bound inside the cut-off zone (the proved bound is 2 asin(1e-4) = 2e-4 + 3.4e-13)
STATS = {"error_above_2e-4_within_true_bound": 0, "near_cutoff_skipped": 0, "half_turn_antipodal": 0, "contract_checks": 0,
         "small_gap_excluded": 0,                 # mean cases with cond = sum|w| / eigen-gap above COND_MAX: direction clauses not compared (counted per case)
         "symmetric_premise_holds": 0,            # symmetric sets inside the premise of C18_mean_symmetric_any_central_weight: centre demanded
         "symmetric_outside_premise_dominant": 0, # outside it, centre numerically dominant: centre demanded (C18_mean_symmetric_partial)
         "symmetric_outside_premise_not_dominant": 0,   # outside it, centre NOT dominant (C18_mean_symmetric_negative_weight_refuted): only contract / invariances
         "offunit_outside_property": 0}
COND_MAX = 1e8              # cond = sum_i |w_i| |q_i|^2 / eigen-gap above which the tolerance 1e-9 + 1e-13 * cond says too little about the direction


# ------------------------------------------------------------------ numpy spec helpers (columns)

def qmul(a, b):
    aw, ax, ay, az = a; bw, bx, by, bz = b
    return np.array([aw * bw - ax * bx - ay * by - az * bz,
                     aw * bx + ax * bw + ay * bz - az * by,
                     aw * by + ay * bw + az * bx - ax * bz,
                     aw * bz + az * bw + ax * by - ay * bx])


def qconj(q):
    return np.array([q[0], -q[1], -q[2], -q[3]])


def qexp_exact(r):
    """exp(r/2) without the cut-off."""
    n = np.linalg.norm(r)
    if n == 0.0:
        return np.array([1.0, 0.0, 0.0, 0.0])
    return np.concatenate([[math.cos(n / 2)], math.sin(n / 2) * np.asarray(r) / n])


def rand_unit(rng, k):
    v = np.array([rng.gauss(0, 1) for _ in range(k)])
    return v / np.linalg.norm(v)


def up_to_sign(a, b):
    return min(np.max(np.abs(a - b)), np.max(np.abs(a + b)))


# ------------------------------------------------------------------ generators

def gen_angle_near_cutoffs(rng):
    """rotation angle in [0, 3e-4], dense around 1e-4 (exp cut-off) and 2e-4 (log cut-off: sin(angle/2) = 1e-4)."""
    ch = rng.random()
    if ch < 0.3:
        return rng.uniform(0.0, 3e-4)
    base = 1e-4 if ch < 0.65 else 2.0 * math.asin(1e-4)
    # relative distance to the threshold: mostly 1e-11.5 .. 1e-1.5 (decided, compared), sometimes within the 1e-12 band that is excluded and counted
    e = rng.uniform(-16, -12) if rng.random() < 0.12 else rng.uniform(-11.5, -1.5)
    return base * (1.0 + rng.choice([-1, 1]) * 10 ** e)


def gen_quat(rng, flavour):
    if flavour == "uniform":
        return rand_unit(rng, 4)
    if flavour == "near_identity":
        q = qexp_exact(gen_angle_near_cutoffs(rng) * rand_unit(rng, 3))
        return q * rng.choice([1.0, -1.0])
    if flavour == "half_turn":
        u = rand_unit(rng, 3)
        if rng.random() < 0.25:
            q = np.concatenate([[0.0], u])               # real part exactly 0
        else:
            ang = PI - rng.uniform(0.0, 1e-6) if rng.random() < 0.7 else PI + rng.uniform(0.0, 1e-6)
            q = np.concatenate([[math.cos(ang / 2)], math.sin(ang / 2) * u])
        return q * rng.choice([1.0, -1.0])
    if flavour == "w_boundary":
        # the w = 0 boundary between the two hemispheres of the double cover: |w| over 16 orders of magnitude, both signs
        w = rng.choice([1.0, -1.0]) * 10 ** rng.uniform(-17, -1)
        q = np.concatenate([[w], math.sqrt(1.0 - w * w) * rand_unit(rng, 3)])
        return q * rng.choice([1.0, -1.0])
    if flavour == "axis":
        q = np.zeros(4); q[rng.randint(0, 3)] = rng.choice([1.0, -1.0])
        return q
    raise ValueError(flavour)


def gen_rv(rng, flavour):
    u = rand_unit(rng, 3)
    if flavour == "uniform":
        return u * rng.uniform(3e-4, PI - 1e-3)
    if flavour == "near_cutoff":
        return u * gen_angle_near_cutoffs(rng)
    if flavour == "near_pi":
        if rng.random() < 0.1:
            return u * math.nextafter(PI, 0.0)            # the largest double below pi
        return u * (PI - 10 ** rng.uniform(-15, -2))
    if flavour == "tiny":
        return u * 10 ** rng.uniform(-300, -5)          # far below the cut-off (squares underflow at the low end)
    if flavour == "zero":
        return np.zeros(3)
    if flavour == "beyond_pi":
        return u * rng.uniform(PI + 1e-3, 2 * PI - 1e-2)
    raise ValueError(flavour)


QF = ["uniform", "uniform", "near_identity", "near_identity", "half_turn", "w_boundary", "w_boundary", "axis"]
RF = ["uniform", "uniform", "near_cutoff", "near_cutoff", "near_cutoff", "near_pi", "near_pi", "tiny", "zero", "beyond_pi"]


def stack(cols, rows):
    return np.stack(cols, axis=1) if cols else np.zeros((rows, 0))


def off_unit(rng, q):
    """norm 1 +- 1e-12 .. 1e-3: outside the property (unit quaternions); compared with the model only (marked offunit, counted)."""
    return q * (1.0 + rng.choice([-1.0, 1.0]) * 10 ** rng.uniform(-12, -3))


def width(rng):
    """batch widths: empty, 1, 2, small, wide"""
    u = rng.random()
    if u < 0.05:
        return 0
    if u < 0.25:
        return 1
    if u < 0.45:
        return 2
    if u < 0.88:
        return rng.randint(3, 6)
    return rng.randint(7, 64)


def gen_conv(rng, k):
    nq, nr = width(rng), width(rng)
    qf, rf = rng.choice(QF), rng.choice(RF)
    offunit = rng.random() < 0.1
    q = stack([off_unit(rng, gen_quat(rng, qf)) if offunit else gen_quat(rng, qf) for _ in range(nq)], 4)
    r = stack([gen_rv(rng, rf) for _ in range(nr)], 3)
    c = caseio.Case(k, "conv", {"batch": max(nq, nr), "qf": qf, "rf": rf, "offunit": int(offunit)})
    return c.mat_shape("q", 4, nq, q).mat_shape("r", 3, nr, r)


def gen_sumdiff(rng, k):
    n, m = width(rng), width(rng)
    qf, rf = rng.choice(QF), rng.choice(RF)
    offunit = rng.random() < 0.1
    q0 = gen_quat(rng, qf)
    if offunit:
        q0 = off_unit(rng, q0)
    r = stack([gen_rv(rng, rf) for _ in range(n)], 3)
    cols = []
    for _ in range(m):
        ch = rng.random()
        if ch < 0.4:
            cols.append(gen_quat(rng, "uniform"))
        else:   # a known rotation away from q0 (near it, near -q0, near the half turn)
            d = gen_rv(rng, rng.choice(["near_cutoff", "near_pi", "uniform"]))
            cols.append(qmul(qexp_exact(d), q0) * rng.choice([1.0, -1.0]))
    c = caseio.Case(k, "sumdiff", {"batch": max(n, m), "qf": qf, "rf": rf, "offunit": int(offunit)})
    return c.mat("q0", q0.reshape(4, 1)).mat_shape("r", 3, n, r).mat_shape("ql", 4, m, stack(cols, 4))


def unscented_weights(n, alpha, kappa):
    lam = alpha ** 2 * (n + kappa) - n
    w = np.full(2 * n + 1, 1.0 / (2 * (n + lam)))
    w[0] = lam / (n + lam)
    return w, n + lam


def scale_to_target(ws, ms, T):
    """t in [0, pi / max(ms)] with 2 sum_j ws_j (1 - cos(t ms_j)) = T (increasing in t on that range); the largest reachable value if T is above it."""
    f = lambda t: 2.0 * sum(w * (1.0 - math.cos(t * m)) for w, m in zip(ws, ms))
    hi = PI / max(ms) * (1.0 - 1e-9)
    if f(hi) <= T:
        return hi * 0.999
    lo = 0.0
    for _ in range(80):
        mid = 0.5 * (lo + hi)
        lo, hi = (mid, hi) if f(mid) < T else (lo, mid)
    return 0.5 * (lo + hi)


def mean_case(k, flavour, wkind, w, q, qc, rng, extra=None):
    """meta of a mean case from its spectrum.  The accumulated matrix carries a rounding error of the order of eps * scale with
    scale = sum_i |w_i| |q_i|^2 (NOT its norm: a negative central weight of an unscented set cancels against the others), and an eigenvector
    moves by (matrix error) / gap: cond = scale / gap (times N / 20 for wide sets), and the tolerance of every direction clause is 1e-9 + 1e-13 * cond.
    gap_ok = 0 marks the cases excluded from the direction clauses (counted in small_gap_excluded)."""
    N = q.shape[1]
    M = (q * w) @ q.T
    ev, evec = np.linalg.eigh((M + M.T) / 2)
    gap = float(ev[-1] - ev[-2]); scale = float(max(np.abs(ev).max(), np.sum(np.abs(w) * np.sum(q * q, axis=0)), 1e-300))
    cond = scale / max(gap, 1e-300) * max(1.0, N / 20.0)
    gap_ok = cond <= COND_MAX
    dominant_is_centre = gap_ok and up_to_sign(evec[:, -1], qc) < 1e-6 + 1e-13 * cond
    # premise of C18_mean_symmetric_any_central_weight / C18_mean_sigma_set: w0 + sum_{j >= 1} w_j (2 (q_j . qc)^2 - 1) > 0, pair weights > 0
    margin = float(w[0] + sum(w[j] * (2.0 * float(q[:, j] @ qc) ** 2 - 1.0) for j in range(1, N))) if flavour == "symmetric" else 0.0
    flips2 = np.array([rng.choice([1.0, -1.0]) for _ in range(N)])
    perm = list(range(N)); rng.shuffle(perm)
    meta = {"batch": N, "flavour": flavour, "weights": wkind, "cond": "%.3g" % cond, "scale": "%.3g" % scale,
            "centre_dominant": int(dominant_is_centre), "gap_ok": int(gap_ok), "margin": "%.6g" % margin}
    meta.update(extra or {})
    c = caseio.Case(k, "mean", meta)
    c.mat("w", w.reshape(-1, 1)).mat("q", q).mat("q2", q * flips2).mat("w3", w[perm].reshape(-1, 1)).mat("q3", q[:, perm])
    c.mat("qc", qc.reshape(4, 1))
    return c


def gen_mean(rng, k):
    flavour = rng.choice(["cluster", "cluster", "all_equal", "symmetric", "symmetric", "uniform", "antipodal"])
    wkind = rng.choice(["positive", "unscented"])
    qc = gen_quat(rng, rng.choice(["uniform", "uniform", "half_turn", "w_boundary", "axis"]))
    u = rng.random()
    size = "wide" if u < 0.07 else "large" if u < 0.3 else "small"
    if flavour == "antipodal":
        wkind = "positive"
    if flavour == "symmetric" or wkind == "unscented":
        n = rng.randint(15, 100) if size == "wide" else rng.randint(4, 14) if size == "large" else rng.randint(1, 3); N = 2 * n + 1
    else:
        N = rng.randint(31, 200) if size == "wide" else rng.randint(7, 30) if size == "large" else rng.choice([1, 1, 2, 2, 3, 4, 5, 6])
    if wkind == "positive":
        # positive weights summing to one, ratios over several orders of magnitude in a third of the cases
        if rng.random() < 0.33:
            w = np.array([10 ** rng.uniform(-6, 0) for _ in range(N)])
        else:
            w = np.array([rng.random() + 0.05 for _ in range(N)])
        if flavour == "symmetric":
            w[n + 1:] = w[1:n + 1]
        w /= w.sum()
        cfac = 1.0
    else:
        alpha = rng.choice([1.0, 1.0, 0.5, 0.1, 1e-2, 1e-3]); kappa = rng.choice([0.0, 3.0 - n, 1.0])
        w, cfac = unscented_weights(n, alpha, kappa)
    extra = {}
    if flavour == "cluster":
        q = np.stack([qmul(qexp_exact(rand_unit(rng, 3) * rng.uniform(0, 0.5) * math.sqrt(min(cfac, 1.0))), qc) for _ in range(N)], axis=1)
    elif flavour == "all_equal":
        q = np.stack([qc for _ in range(N)], axis=1)
    elif flavour == "symmetric":
        # offsets +-d_j; their overall size is chosen through T = 2 sum_j w_j (1 - cos|d_j|): the premise of C18_mean_sigma_set is T < 1
        # (weights summing to one); both sides of the boundary, and the boundary itself, are generated
        ms = [rng.uniform(0.2, 1.0) for _ in range(n)]
        ch = rng.random()
        T = 10 ** rng.uniform(-8, -0.1) if ch < 0.55 else 1.0 + rng.choice([-1, 1]) * 10 ** rng.uniform(-9, -1) if ch < 0.8 else rng.uniform(1.05, 3.0)
        t = scale_to_target(list(w[1:n + 1]), ms, T)
        ds = [rand_unit(rng, 3) * (t * m) for m in ms]
        if rng.random() < 0.15:
            ds = [ds[0] / np.linalg.norm(ds[0]) * np.linalg.norm(d) * rng.choice([1.0, -1.0]) for d in ds]     # parallel axes: the premise is sharp
        q = np.stack([qc] + [qmul(qexp_exact(d), qc) for d in ds] + [qmul(qexp_exact(-d), qc) for d in ds], axis=1)
        extra["T"] = "%.6g" % T
    elif flavour == "antipodal":
        # two groups of inputs (almost) a half turn apart: as 4-vectors (almost) orthogonal, q1 . q2 = c; with (almost) equal group weights
        # the two largest eigenvalues are W1 (1 +- ...) and the gap is of the order of max(|c|, |W1 - W2|): from far below the tolerance to well above
        b = rand_unit(rng, 4); b -= (b @ qc) * qc; b /= np.linalg.norm(b); b -= (b @ qc) * qc; b /= np.linalg.norm(b)
        c_ = 0.0 if rng.random() < 0.2 else rng.choice([1.0, -1.0]) * 10 ** rng.uniform(-16, -0.5)
        q2 = c_ * qc + math.sqrt(1.0 - c_ * c_) * b
        q2 /= np.linalg.norm(q2)
        idx = [j % 2 for j in range(N)]; rng.shuffle(idx)
        q = np.stack([q2 if i else qc for i in idx], axis=1)
        if N >= 2:
            dW = 0.0 if rng.random() < 0.4 else rng.choice([1.0, -1.0]) * 10 ** rng.uniform(-16, -1)
            g1 = [j for j in range(N) if idx[j]]; g0 = [j for j in range(N) if not idx[j]]
            if g1 and g0:
                w = np.zeros(N)
                w[g0] = (0.5 + dW / 2) / len(g0); w[g1] = (0.5 - dW / 2) / len(g1)
        extra["dot"] = "%.3g" % c_
    else:
        q = np.stack([gen_quat(rng, "uniform") for _ in range(N)], axis=1)
    if rng.random() < 0.06:
        # non-unit inputs: outside the property; model comparison, matrix invariances and the eigen-solver contract only
        q = np.stack([off_unit(rng, q[:, j]) for j in range(N)], axis=1)
        extra["offunit"] = 1
    flips = np.array([rng.choice([1.0, -1.0]) for _ in range(N)])
    q = q * flips                                   # q and -q are the same rotation
    return mean_case(k, flavour, wkind, w, q, qc, rng, extra)


def corpus(k0):
    out = []
    I = np.array([1.0, 0, 0, 0]); X = np.array([0, 1.0, 0, 0]); Y = np.array([0, 0, 1.0, 0]); Z = np.array([0, 0, 0, 1.0])
    c = caseio.Case(k0, "conv", {"batch": 6, "qf": "axis", "rf": "near_cutoff"})
    h = math.sqrt(0.5)
    c.mat("q", np.stack([I, -I, X, -X, Y, np.array([h, h, 0, 0])], axis=1))
    c.mat("r", np.stack([[1e-4, 0, 0], [1.0000001e-4, 0, 0], [0, 2e-4, 0], [0, 2.00000001e-4, 0], [0, 0, 2e-4 + 1e-13], [0, 0, 0]], axis=1))
    out.append(c)
    c = caseio.Case(k0 + 1, "sumdiff", {"batch": 3, "qf": "axis", "rf": "uniform"})
    c.mat("q0", X.reshape(4, 1)).mat("r", np.array([[1.0, 0, 0], [0, 1.0, 0], [0, 0, 1.0]]).T).mat("ql", np.stack([Y, Z, -X], axis=1))
    out.append(c)
    c = caseio.Case(k0 + 2, "mean", {"batch": 2, "flavour": "all_equal", "weights": "positive", "cond": "1", "scale": "1", "centre_dominant": 1, "gap_ok": 1, "margin": "0"})
    c.mat("w", [[0.5], [0.5]]).mat("q", np.stack([X, -X], axis=1)).mat("q2", np.stack([-X, -X], axis=1)).mat("w3", [[0.5], [0.5]]).mat("q3", np.stack([-X, X], axis=1))
    c.mat("qc", X.reshape(4, 1))
    out.append(c)
    # the witness of C18_mean_symmetric_negative_weight_refuted replayed on the library: unscented weights (-1, 1, 1) of n = 1, n + lambda = 1/2,
    # offsets +-2 atan(3/4) around the identity; M = diag(7/25, 18/25, 0, 0): the mean must be +-i, NOT the centre
    rng0 = __import__("random").Random(18)
    c = mean_case(k0 + 3, "symmetric", "unscented", np.array([-1.0, 1.0, 1.0]),
                  np.stack([I, np.array([0.8, 0.6, 0, 0]), np.array([0.8, -0.6, 0, 0])], axis=1), I, rng0, {"witness": "negative-weight-refuted"})
    c.mat("expect", X.reshape(4, 1))
    out.append(c)
    # inside the premise with a negative central weight (the Example of Properties_C18.v): weights (-3, 2, 2), offsets (35/37, +-12/37, 0, 0)
    c = mean_case(k0 + 4, "symmetric", "unscented", np.array([-3.0, 2.0, 2.0]),
                  np.stack([I, np.array([35 / 37, 12 / 37, 0, 0]), np.array([35 / 37, -12 / 37, 0, 0])], axis=1), I, rng0, {"witness": "negative-weight-premise"})
    out.append(c)
    # the four basis quaternions with equal weights (C18_mean_contract_needs_simplicity): M = I / 4, every unit vector meets the contract
    c = mean_case(k0 + 5, "uniform", "positive", np.full(4, 0.25), np.stack([I, X, Y, Z], axis=1), I, rng0, {"witness": "no-simple-top"})
    out.append(c)
    # exact tie, as in test_QuaternionUtils: weights (1/2, -1/2) on two equal quaternions give the zero matrix; SelfAdjointEigenSolver + first index
    # attaining the maximum returns (1, 0, 0, 0), and so does the driver's oracle (outside the property: the weights do not sum to one)
    h2 = math.sqrt(0.5)
    c = mean_case(k0 + 6, "all_equal", "positive", np.array([0.5, -0.5]), np.stack([np.array([h2, h2, 0, 0])] * 2, axis=1), I, rng0, {"witness": "zero-matrix", "offunit": 1})
    c.mat("expect", I.reshape(4, 1))
    out.append(c)
    # regression witnesses of the defect fixed by /repo commit "fix: mean_quaternion uses the self-adjoint eigen solver" (found by this check):
    # two unit quaternions a half turn apart (orthogonal 4-vectors), weights 1/2, 1/2: the general EigenSolver returned the repeated eigenvalue 1/2
    # as a complex pair 1/2 +- 2.3e-16 i and the real part of its complex eigenvector, of norm 0.459, was returned as the mean
    qa = np.array([-0.28317365589936871, 0.77415786832255196, -0.40872377032994917, -0.39171055013381961])
    qb = np.array([-0.80074488783379705, -0.41518357474905154, -0.39616912868540066, 0.17169812271335169])
    out.append(mean_case(k0 + 7, "antipodal", "positive", np.array([0.5, 0.5]), np.stack([qa, qb], axis=1), qa, rng0, {"witness": "complex-pair"}))
    # same class, weights 1/2 - 5.9e-14, 1/2 - 6.6e-15: the general solver did not converge (info() == NoConvergence, not looked at) and
    # the uninitialised eigenvector storage (0, 0, 0, 0) was returned
    qa = np.array([-0.098952333731529896, -0.64480923314834182, 0.44467533417206556, -0.61375348119150652])
    qb = np.array([0.8799194445645675, 0.075387042981935326, -0.24609689699310094, -0.39936810353105334])
    out.append(mean_case(k0 + 8, "antipodal", "positive", np.array([0.49999999999994088, 0.49999999999999339]), np.stack([qa, qb], axis=1), qa, rng0, {"witness": "no-convergence"}))
    return out


def generate(rng, tier):
    for k in STATS:
        STATS[k] = 0
    cases = corpus(0)
    while len(cases) < COUNTS[tier]:
        k = len(cases); u = rng.random()
        cases.append(gen_conv(rng, k) if u < 0.4 else gen_sumdiff(rng, k) if u < 0.7 else gen_mean(rng, k))
    return cases


def nontrivial(c):
    if c.kind == "mean":
        return (c.kind, c.meta["batch"], c.meta["flavour"], c.meta["weights"])
    return (c.kind, c.meta["batch"], c.meta["qf"], c.meta["rf"])


# ------------------------------------------------------------------ comparison

def near_cut(x, rel=1e-12):
    return abs(x - CUT) <= rel * CUT


def cols_to_skip_exp(r):
    """columns of r whose exp/log cut-off decision is within rounding of the threshold."""
    skip = []
    for j in range(r.shape[1]):
        n = float(np.linalg.norm(r[:, j]))
        skip.append(near_cut(n) or near_cut(math.sin(n / 2)) if n < 4 else False)
    return np.array(skip)


def cols_to_skip_log(q):
    return np.array([near_cut(float(np.linalg.norm(q[1:, j]))) for j in range(q.shape[1])])


def cmp_cols(name, a, b, tol, skip, diffs, half_turn_ok=False):
    """half_turn_ok: rotation vectors of norm pi may differ by sign (r and -r are the same half turn; the code's choice
    hinges on the sign of a real part that is 0 up to rounding)."""
    if a is None or b is None:
        diffs.append("%s missing" % name); return
    if a.shape != b.shape:
        diffs.append("%s: shape impl=%s model=%s" % (name, a.shape, b.shape)); return
    for j in range(a.shape[1]):
        if skip is not None and skip[j]:
            STATS["near_cutoff_skipped"] += 1
            continue
        if half_turn_ok and not caseio.close(a[:, j], b[:, j], tol, 0) and abs(np.linalg.norm(a[:, j]) - PI) < 1e-9 \
                and abs(np.linalg.norm(b[:, j]) - PI) < 1e-9 and caseio.close(a[:, j], -b[:, j], 1e-8, 0):
            STATS["half_turn_antipodal"] += 1
            continue
        if not caseio.close(a[:, j], b[:, j], tol, 0):
            diffs.append("%s col %d: impl=%s model=%s" % (name, j, a[:, j], b[:, j])); return


def compare(c, impl, model):
    d = []
    if c.kind == "conv":
        q, r = c.get("q"), c.get("r")
        sq, sr = cols_to_skip_log(q), cols_to_skip_exp(r)
        cmp_cols("log_q", impl.get("log_q"), model.get("log_q"), 1e-9, sq, d, half_turn_ok=True)
        cmp_cols("log_negq", impl.get("log_negq"), model.get("log_negq"), 1e-9, sq, d, half_turn_ok=True)
        # exp(log q) at a half turn (real part 0 up to rounding): +-q are both admissible
        ht = np.abs(q[0, :]) < 1e-9
        e_i, e_m = impl.get("exp_log_q"), model.get("exp_log_q")
        if e_i is not None and e_m is not None and e_i.shape == e_m.shape:
            for j in range(e_i.shape[1]):
                if ht[j] and not sq[j] and not caseio.close(e_i[:, j], e_m[:, j], 1e-9, 0) and caseio.close(e_i[:, j], -e_m[:, j], 1e-9, 0):
                    STATS["half_turn_antipodal"] += 1
                    sq = sq.copy(); sq[j] = True
        cmp_cols("exp_log_q", e_i, e_m, 1e-9, sq, d)
        cmp_cols("exp_r", impl.get("exp_r"), model.get("exp_r"), 1e-9, sr, d)
        cmp_cols("log_exp_r", impl.get("log_exp_r"), model.get("log_exp_r"), 1e-9, sr, d, half_turn_ok=True)
    elif c.kind == "sumdiff":
        r = c.get("r")
        sr = cols_to_skip_exp(r)
        cmp_cols("sum", impl.get("sum"), model.get("sum"), 1e-9, sr, d)
        # the difference takes a logarithm: skip columns whose product is at the log cut-off or at the half-turn sign switch
        for name in ("diff_sum", "diff"):
            a, b = impl.get(name), model.get(name)
            if a is None or b is None or a.shape != b.shape:
                d.append("%s missing or of different shape" % name); continue
            for j in range(a.shape[1]):
                if name == "diff_sum" and sr[j]:
                    STATS["near_cutoff_skipped"] += 1; continue
                if caseio.close(a[:, j], b[:, j], 1e-9, 0):
                    continue
                na, nb = np.linalg.norm(a[:, j]), np.linalg.norm(b[:, j])
                if abs(na - PI) < 1e-6 and abs(nb - PI) < 1e-6 and caseio.close(a[:, j], -b[:, j], 1e-5, 0):
                    STATS["half_turn_antipodal"] += 1; continue     # real part of the product within rounding of 0: r and -r are the same half turn
                if (na == 0.0) != (nb == 0.0) and max(na, nb) < ZONE:
                    STATS["near_cutoff_skipped"] += 1; continue     # product's vector norm within rounding of the cut-off
                d.append("%s col %d: impl=%s model=%s" % (name, j, a[:, j], b[:, j]))
    else:
        tol = 1e-9 + 1e-13 * float(c.meta["cond"])
        gap_ok = int(c.meta.get("gap_ok", 1))
        if not gap_ok:
            STATS["small_gap_excluded"] += 1      # two eigen-solvers may return any direction of the (numerically) degenerate top eigenspace
        for name in ("mean", "mean_neg", "mean_perm"):
            a, b = impl.get(name), model.get(name)
            if a is None or b is None or a.shape != b.shape:
                d.append("%s missing or of different shape" % name); continue
            if (gap_ok or (c.has("expect") and name == "mean")) and up_to_sign(a, b) > (tol if gap_ok else 1e-9):
                d.append("%s: impl=%s model=%s (up to sign, tol %.3g)" % (name, a.ravel(), b.ravel(), tol))
    return d


# ------------------------------------------------------------------ property oracle

def oracle(c, impl, model):
    v = []
    if impl.has("concurrent_equal") and impl.get("concurrent_equal") != 1:
        # "for every unit quaternion q and rotation vector r": the value of a call does not depend on what other threads
        # compute at the same time (two filters in one process)
        v.append(("C18:%s:concurrent-callers-interfere" % c.kind, "a call made while other threads call the same utilities on other data "
                  "returned a result that differs from the same call made alone (hidden shared state)"))
    if c.kind == "conv":
        q, r = c.get("q"), c.get("r")
        lq, lnq, elq, er, ler = (impl.get(n) for n in ("log_q", "log_negq", "exp_log_q", "exp_r", "log_exp_r"))
        if any(x is None for x in (lq, lnq, elq, er, ler)) or lq.shape != (3, q.shape[1]) or er.shape != (4, r.shape[1]) or ler.shape != r.shape or elq.shape != q.shape:
            return [("C18:conv:shape", "missing output or wrong shape")]
        if impl.get("inputs_unchanged") != 1:
            v.append(("C18:conv:inputs-modified", "an argument was modified"))
        if impl.get("via_equal") != 1:
            v.append(("C18:conv:block-or-ref-arguments", "result differs when the arguments are Block expressions / Ref<const MatrixXd>"))
        if int(c.meta.get("offunit", 0)):
            STATS["offunit_outside_property"] += 1
            return v            # non-unit quaternions: outside the property, correspondence only
        for j in range(r.shape[1]):
            n = float(np.linalg.norm(r[:, j]))
            if abs(np.linalg.norm(er[:, j]) - 1.0) > 1e-12:
                v.append(("C18:exp:not-unit", "col %d: |exp r| = %r" % (j, float(np.linalg.norm(er[:, j])))))
            err = float(np.linalg.norm(ler[:, j] - r[:, j]))
            if PI - 1e-12 < n <= PI + 1e-15:
                # within rounding of the half turn the real part of exp r is 0 up to rounding: r and its antipode (the same rotation) are both admissible
                anti = float(np.linalg.norm(ler[:, j] + r[:, j] * (2 * PI - n) / n))
                if min(err, anti) > 1e-9:
                    v.append(("C18:log-exp:not-inverse", "col %d (half turn): |log(exp r) - r| = %.3g for |r| = %.17g" % (j, err, n)))
                elif err > 1e-9:
                    STATS["half_turn_antipodal"] += 1
            if n <= PI - 1e-12:
                in_zone = n <= CUT * (1 + 1e-12) or math.sin(n / 2) <= CUT * (1 + 1e-12)
                if in_zone and 2e-4 < err <= ZONE:
                    STATS["error_above_2e-4_within_true_bound"] += 1      # C18_bound_2e_4_refuted: 2e-4 < |r| <= 2 asin(1e-4)
                if in_zone and err > ZONE:
                    v.append(("C18:log-exp:cutoff-zone-error", "col %d: |log(exp r) - r| = %.3g > 2e-4 + 1e-9 for |r| = %.17g" % (j, err, n)))
                if not in_zone and err > 1e-9:
                    v.append(("C18:log-exp:not-inverse", "col %d: |log(exp r) - r| = %.3g for |r| = %.17g" % (j, err, n)))
            if np.linalg.norm(ler[:, j]) > PI + 1e-12:
                v.append(("C18:log:norm-exceeds-pi", "col %d: |log(exp r)| = %r" % (j, float(np.linalg.norm(ler[:, j])))))
            if n > 3e-4 and n < 2 * PI - 1e-3:
                # same rotation: exp r is +- exp_exact r
                if up_to_sign(er[:, j], qexp_exact(r[:, j])) > 1e-12:
                    v.append(("C18:exp:wrong-rotation", "col %d" % j))
        for j in range(q.shape[1]):
            vn = float(np.linalg.norm(q[1:, j]))
            if np.linalg.norm(lq[:, j]) > PI + 1e-12:
                v.append(("C18:log:norm-exceeds-pi", "col %d: |log q| = %r" % (j, float(np.linalg.norm(lq[:, j])))))
            # q and -q: same rotation vector (real part exactly 0: the two half turns r and -r)
            same = np.max(np.abs(lq[:, j] - lnq[:, j])) <= 1e-9
            anti = q[0, j] == 0.0 and np.max(np.abs(lq[:, j] + lnq[:, j])) <= 1e-9
            if not (same or anti) and not near_cut(vn):
                v.append(("C18:log:double-cover", "col %d: log q = %s, log(-q) = %s" % (j, lq[:, j], lnq[:, j])))
            if near_cut(vn):
                continue
            if vn > CUT:
                e = up_to_sign(elq[:, j], q[:, j])
                if e > 1e-9:
                    v.append(("C18:exp-log:not-inverse", "col %d: exp(log q) = %s for q = %s" % (j, elq[:, j], q[:, j])))
                if elq[0, j] < -1e-9:
                    v.append(("C18:exp-log:negative-real-part", "col %d" % j))
            else:
                if up_to_sign(elq[:, j], q[:, j]) > math.sqrt(2) * CUT + 1e-9:
                    v.append(("C18:exp-log:cutoff-zone-error", "col %d" % j))
        return v

    if c.kind == "sumdiff":
        q0, r, ql = c.get("q0")[:, 0], c.get("r"), c.get("ql")
        s, ds, d = impl.get("sum"), impl.get("diff_sum"), impl.get("diff")
        if s is None or ds is None or d is None or s.shape != (4, r.shape[1]) or ds.shape != r.shape or d.shape != (3, ql.shape[1]):
            return [("C18:sumdiff:shape", "missing output or wrong shape")]
        if impl.get("via_equal") != 1:
            v.append(("C18:sumdiff:block-or-ref-arguments", "result differs when the arguments are Block expressions / Ref<const MatrixXd>"))
        if int(c.meta.get("offunit", 0)):
            STATS["offunit_outside_property"] += 1
            return v            # non-unit quaternions: outside the property, correspondence only
        for j in range(r.shape[1]):
            n = float(np.linalg.norm(r[:, j]))
            if abs(np.linalg.norm(s[:, j]) - 1.0) > 1e-12 * 4:
                v.append(("C18:sum:not-unit", "col %d: |sum| = %r" % (j, float(np.linalg.norm(s[:, j])))))
            in_zone = n <= CUT * (1 + 1e-9) or math.sin(min(n, PI) / 2) <= CUT * (1 + 1e-9)
            # left (global-frame) convention: sum * conj(q0) = exp(r/2)
            e = qmul(s[:, j], qconj(q0))
            want = qexp_exact(r[:, j])
            if up_to_sign(e, want) > (ZONE if in_zone else 1e-9):
                right = up_to_sign(qmul(qconj(q0), s[:, j]), want) <= 1e-9
                v.append(("C18:sum:not-left-convention", "col %d: sum * conj(q) is not exp(r/2)%s" % (j, " (conj(q) * sum is: right convention)" if right else "")))
            err = float(np.linalg.norm(ds[:, j] - r[:, j]))
            if n <= PI - 1e-6:
                if in_zone and err > ZONE:
                    v.append(("C18:diff-sum:cutoff-zone-error", "col %d: |diff(sum(q, r), q) - r| = %.3g" % (j, err)))
                if not in_zone and err > 1e-9:
                    v.append(("C18:diff-sum:not-r", "col %d: |diff(sum(q, r), q) - r| = %.3g for |r| = %.17g" % (j, err, n)))
            elif n <= PI:
                anti = float(np.linalg.norm(ds[:, j] + r[:, j] * (2 * PI - n) / n))
                if min(err, anti) > 1e-9:
                    v.append(("C18:diff-sum:not-r", "col %d (half turn): |diff(sum(q, r), q) - r| = %.3g" % (j, err)))
            if np.linalg.norm(ds[:, j]) > PI + 1e-12:
                v.append(("C18:diff:norm-exceeds-pi", "col %d" % j))
        for j in range(ql.shape[1]):
            nd = float(np.linalg.norm(d[:, j]))
            if nd > PI + 1e-12:
                v.append(("C18:diff:norm-exceeds-pi", "col %d: %r" % (j, nd)))
            # 2 log(ql * conj(q0)): exp(d/2) * q0 is +-ql (up to the cut-off)
            p = qmul(ql[:, j], qconj(q0))
            pv = float(np.linalg.norm(p[1:]))
            if near_cut(pv, 1e-9):
                continue
            back = qmul(qexp_exact(d[:, j]), q0)
            tol = 1e-9 if pv > CUT else math.sqrt(2) * CUT + 1e-9
            if up_to_sign(back, ql[:, j]) > tol:
                right = up_to_sign(qmul(q0, qexp_exact(d[:, j])), ql[:, j]) <= tol
                v.append(("C18:diff:not-left-convention", "col %d: exp(d/2) * q is not +-q_left%s" % (j, " (q * exp(d/2) is: wrong operand order / conjugate)" if right else "")))
        return v

    # ---- mean
    w, q = c.get("w").ravel(), c.get("q")
    m = impl.get("mean")
    if m is None or m.shape != (4, 1):
        return [("C18:mean:shape", "mean is not 4 x 1")]
    m = m.ravel()
    cond, scale = float(c.meta["cond"]), float(c.meta["scale"])
    gap_ok, offunit = int(c.meta.get("gap_ok", 1)), int(c.meta.get("offunit", 0))
    tol = 1e-9 + 1e-13 * cond
    cls = "" if gap_ok else ":degenerate-top-eigenvalue"       # (numerically) repeated largest eigenvalue: inputs a half turn apart with equal weights
    if impl.get("via_equal") != 1:
        v.append(("C18:mean:block-or-ref-arguments", "result differs when the arguments are Block expressions / Ref<const MatrixXd>"))
    for name in ("mean", "mean_neg", "mean_perm"):
        x = impl.get(name)
        if x is None:
            continue
        x = x.ravel()
        if not np.all(np.isfinite(x)):
            return v + [("C18:mean:not-finite" + cls, "%s = %s" % (name, x))]
        # "the weighted quaternion mean is a unit quaternion": for every input, whatever the eigen-gap
        if abs(np.linalg.norm(x) - 1.0) > 1e-9:
            v.append(("C18:mean:not-unit" + cls, "|%s| = %r" % (name, float(np.linalg.norm(x)))))
    if any(sig.startswith("C18:mean:not-unit") for sig, _ in v):
        # a non-unit result is uninitialised / partial solver output: that it also differs between calls is the same failure
        return [x for x in v if not x[0].endswith("concurrent-callers-interfere")]
    M = model.get("outer") if model is not None and model.has("outer") else (q * w) @ q.T
    # run-time check of the eigen-solver contract, on the implementation's result (and on the driver's Jacobi iteration)
    ev = np.linalg.eigvalsh((M + M.T) / 2)
    for who, vec in (("implementation", m), ("model-oracle", model.get("mean").ravel() if model is not None and model.has("mean") else None)):
        if vec is None:
            continue
        STATS["contract_checks"] += 1
        lam = float(vec @ M @ vec)
        if np.max(np.abs(M @ vec - lam * vec)) > 1e-9 * max(1.0, scale) * max(1.0, min(cond, 1e6) * 1e-4) or lam < ev[-1] - 1e-9 * max(1.0, scale):
            v.append(("C18:mean:eigen-contract:%s" % who, "not a unit eigenvector of the largest eigenvalue: residual %.3g, Rayleigh %.6g, lambda_max %.6g" % (float(np.max(np.abs(M @ vec - lam * vec))), lam, ev[-1])))
    if offunit:
        STATS["offunit_outside_property"] += 1
    if c.has("expect") and up_to_sign(m, c.get("expect").ravel()) > (tol if gap_ok else 1e-9):
        v.append(("C18:mean:witness", "mean %s, expected +-%s (%s)" % (m, c.get("expect").ravel(), c.meta.get("witness", ""))))
    if not gap_ok:
        return v            # the direction clauses need a simple largest eigenvalue (C18_mean_contract_fixes_rotation / _needs_simplicity); counted in compare
    # negation / permutation: the matrix is the same (C18_mean_matrix_*_invariant, no unit-norm premise), the top eigenvalue is simple
    for name, sig in (("mean_neg", "negation-changes-mean"), ("mean_perm", "permutation-changes-mean")):
        x = impl.get(name)
        if x is not None and up_to_sign(x.ravel(), m) > tol:
            v.append(("C18:mean:%s" % sig, "%s vs %s" % (x.ravel(), m)))
    if offunit:
        return v            # non-unit inputs: outside the property
    qc = c.get("qc").ravel()
    if c.meta["flavour"] == "all_equal" and up_to_sign(m, qc) > tol:
        v.append(("C18:mean:all-equal", "mean %s for inputs +-%s" % (m, qc)))
    if c.meta["flavour"] == "symmetric":
        margin = float(c.meta.get("margin", 0.0))
        if np.all(w[1:] > 0) and margin > 1e-9 * max(1.0, scale):
            # C18_mean_symmetric_any_central_weight / C18_mean_sigma_set: dominance is a theorem, whatever the sign of the central weight
            STATS["symmetric_premise_holds"] += 1
            demand = True
        elif int(c.meta["centre_dominant"]) == 1:
            STATS["symmetric_outside_premise_dominant"] += 1      # C18_mean_symmetric_partial: the eigen-gap premise holds numerically
            demand = True
        else:
            STATS["symmetric_outside_premise_not_dominant"] += 1
            demand = False
            # The property's literal clause ("equals the common centre of inputs placed symmetrically around it", quantifier
            # incl. unscented weight sets) is FALSE here (C18_mean_symmetric_negative_weight_refuted): with a negative central
            # weight and offsets this wide the centre is not the dominant eigen-direction of sum w_i q_i q_i^T, and the
            # library returns the dominant one.  A genuine (registered) finding, pinned to exactly this input class.
            if w[0] < 0 and np.all(w[1:] > 0) and up_to_sign(m, qc) > tol:
                v.append(("C18:mean:symmetric-centre:negative-central-weight:centre-not-dominant",
                          "mean %s for centre %s (w0 = %.6g, resultant margin %.3g <= 0)" % (m, qc, float(w[0]), margin)))
        if demand and up_to_sign(m, qc) > tol:
            v.append(("C18:mean:symmetric-centre", "mean %s for centre %s (margin %.3g)" % (m, qc, margin)))
    return v


def histogram(cases):
    h = {"kind": {}, "q_flavour": {}, "r_flavour": {}, "mean_flavour": {}, "weights": {}, "batch": {}}
    def bump(k, x):
        h[k][str(x)] = h[k].get(str(x), 0) + 1
    for c in cases:
        bump("kind", c.kind); bump("batch", c.meta["batch"])
        if c.kind == "mean":
            bump("mean_flavour", c.meta["flavour"]); bump("weights", c.meta["weights"])
        else:
            bump("q_flavour", c.meta["qf"]); bump("r_flavour", c.meta["rf"])
    h.update(STATS)
    return h


LEVEL_TEXT = ("Proof: the model of quaternion_to_rotation_vector / rotation_vector_to_quaternion / sum / diff / mean (with the code's 1e-4 cut-offs and sign branch) "
              "is proved over Coq's reals: exp is unit; log(exp r) = r for 2 asin(1e-4) < |r| <= pi and off by at most 2 asin(1e-4) otherwise; exp(log q) = q for unit q "
              "with non-negative real part outside the cut-off (-q for negative real part); q and -q have the same logarithm (opposite half turns when the real part is 0) of norm <= pi; "
              "diff(sum(q, r), q) = log(exp r); left convention pinned. Mean (eigen-solver as an oracle with its contract as premise): the accumulated matrix is invariant under sign "
              "flips and permutations, and two answers meeting the contract are the same rotation (+-v) whenever the largest eigenvalue is simple (premise shown necessary); inputs +-q with "
              "positive total weight: matrix W q q^T, spectrum {W, 0}, W simple and q meets the contract (all derived), mean = +-q; symmetric sets qc, a_j qc, conj(a_j) qc with pair "
              "weights > 0 and a central weight of ANY sign: under 2 sum w_j |vec a_j|^2 < w0 + 2 sum w_j Re(a_j)^2 (for the library's sigma-point layout: 0 < w0 + 2 sum w_j cos|d_j|) the "
              "eigen-gap, simplicity and satisfiability of the contract are derived and the mean is +- the centre; without that premise the clause is refuted for an unscented weight set. "
              "Tied to the code by running the extracted model and the library on the same generated cases.")
LEVEL_NOTE = ("Trusted: Coq kernel + 4 real-number axioms, extraction + float driver (libm, Jacobi iteration as executable eigen-oracle), harness and tolerances; rounding not modelled. "
              "Run-time only (not theorems): that the value mean_quaternion returns is a unit vector and an eigenvector of the largest eigenvalue is the eigen-solver contract — "
              "a premise of the mean theorems, checked on every generated mean case for Eigen::SelfAdjointEigenSolver and for the driver's Jacobi iteration (that SOME vector meets the "
              "contract is proved for inputs +-q and for symmetric sets inside the premise, not for arbitrary inputs: the spectral theorem for symmetric 4 x 4 matrices is not formalised); "
              "behaviour on non-unit quaternions (norm 1 +- 1e-12..1e-3) is compared with the model only. "
              "Partial: C18_mean_symmetric_partial — symmetric sets outside the explicit premise (the premise bounds the spectrum on the complement of the centre by its trace; it is sharp for "
              "one pair or parallel axes, not for offsets in different directions): dominance of the centre is then a premise (eigen-gap), checked numerically per case. "
              "Refuted as stated: the cut-off error bound 2e-4 (true bound 2 asin(1e-4) = 2e-4 + 3.4e-13, C18_bound_2e_4_refuted) and 'equals the common centre' for unscented sets with a "
              "negative central weight and wide offsets (C18_mean_symmetric_negative_weight_refuted, replayed on the library as a corpus case). The tie to the code is sampled.")
