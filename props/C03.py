"""C03 — unscented transform: moments preserved, exact on affine maps (DESIGN.md §5 C03)."""
import math
import numpy as np
from vlib import caseio, gen

ID = "C03"
COQ_TARGETS = ["C03_Extract.vo", "C03_Proofs.vo", "C03_Circular.vo", "C03_Real.vo", "C03_Transport.vo",
               "C03_RFun.vo", "C03_Euler.vo", "C03_Spread.vo", "C03_QuatAlg.vo", "C03_Quat.vo", "C03_QuatEx.vo", "C03_QuatSpread.vo"]
EXTRA_PROPERTIES = ["C03_Real"]   # Properties_C03_Real.v: whole-layout theorems over Coq's reals (Euler rows / quaternion blocks + noise block)
COQ_PREFIXES = ["C03", "C18", "C19", "C02"]
EXTRACTED = "C03_model"
DRIVER = "drv_C03.ml"
HARNESS = "h_C03.cpp"
VARIANTS = {"quick": ["O1", "assert"], "thorough": ["O1", "assert", "asan"]}
# the linear-algebra theorems (MathComp) are closed under the global context; the World-B theorems (C03_circular_row,
# C03_quaternion_block, C03_scalar_helpers_are_C19_C18 and all of Properties_C03_Real.v) are over Coq's reals
AXIOMS_ALLOWED = ["ClassicalDedekindReals.sig_forall_dec", "ClassicalDedekindReals.sig_not_dec",
                  "FunctionalExtensionality.functional_extensionality_dep", "Classical_Prop.classic"]
REQUIRED_THEOREMS = ["C03_weights_sum", "C03_weights_shape", "C03_sigma_moments_linear", "C03_affine_exact", "C03_affine_exact_models",
                     "C03_affine_exact_augmented", "C03_affine_exact_additive", "C03_first_sigma_point_partial",
                     "C03_failure_propagates", "C03_success_propagates", "C03_circular_row", "C03_quaternion_block",
                     "C03_scalar_helpers_are_C19_C18", "C03_transport_weighted_sums", "C03_transport_affine_map",
                     "C03_euler_sigma_moments", "C03_euler_affine_exact", "C03_euler_small_spread_from_covariance",
                     "C03_euler_affine_exact_small_cov", "C03_euler_image_meaning",
                     "C03_quat_affine_exact", "C03_quat_image_meaning", "C03_symmetric_mean_any_central_weight",
                     "C03_quat_spread_from_covariance"]
RULE = ("cases drawn from one seeded stream: kinds weights (n 1..12) and ut with layouts linear / Euler-circular (no-wrap and wrap) / "
        "quaternion, each with or without an appended noise block (augmentWithNoise, 1..3 rows; also applied a second time to the already augmented mixture), components 1..3, dof <= 11, "
        "covariances Q diag(s) Q^T PSD with distinct spectrum incl. rank-deficient and zero, alpha in [0.1,2], beta in [0,3], kappa in [0,3], "
        "all five unscented_transform overloads, affine maps (rectangular, rank-deficient, zero) and quadratic maps x -> A x + b + g o (Gx) o (Gx) (compared with the model only), non-zero means on the noise rows, failing evaluations; "
        "magnitudes: units 2^-20..2^20 of the linear / noise input coordinates and of the linear outputs (covariances over 24 orders), per-coordinate factors 2^-5..2^5 (2^+-7, 2^+-3 when circular rows share the covariance), tolerances relative to the unscaled case times 1 + 1e-4 (max scale / min scale)^2; "
        "intrude = 1 (30 %): every function / model callback first runs a complete transform of the same overload on a twin belief through another function; "
        "non-trivial = components >= 2 or noise block or non-linear layout or singular covariance or failing evaluation; "
        "distinct by (layout class, lin, circ, aug, comps, overload, rank deficit, fail)")
TRUSTED_BASE = ["Coq 8.16.1 kernel (coqc); linear-algebra theorems: no axioms (closed under the global context); C03_circular_row, C03_quaternion_block, C03_scalar_helpers_are_C19_C18 and Properties_C03_Real.v (whole-layout Euler / quaternion theorems at the real matrix instance RF of C03_RFun.v): the four standard axioms of Coq's Reals",
                "MathComp 1.15 matrix theory",
                "extraction (ExtrOcamlBasic only) and ocaml/float_ops.ml, ocaml/drv_C03.ml (incl. its Jacobi eigen-iteration used as square-root / eigenvector oracle), ocaml/caseio.ml",
                "ListOps list instance of MatOps (structural operations, unproved)",
                "cpp/h_C03.cpp harness and its affine models; comparison tolerances 1e-9 * max|weight| * magnitude * (1 + 1e-4 r^2), r the grading of the input units (CALIBRATION)",
                "the matrix instance RF (functions nat -> nat -> R) at which the whole-layout theorems are stated is another instance of the same Gallina model than the list / float instance that is run",
                "correspondence is sampled: agreement is established on the generated cases only",
                "IEEE rounding is not modelled (theorems over an exact real field)"]
ASSUMPTIONS = ["square-root oracle: P symmetric PSD => A A^T = P (Eigen jacobiSvd U sqrt(S); checked on every case on both sides)",
               "sqrt oracle: 0 <= c => sqrt c * sqrt c = c (premise of the moment theorems)",
               "eigenvector oracle for the quaternion mean (Eigen EigenSolver): unit eigenvector of the largest eigenvalue (residual checked on the model side)",
               "per-instance oracle premises of the theorems: sqrt(c)^2 = c and sq P (sq P)^T = P for the covariances of the step (no universally quantified contract)",
               "Euler layouts (C03_euler_affine_exact_small_cov): c P_jj < pi^2 on circular inputs, c (A P A^T)_ii < pi^2 and (A P A^T)_ii < 2 on circular outputs; the half-turn bounds and the positive resultant are derived from these",
               "quaternion layouts (C03_quat_affine_exact): unit mean quaternions; every rotation-vector block of a sigma offset zero or outside the 1e-4 cut-off zone and within a half turn; positive weighted resultant per block; eigen-solver contract (unit eigenvector of the largest eigenvalue) per block — the generator enforces the spreads, the near-cut-off cases are excluded and counted"]

COUNTS = {"quick": 1600, "thorough": 12000}
TWO_PI = 2 * math.pi


# measured worst errors (tools: /tmp calibration over 16000 thorough cases, seeds 1-3 of the widened stream, both sides):
#   ungraded cases (r = 1):  error / (1e-9 wmag mag) <= 4.0e-6 on every compared quantity (sigma covariance, mean, covariance,
#                            cross-covariance): the 1e-9 tolerance has a margin of 2.5e5
#   graded cases (r up to 2^10): error / (1e-9 wmag mag) <= 0.08 at r = 2^10, i.e. 7.6e-17 r^2: the floor 1e-13 r^2 of
#                            grade_factor has a margin of 1.3e3
#   quaternion cases with sigma offsets under a cut-off: error / (exact cut-off bound + tolerance) <= 0.49
CALIBRATION = {"flat_worst_over_tol": 4.0e-6, "graded_worst_over_floor": 7.6e-4, "cutoff_worst_over_bound": 0.49}


# ------------------------------------------------------------------ layout helpers
def dims(lin, circ, quat, noise):
    cw, tw = (4, 3) if quat else (1, 1)
    return lin + circ * cw + noise, lin + circ * tw + noise, lin + circ * tw


def wrap(x):
    return np.arctan2(np.sin(x), np.cos(x))


def qmul(p, q):
    aw, ax, ay, az = p; bw, bx, by, bz = q
    return np.array([aw * bw - ax * bx - ay * by - az * bz, aw * bx + ax * bw + ay * bz - az * by,
                     aw * by + ay * bw + az * bx - ax * bz, aw * bz + az * bw + ax * by - ay * bx])


def qlog2(q):
    """rotation vector 2 log q (no cut-off), short way round"""
    w, v = q[0], q[1:]
    n = np.linalg.norm(v)
    if n < 1e-300:
        return np.zeros(3)
    if w < 0:
        w, v = -w, -v
    return 2.0 * math.atan2(n, w) * v / n


def Lmat(r):
    a, b, c, d = r
    return np.array([[a, -b, -c, -d], [b, a, -d, c], [c, d, a, -b], [d, -c, b, a]])


def Rmat(r):
    a, b, c, d = r
    return np.array([[a, -b, -c, -d], [b, a, d, -c], [c, -d, a, b], [d, c, -b, a]])


def rotmat(r):
    a, v = r[0], np.array(r[1:])
    vx = np.array([[0, -v[2], v[1]], [v[2], 0, -v[0]], [-v[1], v[0], 0]])
    return (a * a - v @ v) * np.eye(3) + 2 * np.outer(v, v) + 2 * a * vx


def tangent_offsets(lay, X, m):
    """offsets of the columns of X from m in the tangent space (noise rows plain)"""
    lin, circ, quat, noise = lay
    d, dc, dx = dims(*lay)
    X = np.asarray(X, float); m = np.asarray(m, float).reshape(-1)
    k = X.shape[1]
    D = np.zeros((dc, k))
    D[:lin] = X[:lin] - m[:lin, None]
    if quat:
        for j in range(circ):
            mq = m[lin + 4 * j: lin + 4 * j + 4]
            mc = np.array([mq[0], -mq[1], -mq[2], -mq[3]])
            for col in range(k):
                D[lin + 3 * j: lin + 3 * j + 3, col] = qlog2(qmul(X[lin + 4 * j: lin + 4 * j + 4, col], mc))
    else:
        D[lin:lin + circ] = wrap(X[lin:lin + circ] - m[lin:lin + circ, None])
    if noise:
        D[dc - noise:] = X[d - noise:] - m[d - noise:, None]
    return D


def vec_diff(lay, a, b):
    """difference of two storage vectors through the relation the property states:
    plain on linear rows, modulo 2 pi on angles, up to sign on quaternions"""
    lin, circ, quat, noise = lay
    a = np.asarray(a, float).reshape(-1); b = np.asarray(b, float).reshape(-1)
    if a.shape != b.shape:
        return math.inf
    if not (np.all(np.isfinite(a)) and np.all(np.isfinite(b))):
        return math.inf
    dif = [0.0]
    dif += list(np.abs(a[:lin] - b[:lin]))
    if quat:
        for j in range(circ):
            qa, qb = a[lin + 4 * j: lin + 4 * j + 4], b[lin + 4 * j: lin + 4 * j + 4]
            dif.append(min(np.max(np.abs(qa - qb)), np.max(np.abs(qa + qb))))
    else:
        dif += list(np.abs(wrap(a[lin:lin + circ] - b[lin:lin + circ])))
    o = lin + circ * (4 if quat else 1)
    dif += list(np.abs(a[o:] - b[o:]))
    return float(max(dif))


# ------------------------------------------------------------------ generation
def psd_distinct(rng, n, rank, top):
    """Q diag(s) Q^T with `rank` distinct positive eigenvalues in (top/1e3, top], the rest exactly zero in the spectrum"""
    if n == 0:
        return np.zeros((0, 0))
    q = gen.orthogonal(rng, n)
    ev = sorted([top * 10 ** (-rng.uniform(0.05, 1.0) * (i + 1) * 3.0 / max(1, rank)) for i in range(rank)], reverse=True)
    if rank > 0 and rng.random() < 0.5:
        ev[0] = top
    ev = np.array(ev + [0.0] * (n - rank))
    a = (q * ev) @ q.T
    return (a + a.T) / 2


def gen_ut(rng, k, tier):
    cls = rng.choice(["linear", "linear", "linear", "euler_nowrap", "euler_wrap", "quat"])
    comps = rng.randint(1, 3)
    q = rng.choice([0, 0, 1, 2, 3])
    q2 = rng.choice([0, 0, 0, 1, 2]) if q > 0 else 0     # a second augmentWithNoise on the already augmented mixture
    q1, q = q, q + q2
    alpha = rng.choice([0.1, 1.0, 2.0, rng.uniform(0.1, 2.0), rng.uniform(0.1, 2.0)])
    beta = rng.choice([0.0, 2.0, rng.uniform(0.0, 3.0)])
    kappa = rng.choice([0.0, 0.0, rng.uniform(0.0, 3.0)])
    fail = 1 if rng.random() < 0.07 else 0
    if cls == "linear":
        lin, circ, quat = rng.randint(1, 6), 0, 0
    elif cls.startswith("euler"):
        lin, circ, quat = rng.randint(0, 3), rng.randint(1, 3), 0
    else:
        lin, circ, quat = rng.randint(0, 2), rng.randint(1, 2), 1
    lay0 = (lin, circ, quat, 0); lay = (lin, circ, quat, q)
    d0, dc0, _ = dims(*lay0); d, dc, dx = dims(*lay)
    c = alpha * alpha * (dc + kappa)
    overload = rng.randint(0, 4)
    if fail:
        overload = rng.choice([0, 3, 4])
    # ---- the affine map in storage coordinates (A, b) and its tangent-space Jacobian J
    if cls in ("linear", "euler_nowrap"):
        if overload == 2:
            p = d                     # the AdditiveStateModel overload allocates state.rows() output rows
        else:
            p = rng.randint(1, 4)
        olay = (p, 0, 0, 0)
        kindA = rng.choice(["random", "random", "rankdef", "zero", "selector"])
        if kindA == "random":
            A = gen.matrix(rng, p, d)
        elif kindA == "rankdef":
            A = gen.matrix(rng, p, 1) @ gen.matrix(rng, 1, d)
        elif kindA == "zero":
            A = np.zeros((p, d))
        else:
            A = np.zeros((p, d))
            for i in range(p):
                A[i, rng.randrange(d)] = 1.0
        b = gen.matrix(rng, p, 1, 2.0)
        J = A.copy()
    elif cls == "euler_wrap":
        if overload == 2:
            olin = lin + q           # p must equal d: the noise rows are carried as linear outputs
        else:
            olin = rng.randint(0, 2)
        olay = (olin, circ, 0, 0)
        p = olin + circ
        A = np.zeros((p, d))
        A[:olin, :lin] = gen.matrix(rng, olin, lin)
        A[:olin, lin + circ:] = gen.matrix(rng, olin, q)
        A[olin:, :lin] = gen.matrix(rng, circ, lin, 0.5)
        A[olin:, lin:lin + circ] = np.eye(circ)
        A[olin:, lin + circ:] = gen.matrix(rng, circ, q, 0.5)
        b = gen.matrix(rng, p, 1, 2.0)
        J = A.copy(); kindA = "wrap"
    else:
        if overload == 2:
            olin = lin + q
        else:
            olin = rng.randint(0, 2)
        olay = (olin, circ, 1, 0)
        p = olin + 4 * circ; pc = olin + 3 * circ
        A = np.zeros((p, d)); J = np.zeros((pc, dc))
        All = gen.matrix(rng, olin, lin); Aln = gen.matrix(rng, olin, q)
        A[:olin, :lin] = All; A[:olin, lin + 4 * circ:] = Aln
        J[:olin, :lin] = All; J[:olin, lin + 3 * circ:] = Aln
        for j in range(circ):
            r = gen.matrix(rng, 4, 1).reshape(-1); r /= np.linalg.norm(r)
            if rng.random() < 0.5:
                A[olin + 4 * j: olin + 4 * j + 4, lin + 4 * j: lin + 4 * j + 4] = Lmat(r)
                J[olin + 3 * j: olin + 3 * j + 3, lin + 3 * j: lin + 3 * j + 3] = rotmat(r)
            else:
                A[olin + 4 * j: olin + 4 * j + 4, lin + 4 * j: lin + 4 * j + 4] = Rmat(r)
                J[olin + 3 * j: olin + 3 * j + 3, lin + 3 * j: lin + 3 * j + 3] = np.eye(3)
        b = np.zeros((p, 1)); b[:olin] = gen.matrix(rng, olin, 1, 2.0)
        kindA = "quat"
    p_, pc, _ = dims(*olay)
    quad = 1 if (cls in ("linear", "euler_nowrap") and not fail and rng.random() < 0.3) else 0
    if quad:
        # non-affine member of the family: x -> A x + b + g o (G x) o (G x); no closed form is asserted for it,
        # implementation and model are compared (the central sigma point is off the mean: wc_0 matters)
        G = gen.matrix(rng, p_, d, 0.5); gq = gen.matrix(rng, p_, 1, 1.0)
    # ---- beliefs
    top = 10 ** rng.uniform(-2, 1)
    lim = 1.0
    covs, means, deficits = [], [], []
    Qaug = psd_distinct(rng, q1, rng.choice([q1, q1, max(0, q1 - 1)]), 10 ** rng.uniform(-2, 0.5)) if q1 else np.zeros((0, 0))
    Qaug2 = psd_distinct(rng, q2, q2, 10 ** rng.uniform(-2, 0.5)) if q2 else np.zeros((0, 0))
    for i in range(comps):
        rank = rng.choice([dc0, dc0, dc0, max(0, dc0 - 1), max(0, dc0 - 2), 0])
        P = psd_distinct(rng, dc0, rank, top * 10 ** rng.uniform(-0.5, 0))
        deficits.append(dc0 - rank)
        covs.append(P)
        m = gen.matrix(rng, d0, 1, 3.0)
        if cls == "euler_nowrap":
            m[lin:lin + circ] = gen.matrix(rng, circ, 1, 0.3).clip(-1, 1)
        elif cls == "euler_wrap":
            for r_ in range(circ):
                m[lin + r_] = rng.choice([rng.uniform(-math.pi, math.pi), math.pi - 1e-3, -math.pi + 1e-3, 3.0, -3.1])
        elif cls == "quat":
            for j in range(circ):
                qv = gen.matrix(rng, 4, 1).reshape(-1); qv /= np.linalg.norm(qv)
                m[lin + 4 * j: lin + 4 * j + 4, 0] = qv
        means.append(m)
    if cls != "linear":
        # spreads: every sigma offset on a circular row (input and output) stays below `lim` rad,
        # and the covariance itself small enough for a positive resultant / dominant mean quaternion
        lam = max([np.linalg.eigvalsh(P).max() if P.size else 0.0 for P in covs] + [np.linalg.eigvalsh(Qaug).max() if q1 else 0.0] + [np.linalg.eigvalsh(Qaug2).max() if q2 else 0.0] + [1e-300])
        rown = max(1.0, float(np.max(np.linalg.norm(J, axis=1))) if J.size else 1.0)
        s = min(1.0, lim * lim / (c * lam * rown * rown), 0.25 / lam)
        covs = [P * s for P in covs]; Qaug = Qaug * s; Qaug2 = Qaug2 * s
    noise_means = gen.matrix(rng, q, comps, 2.0) if (q > 0 and rng.random() < 0.6) else None
    N = psd_distinct(rng, pc, pc, 10 ** rng.uniform(-2, 0))
    wmag = max(abs(1 - dc / c) + abs(1 - alpha * alpha + beta), 1 / (2 * c), 1.0)
    # ---- magnitudes. Units of the linear / noise input coordinates (Ds storage rows, Dt tangent rows) and of the linear
    # output coordinates (Es, Et); angles and quaternions have no unit.  x' = Ds x, y' = Es y: m' = Ds m, P' = Dt P Dt,
    # A' = Es A Ds^-1, b' = Es b, J' = Et J Dt^-1, N' = Et N Et, G' = G Ds^-1, g' = Es g.  All factors are powers of two, so
    # the scaled case is an exact image of the unscaled one and every expected value scales exactly; only the square
    # root (an SVD, backward stable in norm: error ~ eps |P'|) sees the grading r = max Dt / min Dt, see tol_of.
    # "unit": one unit for all input coordinates and one for all outputs (2^-20 .. 2^20, i.e. covariances over 24 orders;
    # +-7 when circular rows, which stay at scale 1, share the covariance); "coord": additionally a factor per coordinate.
    smode = rng.choice(["none", "unit", "unit", "coord", "coord"])
    Ds, Dt, Es, Et = np.ones(d), np.ones(dc), np.ones(p_), np.ones(pc)
    if smode != "none":
        lim_u, lim_c = (20, 5) if cls == "linear" else (7, 3)
        ku, ke = rng.randint(-lim_u, lim_u), rng.randint(-lim_u, lim_u)
        ex = (lambda base: base + rng.randint(-lim_c, lim_c)) if smode == "coord" else (lambda base: base)
        for i in range(lin):
            Ds[i] = Dt[i] = 2.0 ** ex(ku)
        for i in range(q):
            Ds[d - q + i] = Dt[dc - q + i] = 2.0 ** ex(ku)
        for i in range(olay[0]):
            Es[i] = Et[i] = 2.0 ** ex(ke)
        means = [Ds[:d0, None] * m for m in means]
        covs = [Dt[:dc0, None] * P * Dt[None, :dc0] for P in covs]
        if q1:
            Qaug = Dt[dc0:dc0 + q1, None] * Qaug * Dt[None, dc0:dc0 + q1]
        if q2:
            Qaug2 = Dt[dc0 + q1:, None] * Qaug2 * Dt[None, dc0 + q1:]
        if noise_means is not None:
            noise_means = Ds[d - q:, None] * noise_means
        A = Es[:, None] * A / Ds[None, :]; b = Es[:, None] * b
        J = Et[:, None] * J / Dt[None, :]; N = Et[:, None] * N * Et[None, :]
        if quad:
            G = G / Ds[None, :]; gq = Es[:, None] * gq
    lg_r = float(np.log2(np.max(Dt) / np.min(Dt))) if dc else 0.0
    intrude = 1 if rng.random() < 0.3 else 0     # callback re-entrancy: a twin transform runs inside every callback
    meta = {"cls": cls, "lin": lin, "circ": circ, "quat": quat, "aug": q, "aug2": q2, "quad": quad, "nzm": int(noise_means is not None), "comps": comps, "overload": overload, "fail": fail,
            "alpha": "%.4g" % alpha, "beta": "%.4g" % beta, "kappa": "%.4g" % kappa, "kindA": kindA,
            "deficit": max(deficits), "wmag": "%.4g" % wmag, "c": "%.6g" % c, "scal": smode, "lg_r": "%g" % lg_r, "intrude": intrude}
    cs = caseio.Case(k, "ut", meta)
    cs.int("lin", lin).int("circ", circ).int("quat", quat).int("out_lin", olay[0]).int("out_circ", olay[1]).int("out_quat", olay[2])
    cs.int("aug", q1).int("aug2", q2).int("overload", overload).int("fail", fail)
    cs.mat("params", np.array([[alpha, beta, kappa]]))
    cs.mat_shape("means", d0, comps, np.hstack(means)).mat_shape("covs", dc0, dc0 * comps, np.hstack(covs) if dc0 else None)
    cs.mat_shape("Qaug", q1, q1, Qaug).mat_shape("Qaug2", q2, q2, Qaug2).mat_shape("A", p_, d, A).mat_shape("b", p_, 1, b).mat_shape("N", pc, pc, N).mat_shape("J", pc, dc, J)
    if quad:
        cs.mat_shape("G", p_, d, G).mat_shape("g", p_, 1, gq)
    if noise_means is not None:
        cs.mat_shape("noise_means", q, comps, noise_means)
    if smode != "none":
        cs.mat_shape("Ds", d, 1, Ds).mat_shape("Dt", dc, 1, Dt).mat_shape("Es", p_, 1, Es).mat_shape("Et", pc, 1, Et)
    return cs


def generate(rng, tier):
    cases = []
    n_w = 20 if tier == "quick" else 300
    for k in range(n_w):
        n = rng.randint(1, 12)
        alpha = rng.choice([0.1, 1.0, 2.0, rng.uniform(0.1, 2.0)]); beta = rng.choice([0.0, 2.0, rng.uniform(0, 3)]); kappa = rng.choice([0.0, rng.uniform(0, 3)])
        c = caseio.Case(k, "weights", {"cls": "weights", "n": n, "alpha": "%.4g" % alpha, "beta": "%.4g" % beta, "kappa": "%.4g" % kappa})
        c.int("n", n).mat("params", np.array([[alpha, beta, kappa]]))
        cases.append(c)
    for k in range(n_w, COUNTS[tier]):
        cases.append(gen_ut(rng, k, tier))
    return cases


def nontrivial(c):
    m = c.meta
    if c.kind == "weights":
        return None
    if int(m["comps"]) >= 2 or int(m["aug"]) > 0 or m["cls"] != "linear" or int(m["deficit"]) > 0 or int(m["fail"]):
        return (m["cls"], m["lin"], m["circ"], m["aug"], m.get("aug2", "0"), m.get("quad", "0"), m.get("nzm", "0"), m["comps"], m["overload"], m["deficit"], m["fail"])
    return None


# ------------------------------------------------------------------ units
class View:
    """a case seen in other units: the listed matrices replaced, everything else forwarded"""

    def __init__(self, c, over):
        self.c, self.over, self.id, self.kind, self.meta = c, over, c.id, c.kind, c.meta

    def get(self, n):
        return self.over[n] if n in self.over else self.c.get(n)

    def has(self, n):
        return n in self.over or self.c.has(n)


def scales(c):
    if c.kind != "ut" or not c.has("Ds"):
        return None
    return tuple(c.get(n).reshape(-1) for n in ("Ds", "Dt", "Es", "Et"))


def unscaled_case(c):
    """the case in the units it was generated in (all factors are powers of two: exact)"""
    sc = scales(c)
    if sc is None:
        return c
    Ds, Dt, Es, Et = sc
    lay0, lay, olay = layouts(c)
    d0, dc0, _ = dims(*lay0); d, dc, dx = dims(*lay)
    q1 = c.get("aug")
    comps = c.get("means").shape[1]
    o = {"means": c.get("means") / Ds[:d0, None],
         "covs": c.get("covs") / np.tile(Dt[:dc0], comps)[None, :] / Dt[:dc0, None] if dc0 else c.get("covs"),
         "A": c.get("A") * Ds[None, :] / Es[:, None], "b": c.get("b") / Es[:, None],
         "J": c.get("J") * Dt[None, :] / Et[:, None], "N": c.get("N") / Et[:, None] / Et[None, :]}
    if q1:
        o["Qaug"] = c.get("Qaug") / Dt[dc0:dc0 + q1, None] / Dt[None, dc0:dc0 + q1]
    if c.has("aug2") and c.get("aug2"):
        o["Qaug2"] = c.get("Qaug2") / Dt[dc0 + q1:, None] / Dt[None, dc0 + q1:]
    if c.has("noise_means"):
        o["noise_means"] = c.get("noise_means") / Ds[d - lay[3]:, None]
    if c.has("G"):
        o["G"] = c.get("G") * Ds[None, :]; o["g"] = c.get("g") / Es[:, None]
    return View(c, o)


def unscaled_rec(c, rec):
    """an output record of the (scaled) case c expressed in the units the case was generated in"""
    sc = scales(c)
    if sc is None or rec is None:
        return rec
    Ds, Dt, Es, Et = sc
    dx = dims(*layouts(c)[1])[2]
    r = caseio.Record(rec.id, rec.kind)
    r.meta = rec.meta
    r.vals = dict(rec.vals)
    def put(name, f):
        if rec.tag(name) == "mat":
            try:
                r.vals[name] = ("mat", f(rec.get(name)))
            except ValueError:          # a shape the scaling does not fit: left as it is, the shape checks report it
                pass
    put("sp", lambda a: a / Ds[:, None])
    for i in range(int(c.meta["comps"])):
        put("mean%d" % i, lambda a: a / Es[:, None])
        put("cov%d" % i, lambda a: a / Et[:, None] / Et[None, :])
        put("cross%d" % i, lambda a: a / Dt[:dx, None] / Et[None, :])
    return r


def grade_factor(c):
    """The square root of P' = Dt P Dt is computed by an SVD (Eigen's two-sided Jacobi on the implementation side, a
    cyclic Jacobi in the driver): backward stable in norm, |A A^T - P'| <~ 16 eps dc |P'|_max.  Seen in the units of
    the case (divide entry (i, j) by Dt_i Dt_j) this is amplified by at most r^2, r = max Dt / min Dt; everything after
    the square root scales exactly.  Tolerances of 1e-9 (relative to the unscaled magnitudes) therefore carry the
    factor 1 + 1e-4 r^2, i.e. a floor of 1e-13 r^2 (calibrated: see CALIBRATION)."""
    r = 2.0 ** float(c.meta.get("lg_r", 0.0))
    return 1.0 + 1e-4 * r * r


# ------------------------------------------------------------------ shared evaluation
def layouts(c):
    lin, circ, quat, q = c.get("lin"), c.get("circ"), c.get("quat"), c.get("aug") + (c.get("aug2") if c.has("aug2") else 0)
    return (lin, circ, quat, 0), (lin, circ, quat, q), (c.get("out_lin"), c.get("out_circ"), c.get("out_quat"), 0)


def augmented(c):
    """means (d x comps) and list of covariances of the mixture the transform sees"""
    lay0, lay, _ = layouts(c)
    d0, dc0, _ = dims(*lay0); q = lay[3]
    means, covs = c.get("means"), c.get("covs")
    comps = means.shape[1]
    q1 = c.get("aug"); q2 = q - q1
    Qa = c.get("Qaug"); Qb = c.get("Qaug2") if q2 else None
    ms, Ps = [], []
    for i in range(comps):
        P = covs[:, i * dc0:(i + 1) * dc0]
        if q:
            Pa = np.zeros((dc0 + q, dc0 + q)); Pa[:dc0, :dc0] = P; Pa[dc0:dc0 + q1, dc0:dc0 + q1] = Qa
            if q2:
                Pa[dc0 + q1:, dc0 + q1:] = Qb
            nm = c.get("noise_means")[:, i] if c.has("noise_means") else np.zeros(q)
            ms.append(np.concatenate([means[:, i], nm])); Ps.append(Pa)
        else:
            ms.append(means[:, i].copy()); Ps.append(P)
    return ms, Ps


def sigma_moments(c, rec):
    """per component: (first column, weighted tangent mean, tangent covariance) of a record's sigma points"""
    _, lay, _ = layouts(c)
    d, dc, dx = dims(*lay)
    sp, wm, wc = rec.get("sp"), rec.get("wm").reshape(-1), rec.get("wc").reshape(-1)
    ms, Ps = augmented(c)
    base = 2 * dc + 1
    out = []
    for i, m in enumerate(ms):
        X = sp[:, base * i: base * (i + 1)]
        D = tangent_offsets(lay, X, m)
        out.append((X[:, 0], D @ wm, (D * wc) @ D.T, D))
    return out


def tol_of(c, mag=1.0):
    return 1e-9 * float(c.meta.get("wmag", 1.0)) * max(1.0, mag) * grade_factor(c)


def compare(c, impl, model):
    if c.kind == "weights":
        return caseio.compare_fields(impl, model, ["wm", "wc", "c"], atol=1e-13, rtol=1e-13, scale=1.0)
    d = caseio.compare_fields(impl, model, ["wm", "wc", "c"], atol=1e-13, rtol=1e-13, scale=1.0)
    d += caseio.compare_fields(impl, model, ["dof", "valid"], 0, 0)
    impl, model, c = unscaled_rec(c, impl), unscaled_rec(c, model), unscaled_case(c)
    _, lay, olay = layouts(c)
    if impl.get("sp").shape != model.get("sp").shape:
        return d + ["sp: shape impl=%s model=%s" % (impl.get("sp").shape, model.get("sp").shape)]
    # sigma points: the square-root factor is not unique, so they are compared through their moments
    mi, mm = sigma_moments(c, impl), sigma_moments(c, model)
    qt = quat_cutoff_tol(c)
    for i, (a, b) in enumerate(zip(mi, mm)):
        mag = max(1.0, float(np.max(np.abs(a[2]))) if a[2].size else 1.0)
        if vec_diff(lay, a[0], b[0]) > 1e-12 * max(1.0, float(np.max(np.abs(a[0]))) if a[0].size else 1.0):
            d.append("sp: first column of component %d differs" % i)
        if not caseio.close(a[1], b[1], tol_of(c, math.sqrt(mag)) + qt, 0):
            d.append("sp: weighted mean offset of component %d: %.3g" % (i, caseio.maxdiff(a[1], b[1])))
        if not caseio.close(a[2], b[2], tol_of(c, mag) + qt, 0):
            d.append("sp: weighted covariance of component %d: %.3g (tol %.3g)" % (i, caseio.maxdiff(a[2], b[2]), tol_of(c, mag)))
    if impl.get("valid") == 1 and model.get("valid") == 1:
        d += caseio.compare_fields(impl, model, ["components"], 0, 0)
        qtol = quat_cutoff_tol(c)
        for i in range(int(c.meta["comps"])):
            a, b = impl.get("mean%d" % i), model.get("mean%d" % i)
            if a is None or b is None:
                d.append("mean%d missing" % i); continue
            if vec_diff(olay, a, b) > tol_of(c, float(np.max(np.abs(a))) if a.size else 1.0) + qtol:
                d.append("mean%d: differs by %.3g" % (i, vec_diff(olay, a, b)))
            for f in ("cov%d" % i, "cross%d" % i):
                a, b = impl.get(f), model.get(f)
                if a is None or b is None or a.shape != b.shape:
                    d.append("%s: missing or shape" % f); continue
                t = tol_of(c, float(np.max(np.abs(a))) if a.size else 1.0) + qtol
                if not caseio.close(a, b, t, 0):
                    d.append("%s: max|impl-model|=%.3g (tol %.3g)" % (f, caseio.maxdiff(a, b), t))
        wa, wb = impl.get("weights"), model.get("weights")
        if wa.shape != wb.shape or not caseio.close(wa, wb, 1e-15, 0):
            d.append("weights of the output mixture differ")
    return d


NEAR_BOUNDARY = set()      # ids of cases excluded from the quaternion comparisons (this run)
_CUT = {}


def quat_cutoff(c):
    """Quaternion blocks: the code maps rotation vectors with |r| <= 1e-4 to the identity and reads
    quaternions whose vector part is <= 1e-4 (|r| <= 2 asin(1e-4)) as a zero rotation (C18's cut-offs).
    Returns (tol, near): tol = the exact bound on the induced error of a weighted second moment for THIS
    case, from the sigma offsets that fall under a cut-off (usually none: tol = 0); near = True when an
    offset lies within 2 % of a cut-off, where implementation, model and this bound may classify it
    differently: such cases are excluded from the quaternion comparisons and counted."""
    if c.kind != "ut" or int(c.meta["quat"]) == 0:
        return 0.0, False
    if c.id in _CUT:
        return _CUT[c.id]
    _, lay, _ = layouts(c)
    lin, circ = lay[0], lay[1]
    cc = float(c.meta["c"]); wi = 1.0 / (2.0 * cc)
    J = c.get("J")
    jn = max(1.0, float(np.linalg.norm(J, 2)) if J.size else 1.0)
    t1, t2 = 1e-4, 2.0 * math.asin(1e-4)
    tol, near, rmax = 0.0, False, 0.0
    orig = getattr(c, "c", c)                 # the case in the units the implementation sees: ITS factor decides
    sc = scales(orig)
    for P in augmented(orig)[1]:
        lam, V = np.linalg.eigh((P + P.T) / 2)
        cols = V * np.sqrt(cc * np.maximum(lam, 0.0))
        if sc is not None:
            cols = cols / sc[1][:, None]      # back to the units of the comparison (quaternion rows have scale 1)
        for k in range(cols.shape[1]):
            dk = float(np.linalg.norm(cols[:, k]))
            for j in range(circ):
                rn = float(np.linalg.norm(cols[lin + 3 * j: lin + 3 * j + 3, k]))
                for t in (t1, t2):
                    if abs(rn - t) <= 0.02 * t:
                        near = True
                if 0.0 < rn <= t2:
                    tol += 2.0 * wi * (2.0 * rn * dk + rn * rn) * jn * jn
                    rmax = max(rmax, rn)
    _CUT[c.id] = (tol + 2.0 * rmax * jn * 0.0, near)
    _CUT[c.id + ":rmax"] = rmax
    return _CUT[c.id]


def quat_cutoff_tol(c):
    tol, near = quat_cutoff(c)
    if near:
        NEAR_BOUNDARY.add(c.id)
        return math.inf        # comparisons that depend on the classification are not made
    return tol


def quat_rmax(c):
    quat_cutoff(c)
    return _CUT.get(c.id + ":rmax", 0.0)


def oracle(c, impl, model):
    v = []
    wm, wc = impl.get("wm").reshape(-1), impl.get("wc").reshape(-1)
    p = c.get("params").reshape(-1)
    alpha, beta, kappa = p
    n = c.get("n") if c.kind == "weights" else dims(*layouts(c)[1])[1]
    sig = "C03:%s" % c.meta["cls"]
    # ---- weights
    if len(wm) != 2 * n + 1 or len(wc) != 2 * n + 1:
        v.append((sig + ":weights-size", "%d / %d weights for n = %d" % (len(wm), len(wc), n)))
        return v
    wt = 1e-13 * (1 + np.sum(np.abs(wm)))
    if abs(np.sum(wm) - 1.0) > wt:
        v.append((sig + ":weights-do-not-sum-to-one", "sum wm = %.17g (n=%d alpha=%g kappa=%g)" % (np.sum(wm), n, alpha, kappa)))
    cc = alpha * alpha * (n + kappa)
    if abs(impl.get("c") - cc) > 1e-12 * max(1, cc):
        v.append((sig + ":c-not-n-plus-lambda", "c = %r, n + lambda = %r" % (impl.get("c"), cc)))
    if np.max(np.abs(wm[1:] - 1 / (2 * cc))) > 1e-12 / cc or np.max(np.abs(wc[1:] - wm[1:])) > 0:
        v.append((sig + ":non-central-weights", "not 1/(2(n+lambda))"))
    if abs(wc[0] - (wm[0] + 1 - alpha * alpha + beta)) > 1e-12 * (1 + abs(wm[0])):
        v.append((sig + ":central-covariance-weight", "wc0 = %r" % wc[0]))
    if c.kind == "weights":
        return v
    if int(c.meta.get("intrude", 0)) and impl.get("intruder_calls", 0) < 1:
        v.append((sig + ":harness:intruder-never-ran", "intrude=1 but no callback reached the hook"))
    impl, model, c = unscaled_rec(c, impl), unscaled_rec(c, model), unscaled_case(c)
    lay0, lay, olay = layouts(c)
    d, dc, dx = dims(*lay); pdim, pc, _ = dims(*olay)
    comps = int(c.meta["comps"]); fail = int(c.meta["fail"]); overload = int(c.meta["overload"])
    if impl.get("dof") != dc:
        v.append((sig + ":dof", "dof_size %s for a layout with %d degrees of freedom" % (impl.get("dof"), dc)))
    if impl.get("input_unchanged") != 1:
        v.append((sig + ":input-modified", "the input mixture was modified"))
    # ---- sigma points reproduce the moments; first sigma point is the mean
    ms, Ps = augmented(c)
    sp = impl.get("sp")
    if sp.shape != (d, (2 * dc + 1) * comps):
        v.append((sig + ":sigma-shape", "sigma point matrix %s" % (sp.shape,)))
        return v
    qtol = quat_cutoff_tol(c)
    for i, (x0, dm, dcov, D) in enumerate(sigma_moments(c, impl)):
        P = Ps[i]; mag = max(1.0, float(np.max(np.abs(P))) if P.size else 1.0)
        if vec_diff(lay, x0, ms[i]) > 1e-12 * max(1.0, float(np.max(np.abs(ms[i])))):
            v.append((sig + ":first-sigma-point-not-mean", "component %d: off by %.3g" % (i, vec_diff(lay, x0, ms[i]))))
        if np.max(np.abs(dm), initial=0.0) > tol_of(c, math.sqrt(mag)) + qtol:
            v.append((sig + ":sigma-points-do-not-reproduce-mean", "component %d: weighted offset %.3g" % (i, np.max(np.abs(dm)))))
        if not caseio.close(dcov, P, tol_of(c, mag) + qtol, 0):
            v.append((sig + ":sigma-points-do-not-reproduce-covariance", "component %d: max diff %.3g (tol %.3g)" % (i, caseio.maxdiff(dcov, P), tol_of(c, mag) + qtol)))
        # the factor the implementation used: symmetric set and A A^T = P (contract of the square-root oracle)
        Dp, Dn = D[:, 1:dc + 1], D[:, dc + 1:]
        if not caseio.close(Dp, -Dn, 1e-9 * max(1.0, float(np.max(np.abs(Dp), initial=0.0))) + 2.0 * quat_rmax(c) + (0 if qtol < math.inf else math.inf), 0):
            v.append((sig + ":sigma-points-not-symmetric", "component %d: positive and negative branches differ in magnitude by %.3g" % (i, caseio.maxdiff(Dp, -Dn))))
        A = Dp / math.sqrt(cc)
        if not caseio.close(A @ A.T, P, 1e-9 * mag * grade_factor(c) + 2.0 * qtol, 0):
            v.append((sig + ":sqrt-contract", "component %d: |A A^T - P| = %.3g" % (i, caseio.maxdiff(A @ A.T, P))))
    # ---- failure is reported as failure
    if fail:
        if impl.get("valid") != 0:
            v.append((sig + ":failure-reported-as-belief:overload=%d" % overload, "a failed evaluation came back valid"))
        return v
    if impl.get("valid") != 1:
        v.append((sig + ":spurious-failure:overload=%d" % overload, "a successful evaluation came back invalid"))
        return v
    # ---- shape of the output
    if impl.get("components") != comps:
        v.append((sig + ":component-count", "%s components for %d" % (impl.get("components"), comps)))
        return v
    if (impl.get("out_dim_linear"), impl.get("out_dim_circular"), impl.get("out_use_quaternion"), impl.get("out_dim_noise")) != tuple(olay):
        v.append((sig + ":output-layout", "output mixture layout differs from the function's output description"))
    if (impl.get("cross_rows"), impl.get("cross_cols")) != (dx, pc * comps):
        v.append((sig + ":cross-covariance-shape", "%s x %s, expected %d x %d" % (impl.get("cross_rows"), impl.get("cross_cols"), dx, pc * comps)))
        return v
    if not caseio.close(impl.get("weights").reshape(-1), np.full(comps, 1.0 / comps), 1e-15, 0):
        v.append((sig + ":output-weights", "not uniform"))
    # ---- affine closed forms (the quadratic members of the family are compared with the model only)
    if int(c.meta.get("quad", 0)):
        # independent evaluation of the transform definition on the implementation's own sigma points
        # (already checked above), with the weights of the formula: catches a wrong weight vector in the
        # covariance sums, which no affine map can reveal (its central offset is zero)
        A, b, G, g, N = c.get("A"), c.get("b").reshape(-1), c.get("G"), c.get("g").reshape(-1), c.get("N")
        wi_ = 1.0 / (2.0 * cc)
        fwm = np.concatenate([[1.0 - n / cc], np.full(2 * n, wi_)])
        fwc = fwm.copy(); fwc[0] += 1.0 - alpha * alpha + beta
        base = 2 * dc + 1
        tag = ":overload=%d" % overload
        for i in range(comps):
            X = sp[:, base * i: base * (i + 1)]
            U = G @ X
            Y = A @ X + b[:, None] + g[:, None] * U * U
            ybar = Y @ fwm
            Dy = Y - ybar[:, None]
            Dx = (X - ms[i][:, None])[:dx]
            ecov = (Dy * fwc) @ Dy.T + (N if overload in (2, 4) else 0)
            ecross = (Dx * fwc) @ Dy.T
            mag = max(1.0, float(np.max(np.abs(Y))) ** 2)
            t = tol_of(c, mag)
            im, ic, ix = impl.get("mean%d" % i), impl.get("cov%d" % i), impl.get("cross%d" % i)
            if im is None or ic is None or ix is None:
                v.append((sig + ":missing-output" + tag, "component %d" % i)); continue
            if not caseio.close(im.reshape(-1), ybar, t, 0):
                v.append((sig + ":quadratic-map:mean-not-weighted-mean" + tag, "component %d: off by %.3g (tol %.3g)" % (i, caseio.maxdiff(im.reshape(-1), ybar), t)))
            if not caseio.close(ic, ecov, t, 0):
                v.append((sig + ":quadratic-map:covariance-not-D-wc-Dt" + tag, "component %d: max diff %.3g (tol %.3g)" % (i, caseio.maxdiff(ic, ecov), t)))
            if not caseio.close(ix, ecross, t, 0):
                v.append((sig + ":quadratic-map:cross-covariance-not-Dx-wc-Dt" + tag, "component %d: max diff %.3g (tol %.3g)" % (i, caseio.maxdiff(ix, ecross), t)))
        return v + model_contracts(model)
    A, b, J, N = c.get("A"), c.get("b").reshape(-1), c.get("J"), c.get("N")
    additive = overload in (2, 4)
    for i in range(comps):
        m, P = ms[i], Ps[i]
        em = A @ m + b
        if olay[2]:
            for j in range(olay[1]):
                blk = em[olay[0] + 4 * j: olay[0] + 4 * j + 4]
                em[olay[0] + 4 * j: olay[0] + 4 * j + 4] = blk / np.linalg.norm(blk)
        ecov = J @ P @ J.T + (N if additive else 0)
        ecross = (P @ J.T)[:dx]
        mag = max(1.0, float(np.max(np.abs(ecov))) if ecov.size else 1.0, float(np.max(np.abs(em))) ** 2 if em.size else 1.0)
        tag = ":overload=%d" % overload + (":aug" if lay[3] else "")
        im, ic, ix = impl.get("mean%d" % i), impl.get("cov%d" % i), impl.get("cross%d" % i)
        if im is None or ic is None or ix is None:
            v.append((sig + ":missing-output" + tag, "component %d" % i)); continue
        t = tol_of(c, mag) + qtol
        if vec_diff(olay, im, em) > t:
            v.append((sig + ":mean-not-affine-image" + tag, "component %d: off by %.3g (tol %.3g)" % (i, vec_diff(olay, im, em), t)))
        if not caseio.close(ic, ecov, t, 0):
            v.append((sig + ":covariance-not-APAt" + ("+Q" if additive else "") + tag, "component %d: max diff %.3g (tol %.3g)" % (i, caseio.maxdiff(ic, ecov), t)))
        if not caseio.close(ix, ecross, t, 0):
            v.append((sig + ":cross-covariance-not-PAt" + tag, "component %d: max diff %.3g (tol %.3g)" % (i, caseio.maxdiff(ix, ecross), t)))
    return v + model_contracts(model)


def model_contracts(model):
    """contracts of the model-side oracles"""
    v = []
    if model is not None:
        if model.get("sqrt_residual", 0.0) > 1e-10:
            v.append(("C03:model-sqrt-oracle-contract", "residual %.3g" % model.get("sqrt_residual")))
        if model.get("eig_residual", 0.0) > 1e-10:
            v.append(("C03:model-eig-oracle-contract", "residual %.3g" % model.get("eig_residual")))
    return v


def histogram(cases):
    h = {}
    for key in ("cls", "overload", "aug", "aug2", "quad", "nzm", "comps", "fail", "deficit", "kindA", "scal", "lg_r", "intrude"):
        hk = {}
        for c in cases:
            if key in c.meta:
                hk[str(c.meta[key])] = hk.get(str(c.meta[key]), 0) + 1
        h[key] = hk
    # every layout class with a noise block carrying non-zero noise means, and with each kind of scaling
    h["cls_x_nonzero_noise_mean"] = {}
    h["cls_x_scal"] = {}
    for c in cases:
        if c.kind == "ut":
            if int(c.meta.get("aug", 0)) > 0 and int(c.meta.get("nzm", 0)):
                k = str(c.meta["cls"]); h["cls_x_nonzero_noise_mean"][k] = h["cls_x_nonzero_noise_mean"].get(k, 0) + 1
            k = "%s:%s" % (c.meta["cls"], c.meta.get("scal", "none")); h["cls_x_scal"][k] = h["cls_x_scal"].get(k, 0) + 1
    h["near_boundary_skipped"] = len(NEAR_BOUNDARY)
    return h


LEVEL_TEXT = ("Proof: for the linear layout with or without an appended noise block the unscented-transform model (weights, sigma points from the "
              "SVD square-root oracle, weighted mean / covariance / cross-covariance, all overloads) is proved, for every real field, dimension, "
              "mixture size, PSD covariance incl. singular and every (alpha, beta, kappa) with n + lambda > 0, to have weights summing to one, sigma "
              "points reproducing mean and covariance with the first one equal to the mean, and to map affine functions to mean A m + b, covariance "
              "A P A^T (+Q), cross-covariance P A^T (augmented: A P A^T + B Q B^T, P A^T); a failed evaluation yields no belief. For layouts with "
              "Euler-angle rows or quaternion blocks (with or without noise rows) the same statements are proved over Coq's reals for whole mixtures and "
              "all overloads: moments preserved in the tangent chart, mean modulo 2 pi / up to the sign of the quaternion, covariance J P J^T, "
              "cross-covariance P J^T, under explicit smallness premises (derived from covariance bounds for Euler rows; stated on the factor, with the "
              "cut-off zone excluded and the eigen-solver contract as a premise, for quaternion blocks).")
LEVEL_NOTE = ("Trusted: Coq kernel, MathComp, extraction + float driver (with its Jacobi oracle), list instance of the matrix interface, harness and tolerances; "
              "rounding is not modelled; the tie to the code is sampled. Oracle contracts (A A^T = P, sqrt c ^2 = c) are premises, checked at run time.")
