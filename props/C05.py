"""C05 — serial UKF correction equals the standard additive UKF correction (DESIGN.md §5 C05)."""
import math
import re
import numpy as np
from vlib import caseio, gen

ID = "C05"
COQ_TARGETS = ["C05_Extract.vo", "UT_Transport.vo", "C03_Transport.vo", "C04_Transport.vo", "C05_Transport.vo"]
EXTRA_PROPERTIES = ["Transport"]   # Properties_Transport.v: the unscented steps executed at the list instance represent the MathComp instance of the theorems
EXTRACTED = "C05_model"
DRIVER = "drv_C05.ml"
HARNESS = "h_C05.cpp"
VARIANTS = {"quick": ["O1"], "thorough": ["O1", "asan"]}
MODEL_NEEDS_IMPL = True      # the model's square-root oracle is the SVD factor the implementation computed
AXIOMS_ALLOWED = []          # MathComp only: closed under the global context
REQUIRED_THEOREMS = ["C05_block_sum", "C05_serial_cov_identity", "C05_push_through", "C05_sigma_cov", "C05_linear_roundtrip", "C05_cov", "C05_mean",
                     "C05_likelihood", "C05_Cinv_invertible", "C05_sukf_log_argument_positive", "C05_ukf_log_argument_positive",
                     "C05_Pyy_invertible", "C05_step_equals_ukf",
                     "C05_reduced_eq_full", "C05_reduced_eq_full_likelihood", "C05_size_mismatch_identity",
                     "Transport_oracle_counterpart_exists", "Transport_C05_weights", "Transport_C05_sukf_correct", "Transport_C05_sukf_likelihood", "Transport_C05_ukf_correct", "Transport_C05_ukf_likelihood", "Transport_C05_sukf_step_spd"]
RULE = ("cases drawn from one seeded stream: state size n in 1..5, sub-measurement size s in 1..3, k in 1..4 blocks "
        "(meas = k*s), 15% of the cases with a measurement size that is NOT a multiple of s, components 1..3, "
        "h from a 3-member family (affine; affine + g sin(Gx); affine + g (Gx)(G2x)) with random coefficients, "
        "(alpha, beta, kappa) with c > 0 and wc_0 >= 0 (some with wc_0 ~ 0), P_i SPD with condition number <= 1e4 "
        "(10% exactly rank deficient PSD), noise blocks SPD: half of the cases with equal blocks (then both the reduced and "
        "the full constructor are run) and half with k different blocks (full constructor); output object pre-filled with "
        "unrelated content; non-trivial = k >= 2 or components >= 2 or h non-linear or size mismatch; "
        "distinct by (n, s, k, comps, h kind, equal blocks, multiple, rank deficient, variant, circular rows). "
        "VARIANTS of the single-call cases: Euler angles in the state (10%, trailing 1..n rows, means in (-pi, pi), perturbations < pi: SUKF = UKF expected); "
        "circular (Euler) measurement description (6%, trailing 1..m rows: both corrections use directional_mean / directional_sub: SUKF = UKF expected); wc_0 = 0 exactly (3%); wc_0 < 0 (3%, correspondence only); full-mode R with non-zero off-block "
        "entries (4%, outside the premise 'block diagonal': correspondence only, the SUKF reads the diagonal blocks only); ill-conditioned noise "
        "blocks (6%, cond 1e5..1e8); measurement smaller than one block (m < s, a quarter of the size mismatches); output object with MORE components "
        "than the belief (8%: the extra components must be kept bit for bit); output object with FEWER components (a handful, run only where Eigen's "
        "assertions are compiled in: the out-of-bounds write must be stopped by the assertion). "
        "SEQUENCE cases (400 quick / 4000 thorough): ONE SUKFCorrection object per constructor flag and ONE UKFCorrection object are "
        "driven through 2..4 correct()+getLikelihood() calls; between calls the harness measurement model is re-programmed and the belief "
        "replaced: nothing / R (same size, other blocks) / y / h / prior / number of components / measurement size (other k) / everything / "
        "a size that is not a multiple of s; after EVERY call the implementation is compared with the stateless model run on that call's "
        "inputs and SUKF with UKF (signatures carry step=<t>:<what changed before that call>); all sequence cases are non-trivial, "
        "distinct by (n, s, change labels, equal blocks, k per call, lifetime). "
        "OBJECT LIFETIME (every case, single and sequence; the SUKFCorrection objects of both constructor flags AND the UKFCorrection they are compared with): "
        "55% fresh (constructed in place), 15% moved (the subject is move-constructed from a fresh object), 15% moved_after_use (move-constructed from an object "
        "that has completed 1..T-1 correct()+getLikelihood() calls: the sequence's own calls, or in a single-call case a warm-up call on other data of the same shapes), "
        "15% vector (the subject is element 0 of a std::vector that reallocates through emplace_back after 0..T-1 calls); move ASSIGNMENT is used instead of "
        "move construction for half of the moved cases when the class offers it (compile-time dispatch; neither class does today: move_assignable = 0). "
        "CALLBACK RE-ENTRANCY (25% of all cases): inside every callback of the subjects' measurement models twin objects (SUKFCorrection per flag, UKFCorrection; "
        "own models, other data of the same shapes) run a complete correct()+getLikelihood(); expected results unchanged. "
        "PHYSICAL UNITS: 40% of the steps with the state in a unit L = 10^U(-5,4) (means L, P L^2, H / L, G / L), 60% with the sub-measurement blocks in units "
        "e_j = 10^U(-3,3) (y, b, g, rows of H by e_j, R_j by e_j^2; one common e when the blocks are equal so that the reduced constructor can be run, independent "
        "e_j per block otherwise: spans up to 10^6 between blocks of one measurement); not for angle rows; in sequences the units are re-drawn when the parts they "
        "belong to are replaced. Tolerances are carried by the same factors (conditioning measured on the de-scaled innovation covariance).")
TRUSTED_BASE = ["Coq 8.16.1 kernel (coqc); no axioms (Print Assumptions: closed under the global context)",
                "MathComp 1.15 matrix theory",
                "extraction (ExtrOcamlBasic only) and ocaml/float_ops.ml, ocaml/drv_C05.ml, ocaml/caseio.ml",
                "ListOps list instance of MatOps: proved to compute the MathComp operations on well-formed inputs over any realFieldType, incl. the Gauss-Jordan inverse/determinant on invertible inputs (ListOpsCorrect.v, ListGauss.v); the unscented steps executed at the list instance are proved to represent the MathComp instance the theorems are about (UT_Transport.v, C03_/C04_/C05_Transport.v; the theorems of Properties_Transport.v are obligations of this check), under per-call premises: the list-level and the matrix-level square-root / eigenvector oracles correspond on the matrices actually passed, the model functions map corresponding columns to corresponding columns, and the inverted matrices (the noise blocks, I + Y^T R^-1 Y, Pyy, and everything the UVR density inverts) are invertible at the MathComp instance (derived for k blocks of size s > 0 with SPD noise blocks: Transport_C05_sukf_step_spd); what remains between executed model and theorem model is IEEE rounding and the oracle correspondence",
                "cpp/h_C05.cpp harness (its AdditiveMeasurementModel computing the h family), tolerances per component: covariance 5e-12 * K_i * max|P_i|, "
                "mean 5e-11 * K_i * |mean shift|, K_i = cond(I + Y_i^T R^-1 Y_i) + max_j cond(R_j) for the serial form, cond(Pyy_i) for the gain form, their sum for SUKF vs UKF "
                "(both routes cancel from the prior's magnitude; measured worst 3.4e-15 / 1.8e-13 of these scales over 14000 components), comparisons whose covariance tolerance exceeds 1% of the largest "
                "posterior entry excluded and counted; log-likelihood 1e-11 (impl vs model) / 1e-10 (SUKF vs UKF) times "
                "(cond(I+Y^T R^-1 Y) + max_j cond(R_j))*(1+nu^T R^-1 nu), comparisons with that factor > 1e7 excluded and counted; a likelihood that went through the gain form "
                "(UKFCorrection: dense inverse and determinant of Pyy) additionally 1e-13 * cond(Pyy as inverted) * (1 + nu^T Pyy^-1 nu) (measured worst 1.8e-15 of that scale), excluded and counted beyond 1e-3; "
                "with the blocks of a measurement in DIFFERENT units the gain form inverts E Pyy E with row-pivoted LU and its conditioning is that of the scaled matrix: the UKFCorrection side is then compared with "
                "K_u = cond(E Pyy E) (mostly excluded, counted) and the serial correction is compared in addition with the standard additive correction evaluated by numpy in unit-free coordinates "
                "(signatures C05:sukf-ne-standard-ukf:*, tolerance K_s + cond(Pyy)); with physical units (state unit L, block units e_j) the same tolerances "
                "times L (mean) and L^2 (covariance), the log-likelihood tolerance unchanged, cond(Pyy) taken of E^-1 Pyy E^-1 (the largest observed fraction of each tolerance is recorded in the evidence: worst_fraction_of_tolerance, separately for cases with units)",
                "correspondence is sampled: agreement is established on the generated cases only",
                "IEEE rounding is not modelled (theorems over an exact real field)"]
ASSUMPTIONS = ["Eigen's jacobiSvd factor A = U sqrt(s) satisfies A A^T = P for symmetric PSD P (premise of the theorems; checked on every case)",
               "std::sqrt satisfies 0 <= x -> sqrt(x)^2 = x (premise; exact in a real-closed field, up to rounding in doubles)",
               "Eigen inverse()/determinant() behave as matrix inverse/determinant up to rounding (checked against the model's Gauss-Jordan)",
               "linear or Euler state layouts (no quaternion / noise rows; with angle rows the covariance theorem carries the premise that the sigma-point perturbations are below pi), "
               "linear or Euler measurement layouts: SUKFCorrection sizes its sigma set from dim",
               "the output object has at least as many components as the predicted belief (fewer: out-of-bounds write, Eigen assertion)",
               "0 < measurement_sub_size (meas_size % 0 is undefined behaviour in C++)",
               "one correct() call depends only on that call's inputs (model is a pure function; checked on sequence cases that reuse one object while R, y, h, belief, sizes change)",
               "an object obtained by move construction / vector relocation computes the same function as a constructed one (the model has no object identity; checked on the lifetime = moved / moved_after_use / vector cases); "
               "the last step's likelihood and the skip flag are NOT carried by the library's move constructors: outside the property (it speaks about the results of a correct() call)",
               "a correction of another object running inside a callback of the measurement model does not change the result (model functions are pure; checked on the intrude = 1 cases)",
               "the measurement model reports valid measurement, prediction and innovation (the validity-flag prefix is C12's subject)"]

RTOL_COV, RTOL_MEAN = 5e-12, 5e-11     # see comp_tols: about 500 x the measured worst case
OUTFEWER_P = {"quick": 0.405, "thorough": 0.4015}     # upper end of the probability slot of the out-of-bounds variant (few cases: each ends the harness process)
COUNTS = {"quick": (1200, 400), "thorough": (10000, 4000)}   # (single-call cases, sequence cases of 2-4 calls)


def ut_params(rng, n):
    """(alpha, beta, kappa) with c > 0 and wc_0 >= 0."""
    for _ in range(1000):
        alpha = rng.uniform(0.3, 1.6); beta = rng.uniform(0.0, 3.0); kappa = rng.uniform(0.0, 3.0)
        if rng.random() < 0.15:
            alpha, beta, kappa = 1.0, rng.choice([0.0, 2.0]), float(rng.randint(0, 3))
        c = alpha * alpha * (n + kappa)
        if c <= 1e-3:
            continue
        lam = c - n
        wc0 = lam / c + (1 - alpha * alpha + beta)
        if rng.random() < 0.1 and beta >= 0:
            # wc_0 close to zero from above: solve for beta
            beta2 = 1e-6 - (lam / c + 1 - alpha * alpha)
            if beta2 >= 0:
                beta = beta2
                wc0 = lam / c + (1 - alpha * alpha + beta)
        if wc0 >= 0.0:
            return alpha, beta, kappa, wc0, c
    return 1.0, 2.0, 1.0, 1.0 - n / (n + 1.0) + 2.0, n + 1.0


def h_eval(kind, H, G, G2, b, g, X):
    lin = H @ X + b
    if kind == 0:
        return lin
    if kind == 1:
        return lin + g * np.sin(G @ X)
    return lin + g * (G @ X) * (G2 @ X)


def blockdiag(blocks):
    s = blocks[0].shape[0]; k = len(blocks)
    R = np.zeros((k * s, k * s))
    for j, B in enumerate(blocks):
        R[j * s:(j + 1) * s, j * s:(j + 1) * s] = B
    return R


def gen_h(rng, m, n):
    return {"hkind": rng.choice([0, 1, 2]), "H": gen.matrix(rng, m, n), "G": gen.matrix(rng, m, n, 0.5), "G2": gen.matrix(rng, m, n, 0.5),
            "b": gen.matrix(rng, m, 1), "g": gen.matrix(rng, m, 1)}


def gen_prior(rng, n, comps):
    means = gen.matrix(rng, n, 1, 2.0) + gen.matrix(rng, n, comps, rng.choice([0.1, 0.3, 1.0]))
    covs, cond, rankdef = [], 1.0, 0
    for i in range(comps):
        if n >= 2 and rng.random() < 0.1:
            P = gen.psd(rng, n, n - 1, 10 ** rng.uniform(0, 2)); rankdef = 1
            cP = 1.0
        else:
            P, cP = gen.spd(rng, n, 10 ** rng.uniform(0, 4), lo=10 ** rng.uniform(-2, 0))
        covs.append(P); cond = max(cond, cP)
    w = np.array([rng.random() + 0.1 for _ in range(comps)]); w = w / w.sum()
    return {"comps": comps, "means": means, "covs": covs, "w": w, "condP": cond, "rankdef": rankdef}


def gen_noise(rng, s, k, m, mult, equal):
    """blocks / full matrix; with mult = 0 (size mismatch) an arbitrary SPD m x m matrix and one s x s block"""
    if mult:
        if equal:
            B, _ = gen.spd(rng, s, 10 ** rng.uniform(0, 3), lo=10 ** rng.uniform(-2, 0))
            blocks = [B] * k
        else:
            blocks = [gen.spd(rng, s, 10 ** rng.uniform(0, 3), lo=10 ** rng.uniform(-2, 0))[0] for _ in range(k)]
        Rfull = blockdiag(blocks)
    else:
        blocks = [gen.spd(rng, s, 10 ** rng.uniform(0, 3))[0]]
        Rfull, _ = gen.spd(rng, m, 10 ** rng.uniform(0, 3))
    return {"blocks": blocks, "Rfull": Rfull, "condR": float(np.linalg.cond(Rfull))}


def gen_y(rng, st):
    m = st["H"].shape[0]
    return h_eval(st["hkind"], st["H"], st["G"], st["G2"], st["b"], st["g"], st["means"][:, [0]]) + gen.matrix(rng, m, 1, 0.7)


def gen_step(rng, n, s, k, comps, mult, equal):
    m = k * s if mult else k * s + rng.randint(1, s - 1)
    st = {"k": k, "m": m, "mult": mult}
    st.update(gen_h(rng, m, n)); st.update(gen_prior(rng, n, comps)); st.update(gen_noise(rng, s, k, m, mult, equal))
    st["y"] = gen_y(rng, st)
    return st


def draw_units(rng, st, s, equal, new_L=True, new_e=True):
    """Physical units.  The problem is homogeneous: with the state in units of L (x -> L x: means L, P L^2) and sub-measurement
    block j in units of e_j (E = diag(e_j I_s):  y -> E y,  R -> E R E,  h'(x') = E h(x'/L), i.e. H -> E H / L, b -> E b, g -> E g,
    G, G2 -> G / L, G2 / L) the corrected mean scales by L, the covariance by L^2 and the likelihood by 1 / det E; the matrices
    the serial form inverts (R_j up to the scalar e_j^2, I + Y^T R^-1 Y exactly) and the de-scaled innovation covariance keep
    their conditioning, so the calibrated tolerances are carried by the same factors.  The serial correction treats the blocks
    separately: a per-block slip shows where the blocks are in different units.  With the shared block of the reduced
    constructor (equal = 1) all blocks are in one unit.  The generators stay unit free; units are applied when a step is written."""
    m = st["m"]
    if new_L:
        st["L"] = 10.0 ** rng.uniform(-5, 4) if rng.random() < 0.4 else 1.0
    if new_e:
        st["e"] = np.ones(m)
        if rng.random() < 0.6:
            nb = -(-m // s)
            if equal or rng.random() < 0.2:
                eb = [10.0 ** rng.uniform(-3, 3)] * nb
            else:
                eb = [10.0 ** rng.uniform(-3, 3) for _ in range(nb)]
            st["e"] = np.repeat(np.array(eb), s)[:m]


def with_units(st):
    """the step in its units (see draw_units)"""
    L = float(st.get("L", 1.0)); e = np.asarray(st.get("e", np.ones(st["m"])), dtype=float).reshape(-1, 1)
    out = dict(st)
    out["H"] = st["H"] * e / L; out["G"] = st["G"] / L; out["G2"] = st["G2"] / L
    out["b"] = st["b"] * e; out["g"] = st["g"] * e; out["y"] = st["y"] * e
    out["Rfull"] = st["Rfull"] * (e @ e.T)                 # e e^T is exactly symmetric, so the product is
    out["blocks"] = [st["blocks"][0] * (e[0, 0] * e[0, 0])]
    out["means"] = st["means"] * L; out["covs"] = [P * L * L for P in st["covs"]]
    return out


def espan(st):
    e = np.asarray(st.get("e", [1.0]), dtype=float)
    return float(np.max(e) / np.min(e))


def put_step(c, st0, suf, with_block):
    st = with_units(st0)
    for nm in ("H", "G", "G2", "b", "g", "y", "Rfull"):
        c.mat(nm + suf, st[nm])
    if with_block:
        c.mat("Rblock" + suf, st["blocks"][0])
    c.mat("means" + suf, st["means"]).mat("covs" + suf, np.hstack(st["covs"])).mat("weights" + suf, st["w"].reshape(-1, 1))
    c.int("hkind" + suf, st["hkind"])
    # the units, for the tolerances (not read by the harness or the model)
    c.mat("unit_L" + suf, [[float(st0.get("L", 1.0))]]).mat("unit_e" + suf, np.asarray(st0.get("e", np.ones(st0["m"])), dtype=float).reshape(-1, 1))


def draw_lifetime(rng, c, steps):
    """How the SUKFCorrection / UKFCorrection objects of the case are obtained (harness: OBJECT LIFETIME) and whether twin
    objects run inside the measurement model's callbacks (CALLBACK RE-ENTRANCY)."""
    lifetime = rng.choice(["fresh"] * 11 + ["moved"] * 3 + ["moved_after_use"] * 3 + ["vector"] * 3)
    reloc_at = 0
    if lifetime == "moved_after_use":
        reloc_at = rng.randint(1, max(1, steps - 1))
    elif lifetime == "vector":
        reloc_at = rng.randint(0, max(1, steps - 1))
    assign = 1 if rng.random() < 0.5 else 0
    intrude = 1 if rng.random() < 0.25 else 0
    c.meta.update({"lifetime": lifetime, "reloc_at": reloc_at, "intrude": intrude})
    c.word("lifetime", [lifetime]).int("reloc_at", reloc_at).int("assign", assign).int("intrude", intrude)


LABELS = ["same", "R", "R", "y", "y", "h", "h", "prior", "prior", "comps", "size", "size", "all", "mismatch"]


def next_step(rng, prev, n, s, equal):
    """the inputs of the next correct() call on the same objects, and what changed"""
    label = rng.choice(LABELS)
    if not prev["mult"]:
        label = "size"                       # after a mismatching call: a fresh, valid measurement size
    if label == "mismatch" and s < 2:
        label = "R"
    st = dict(prev)
    k, m, comps = prev["k"], prev["m"], prev["comps"]
    if label in ("R", "all"):
        st.update(gen_noise(rng, s, k, m, 1, equal))
    if label in ("h", "all"):
        st.update(gen_h(rng, m, n))
    if label in ("prior", "all"):
        st.update(gen_prior(rng, n, comps))
    if label == "comps":
        st.update(gen_prior(rng, n, rng.choice([x for x in (1, 2, 3) if x != comps])))
    if label in ("y", "all"):
        st["y"] = gen_y(rng, st)
    if label == "size":
        k2 = rng.choice([x for x in (1, 2, 3, 4) if x != k or not prev["mult"]])
        st.update({"k": k2, "m": k2 * s, "mult": 1})
        st.update(gen_h(rng, k2 * s, n)); st.update(gen_noise(rng, s, k2, k2 * s, 1, equal)); st["y"] = gen_y(rng, st)
    if label == "mismatch":
        m2 = k * s + rng.randint(1, s - 1)
        st.update({"m": m2, "mult": 0})
        st.update(gen_h(rng, m2, n)); st.update(gen_noise(rng, s, k, m2, 0, equal)); st["y"] = gen_y(rng, st)
    # units: the state's unit belongs to the prior (re-drawn only when everything changes), the blocks' units to h / R / y
    # (re-drawn when all three are replaced); a mismatching measurement is returned unchanged whatever the units
    if label in ("all", "size", "mismatch"):
        draw_units(rng, st, s, equal or not st["mult"], new_L=(label == "all"), new_e=True)
    return st, label


def generate(rng, tier):
    return generate_counts(rng, tier, *COUNTS[tier])


def search_cases(rng):
    """the widened search (runner.widen_if_needed): single-call and sequence cases, not only the head of the thorough list"""
    return generate_counts(rng, "thorough", 2200, 800)


def generate_counts(rng, tier, nsingle, nseq):
    cases = []
    for idx in range(nsingle):
        n = rng.randint(1, 5); s = rng.randint(1, 3); k = rng.randint(1, 4); comps = rng.randint(1, 3)
        mult = 1
        if rng.random() < 0.15:
            s = rng.randint(2, 3); mult = 0
            if rng.random() < 0.25:
                k = 0                                   # measurement smaller than one block (m < s)
        alpha, beta, kappa, wc0, cc = ut_params(rng, n)
        negwc = 0
        var = "plain"
        u = rng.random()
        if mult and u < 0.03:
            # outside the property's scope (wc_0 < 0): the square-root weighting of the serial form yields NaN;
            # kept as a correspondence-only case (model and implementation must agree on the NaN pattern)
            alpha, beta, kappa = rng.uniform(0.05, 0.3), 0.0, 0.0
            cc = alpha * alpha * n; wc0 = (cc - n) / cc + 1 - alpha * alpha; negwc = 1; var = "negwc"
        elif mult and u < 0.06:
            alpha, beta, kappa = 1.0, 0.0, 0.0; cc = float(n); wc0 = 0.0; var = "wc0zero"      # wc_0 = 0 exactly
        elif mult and u < 0.16 and n >= 2:
            var = "circstate"                            # Euler angles in the state (trailing nc rows)
        elif mult and u < 0.22:
            var = "circmeas"                             # circular measurement description (trailing mc rows)
        elif mult and u < 0.26 and k >= 2:
            var = "offblock"                             # full-mode R with non-zero entries outside the diagonal blocks
        elif mult and u < 0.32:
            var = "illR"                                 # ill-conditioned noise blocks
        elif u < 0.40:
            var = "outmore"                              # output object with more components than the belief
        elif u < OUTFEWER_P[tier] and comps >= 2 and mult:
            var = "outfewer"                             # ... with fewer: out-of-bounds write (assertion builds only)
        equal = 1 if (rng.random() < 0.5 or mult == 0 or k <= 1) else 0
        if var == "offblock":
            equal = 0
        st = gen_step(rng, n, s, k, comps, mult, equal)
        nc = mc = 0
        if var == "illR":
            cR = 10 ** rng.uniform(5, 8)
            blocks = [gen.spd(rng, s, cR if s > 1 else 1.0, lo=10 ** rng.uniform(-6, -2))[0] for _ in range(1 if equal else k)]
            blocks = blocks * k if equal else blocks
            st["blocks"] = blocks; st["Rfull"] = blockdiag(blocks); st["condR"] = float(np.linalg.cond(st["Rfull"]))
        if var == "offblock":
            E = gen.matrix(rng, st["m"], st["m"], 0.3 * float(np.min(np.linalg.eigvalsh(st["Rfull"]))) / st["m"])
            E = (E + E.T) / 2
            for j in range(k):
                E[j * s:(j + 1) * s, j * s:(j + 1) * s] = 0.0
            st["Rfull"] = st["Rfull"] + E
        if var == "circstate":
            nc = rng.randint(1, n)
            # keep the sigma-point perturbations of the angle rows below pi: sqrt(c * lambda_max) <= 1.5
            covs = []
            for P in st["covs"]:
                lm = float(np.max(np.linalg.eigvalsh(P)))
                covs.append(P * min(1.0, 2.25 / (cc * lm)))
            st["covs"] = covs
            st["means"][n - nc:, :] = np.array([[rng.uniform(-3.1, 3.1) for _ in range(comps)] for _ in range(nc)])
            st["y"] = gen_y(rng, st)
        if var == "circmeas":
            mc = rng.randint(1, st["m"])
        # angles are in radians: no unit for a state / a measurement with circular rows
        draw_units(rng, st, s, equal or var == "circstate", new_L=(var != "circstate"), new_e=(var != "circmeas"))
        if var == "circstate":
            st["L"] = 1.0
        if var == "circmeas":
            st["e"] = np.ones(st["m"])
        outcomps = comps
        if var == "outmore":
            outcomps = comps + rng.randint(1, 2)
        if var == "outfewer":
            outcomps = comps - 1
        c = caseio.Case(idx, "sukf", {"n": n, "m": st["m"], "s": s, "k": k, "comps": comps, "hkind": st["hkind"], "mult": mult,
                                      "equal": equal, "rankdef": st["rankdef"], "negwc": negwc, "var": var, "nc": nc, "mc": mc,
                                      "outcomps": outcomps, "L": "%.3g" % st["L"], "espan": "%.3g" % espan(st),
                                      "cond": "%.3g" % max(st["condP"], st["condR"]), "wc0": "%.3g" % wc0})
        draw_lifetime(rng, c, 2)
        put_step(c, st, "", equal)
        c.mat("params", np.array([[alpha, beta, kappa]])).int("s", s)
        if nc:
            c.int("nc", nc)
        if mc:
            c.int("mc", mc)
        if outcomps != comps:
            c.int("outcomps", outcomps)
        cases.append(c)
    # sequences: the same SUKFCorrection / UKFCorrection objects driven through several correct() calls while the
    # measurement model's outputs (R, y, h), the predicted belief and the sizes change between the calls
    for idx in range(nseq):
        n = rng.randint(1, 4); s = rng.randint(1, 3); k = rng.randint(1, 4); comps = rng.randint(1, 3)
        T = rng.randint(2, 4)
        alpha, beta, kappa, wc0, cc = ut_params(rng, n)
        equal = 1 if rng.random() < 0.5 else 0
        steps, labels = [gen_step(rng, n, s, k, comps, 1, equal)], ["first"]
        draw_units(rng, steps[0], s, equal)
        for t in range(1, T):
            st, lab = next_step(rng, steps[-1], n, s, equal)
            steps.append(st); labels.append(lab)
        meta = {"n": n, "s": s, "steps": T, "equal": equal, "negwc": 0, "wc0": "%.3g" % wc0, "labels": "/".join(labels)}
        for t, (st, lab) in enumerate(zip(steps, labels), 1):
            meta.update({"m_%d" % t: st["m"], "k_%d" % t: st["k"], "comps_%d" % t: st["comps"], "hkind_%d" % t: st["hkind"],
                         "mult_%d" % t: st["mult"], "rankdef_%d" % t: st["rankdef"],
                         "cond_%d" % t: "%.3g" % max(st["condP"], st["condR"]), "lbl_%d" % t: lab,
                         "L_%d" % t: "%.3g" % st["L"], "espan_%d" % t: "%.3g" % espan(st)})
        c = caseio.Case("q%d" % idx, "sukf_seq", meta)
        draw_lifetime(rng, c, T)
        for t, st in enumerate(steps, 1):
            put_step(c, st, "_%d" % t, equal)
        c.mat("params", np.array([[alpha, beta, kappa]])).int("s", s).int("steps", T)
        cases.append(c)
    return cases


def step_view(c, t):
    """call t of a sequence case as a single case (operands without the suffix, that call's meta)"""
    suf = "_%d" % t
    meta = {k: c.meta[k] for k in ("n", "s", "equal", "negwc", "wc0")}
    for k in ("m", "k", "comps", "hkind", "mult", "rankdef", "cond"):
        meta[k] = c.meta["%s_%d" % (k, t)]
    meta["second"] = 0
    meta.update({"var": "plain", "nc": 0, "mc": 0, "outcomps": meta["comps"]})
    for k in ("lifetime", "reloc_at", "intrude"):
        if k in c.meta:
            meta[k] = c.meta[k]
    v = caseio.Case(c.id, "sukf", meta)
    for tag, name, val in c.ops:
        if name.endswith(suf):
            v.ops.append((tag, name[:-len(suf)], val))
        elif name in ("params", "s"):
            v.ops.append((tag, name, val))
    return v


def rec_view(rec, t):
    if rec is None:
        return None
    tp = "t%d_" % t
    r = caseio.Record(rec.id, "")
    for name, tv in rec.vals.items():
        if name.startswith(tp):
            r.vals[name[len(tp):]] = tv
    return r


def nontrivial(c):
    if c.kind == "sukf_seq":
        return ("seq", int(c.meta["n"]), int(c.meta["s"]), str(c.meta["labels"]), str(c.meta["equal"]),
                tuple(int(c.meta["k_%d" % t]) for t in range(1, int(c.meta["steps"]) + 1)), str(c.meta.get("lifetime", "fresh")))
    n, s, k, comps = int(c.meta["n"]), int(c.meta["s"]), int(c.meta["k"]), int(c.meta["comps"])
    kind, mult = int(c.meta["hkind"]), int(c.meta["mult"])
    if k >= 2 or comps >= 2 or kind != 0 or mult == 0 or str(c.meta.get("var", "plain")) != "plain":
        return (n, s, k, comps, kind, str(c.meta["equal"]), mult, str(c.meta["rankdef"]), str(c.meta.get("var", "plain")),
                str(c.meta.get("nc", 0)), str(c.meta.get("mc", 0)), str(c.meta.get("lifetime", "fresh")))
    return None


def prefixes(c):
    return (["r_"] if c.has("Rblock") else []) + ["f_"]


def unit_L(c):
    return float(c.get("unit_L")[0, 0]) if c.has("unit_L") else 1.0


def unit_e(c):
    return c.get("unit_e").reshape(-1) if c.has("unit_e") else np.ones(c.get("Rfull").shape[0])


def descaled(c, S):
    """an m x m matrix of the measurement space (Pyy) brought back to unit-free blocks: E^-1 S E^-1"""
    e = unit_e(c)
    return S / np.outer(e, e) if S.shape == (e.size, e.size) else S


def case_cond(c, model):
    """conditioning of the case: generator's (P, R) and the innovation covariance the spec computed."""
    cond = float(c.meta["cond"])
    if model is not None:
        for i in range(int(c.meta["comps"])):
            S = model.get("u_Pyy%d" % i)
            if S is not None and np.all(np.isfinite(S)):
                cond = max(cond, float(np.linalg.cond(descaled(c, S))))
    return cond


def lik_scale(c, model, i):
    """conditioning of the UVR likelihood of component i: (cond(I + Y^T R^-1 Y) + max_j cond(R_j)) * (1 + nu^T R^-1 nu): the
    quadratic form nu^T R^-1 (I - Y C Y^T R^-1) nu cancels from magnitude nu^T R^-1 nu, through the inverse of C^-1 and the
    inverses of the noise blocks (the same K_s as for mean and covariance, see comp_tols; without the cond(R_j) term the
    ill-conditioned-noise variant used up to 49 % of the tolerance over 14000 cases, with it 3e-5)."""
    if model is None or model.get("f_Y%d" % i) is None:
        return LIK_SCALE_MAX          # no model output: the loosest tolerance that is still accepted
    Y, nu, R = model.get("f_Y%d" % i), model.get("f_innov%d" % i), blockdiag_of(c)
    if not (np.all(np.isfinite(Y)) and np.all(np.isfinite(nu))):
        return LIK_SCALE_MAX
    Ri = np.linalg.inv(R)
    C = np.eye(Y.shape[1]) + Y.T @ Ri @ Y
    s_ = int(c.meta["s"])
    kr = max([float(np.linalg.cond(R[j * s_:(j + 1) * s_, j * s_:(j + 1) * s_])) for j in range(R.shape[0] // s_)] or [1.0])
    return (float(np.linalg.cond(C)) + kr) * (1.0 + float((nu.T @ Ri @ nu)[0, 0]))


EXCLUDED = {"likelihood_ill_conditioned": 0, "mean_cov_ill_conditioned": 0, "sukf_vs_ukf_mean_cov": 0, "ukf_likelihood": 0}
LIK_SCALE_MAX = 1e7      # beyond this the likelihood comparison is excluded (and counted): the tolerance would exceed 1e-3 in the log
LIK_RTOL_MODEL, LIK_RTOL_UKF = 1e-11, 1e-10    # measured: |log a - log b| <= 2e-14 * lik_scale over 1200 cases


def lik_close(a, b, tol, kind=None, c=None):
    """log-domain comparison of two likelihood values"""
    if a is None or b is None:
        return False
    a, b = float(a), float(b)
    if a == b or (math.isnan(a) and math.isnan(b)):
        return True
    if not (a > 0 and b > 0):
        return max(a, b) < 1e-290 and min(a, b) >= 0     # one of them underflowed
    if kind is not None and c is not None and tol > 0 and math.isfinite(a) and math.isfinite(b):
        note(kind, abs(math.log(a) - math.log(b)) / tol, c)
    return abs(math.log(a) - math.log(b)) <= tol


def pscale(c):
    return max(1.0, float(np.max(np.abs(c.get("covs")))), float(np.max(np.abs(c.get("means")))))


CHANGED = {"first": "first-call", "same": "nothing-changed", "mismatch": "size-mismatch"}


def step_label(c, t):
    lab = str(c.meta["lbl_%d" % t])
    return "step=%d:%s" % (t, CHANGED.get(lab, lab + "-changed"))


WORST = {}     # largest observed difference as a fraction of its tolerance, per comparison (evidence: how much room the tolerances leave)


WORST_CASE = {}


def note(kind, frac, c):
    if frac > WORST.get(kind, 0.0):
        WORST[kind] = frac; WORST_CASE[kind] = "%s(var=%s)" % (c.id, c.meta.get("var", "seq"))


def has_units(c):
    return unit_L(c) != 1.0 or bool(np.any(unit_e(c) != 1.0))


def within(kind, c, a, b, tol):
    """caseio.close(a, b, tol, 0), recording the fraction of the tolerance used"""
    ok = caseio.close(a, b, tol, 0)
    if a is not None and b is not None and tol > 0:
        d = caseio.maxdiff(a, b)
        if math.isfinite(d):
            note(kind + (":units" if has_units(c) else ""), d / tol, c)
    return ok


def setup_diffs(c, impl):
    """the harness did what the case asks for (object lifetime, intruder)"""
    d = []
    if impl.get("skipped") == 1:
        return d
    if str(c.meta.get("lifetime", "fresh")) != "fresh" and not (impl.get("relocations") or 0) >= 2:
        d.append("harness: the subjects were not relocated (lifetime=%s)" % c.meta["lifetime"])
    if str(c.meta.get("intrude", "0")) == "1" and not (impl.get("intruder_calls") or 0) > 0:
        d.append("harness: the intruder never ran")
    return d


def sig_suffix(c, t=None):
    """failing input class: how the object was obtained (from the call after the relocation on) / twin objects in the callbacks"""
    s = ""
    lt = str(c.meta.get("lifetime", "fresh"))
    if lt != "fresh" and (t is None or t > int(c.meta.get("reloc_at", 0))):
        s += ":lifetime=" + lt
    if str(c.meta.get("intrude", "0")) == "1":
        s += ":intrude"
    return s


def compare(c, impl, model):
    """Sequence cases: the model is stateless, so call t of the implementation's objects is compared with the model run on
    call t's inputs alone; any difference is state leaking from an earlier call."""
    if c.kind != "sukf_seq":
        return setup_diffs(c, impl) + compare_single(c, impl, model)
    d = setup_diffs(c, impl) + caseio.compare_fields(impl, model, ["wm", "wc", "c"], atol=1e-15, rtol=1e-14)
    for t in range(1, int(c.meta["steps"]) + 1):
        d += ["%s: %s" % (step_label(c, t), x) for x in compare_single(step_view(c, t), rec_view(impl, t), rec_view(model, t), top=False)]
    return d


def oracle(c, impl, model):
    if c.kind != "sukf_seq":
        return [(sig + sig_suffix(c), detail) for sig, detail in oracle_single(c, impl, model)]
    v = []
    for t in range(1, int(c.meta["steps"]) + 1):
        v += [("%s:%s%s" % (sig, step_label(c, t), sig_suffix(c, t)), detail) for sig, detail in oracle_single(step_view(c, t), rec_view(impl, t), rec_view(model, t))]
    return v


def has_second(c):
    return str(c.meta.get("second", "1")) == "1" and int(c.meta["mult"]) and int(c.meta["s"]) >= 2


def var_of(c):
    return str(c.meta.get("var", "plain"))


def cond_C(c, model, i):
    """cond(I + Y^T R^-1 Y) of component i, the matrix the serial form inverts (from the model's Y); None if unavailable"""
    if model is None or model.get("f_Y%d" % i) is None:
        return None
    Y = model.get("f_Y%d" % i)
    if not np.all(np.isfinite(Y)):
        return None
    Rd = blockdiag_of(c)
    return float(np.linalg.cond(np.eye(Y.shape[1]) + Y.T @ np.linalg.inv(Rd) @ Y))


def blockdiag_of(c):
    """the block-diagonal part of Rfull (what the SUKF reads)"""
    R = c.get("Rfull"); s_ = int(c.meta["s"]); m = R.shape[0]
    D = np.zeros_like(R)
    for j in range(m // s_):
        D[j * s_:(j + 1) * s_, j * s_:(j + 1) * s_] = R[j * s_:(j + 1) * s_, j * s_:(j + 1) * s_]
    return D


def pyy_conds(c, model, i, fallback=1e7):
    """(cond(Pyy) in unit-free blocks, cond of the matrix the gain form actually inverts = E Pyy E); equal unless the blocks
    of the measurement are in different units"""
    S = model.get("u_Pyy%d" % i) if model is not None else None
    if S is None or not np.all(np.isfinite(S)):
        return fallback, fallback
    k0 = float(np.linalg.cond(descaled(c, S)))
    e = unit_e(c)
    return k0, (max(k0, float(np.linalg.cond(S))) if np.ptp(e) > 0 else k0)


GAIN_LIK_RTOL = 1e-13    # about 1000 eps; measured worst over the thorough sample: see worst_fraction_of_tolerance (gain-form-loglik-bound)


def gain_form_lik_tol(c, model, i, rtol):
    """(log tolerance, excluded, the gain-form term alone) for a likelihood that went through the gain form: the Gaussian density of the innovation
    covariance Pyy = Y Y^T + R as a dense matrix (inverse() and determinant() of E Pyy E).  Its quadratic form
    q = nu^T Pyy^-1 nu is computed through an inverse of relative accuracy eps * cond(Pyy as inverted), so the log-likelihood carries
    an absolute error of the order eps * cond(E Pyy E) * q; this is NOT bounded by the conditioning of the serial route
    (lik_scale: cond(I + Y^T R^-1 Y) is the condition of the WHITENED innovation covariance, which stays small when a noise
    block is ill conditioned).  Tolerance: the larger of the two; excluded (and counted) beyond LIK_SCALE_MAX as before."""
    ls = lik_scale(c, model, i)
    k0, k1 = pyy_conds(c, model, i)
    S = model.get("u_Pyy%d" % i) if model is not None else None
    nu = model.get("f_innov%d" % i) if model is not None else None
    q = 1.0
    if S is not None and nu is not None and np.all(np.isfinite(S)) and np.all(np.isfinite(nu)) and S.shape[0] == nu.shape[0]:
        e = unit_e(c).reshape(-1, 1)
        nu0 = nu / e if e.shape[0] == nu.shape[0] else nu
        try:
            q = abs(float((nu0.T @ np.linalg.solve(descaled(c, S), nu0))[0, 0]))
        except np.linalg.LinAlgError:
            q = math.inf
    gain = k1 * (1.0 + q)
    return max(rtol * ls, GAIN_LIK_RTOL * gain), (ls > LIK_SCALE_MAX or GAIN_LIK_RTOL * gain > 1e-3), GAIN_LIK_RTOL * gain


def spec_ukf(c, impl, i):
    """The standard additive unscented correction of component i, evaluated with numpy in UNIT-FREE coordinates (state / L,
    block j of the measurement / e_j) from the case's operands, the weights and the covariance square root A_i the
    implementation reported (both checked elsewhere: weights against the model, A A^T = P as oracle contract), then brought
    back to the case's units: (mean, cov, log-likelihood).  None when something needed is missing / not finite."""
    n = int(c.meta["n"]); L = unit_L(c); e = unit_e(c).reshape(-1, 1)
    A, wm, wc, cc = impl.get("A%d" % i), impl.get("wm"), impl.get("wc"), impl.get("c")
    if A is None or wm is None or wc is None or cc is None or e.shape[0] != c.get("H").shape[0]:
        return None
    x = c.get("means")[:, [i]] / L; P = c.get("covs")[:, i * n:(i + 1) * n] / (L * L); A = A / L
    H = c.get("H") * L / e; G = c.get("G") * L; G2 = c.get("G2") * L
    b = c.get("b") / e; g = c.get("g") / e; y = c.get("y") / e
    R = blockdiag_of(c) / (e @ e.T)
    r = math.sqrt(float(cc))
    X = np.hstack([x, x + r * A, x - r * A])
    Z = h_eval(int(c.meta["hkind"]), H, G, G2, b, g, X)
    wm = wm.reshape(-1, 1); wcv = wc.reshape(-1)
    zbar = Z @ wm
    Yd = Z - zbar; Xd = X - x
    Pyy = (Yd * wcv) @ Yd.T + R; Pxy = (Xd * wcv) @ Yd.T
    if not (np.all(np.isfinite(Pyy)) and np.all(np.isfinite(Pxy))):
        return None
    Pyy = (Pyy + Pyy.T) / 2
    nu = y - zbar
    K = np.linalg.solve(Pyy, Pxy.T).T
    mean = x + K @ nu; cov = P - K @ Pyy @ K.T
    sign, logdet = np.linalg.slogdet(Pyy)
    if sign <= 0:
        return None
    m = Pyy.shape[0]
    loglik = -0.5 * (m * math.log(2.0 * math.pi) + logdet + float((nu.T @ np.linalg.solve(Pyy, nu))[0, 0])) - float(np.sum(np.log(e)))
    return mean * L, cov * L * L, loglik


def comp_tols(c, model, i, cov_out, mean_out, which):
    """(tol_mean, tol_cov, excluded) for component i.  Conditioning of the two routes (measured over 14000 components incl.
    ill-conditioned noise blocks):  serial form: K_s = cond(I + Y^T R^-1 Y) + max_j cond(R_j)  (the matrix it inverts and the
    blocks it inverts);  gain form (UKF): K_u = cond(Pyy).  Both cancel from the magnitude of the PRIOR (P - K S K^T;
    X C X^T with X X^T = P), so the absolute scale is max|P_i| for the covariance and the size of the mean shift for the mean.
    Measured worst: covariance 3.4e-15 * K * max|P_i|, mean 1.8e-13 * K * shift.  which = 'sukf' (SUKF impl vs model),
    'ukf' (UKF impl vs spec), 'both' (SUKF vs UKF).  A comparison whose covariance tolerance exceeds 1 % of the largest
    posterior entry says nothing: it is excluded and counted.
    Units: K_s is the same in every unit (R_j changes by the scalar e_j^2, I + Y^T R^-1 Y not at all).  The gain form inverts
    E Pyy E with a partially pivoted LU (Eigen's inverse(); the model's Gauss-Jordan pivots the same way): with the blocks
    in DIFFERENT units the row scaling steers the pivoting and the conditioning is that of the matrix as it is inverted,
    K_u = cond(E Pyy E) (observed: a span of 8.5e5 between the blocks cost the UKF likelihood 3 digits).  So with mixed block
    units the UKF side is compared loosely or excluded, and the serial correction is additionally compared with the standard
    additive correction evaluated in unit-free coordinates (which = 'spec': K_s + cond(Pyy), see spec_ukf)."""
    n = int(c.meta["n"]); s_ = int(c.meta["s"])
    P = c.get("covs")[:, i * n:(i + 1) * n]; x = c.get("means")[:, [i]]
    R = c.get("Rfull")
    fallback = float(c.meta["cond"]) * 1e3
    cc = cond_C(c, model, i)
    ks = (cc if cc is not None else fallback) + max([float(np.linalg.cond(R[j * s_:(j + 1) * s_, j * s_:(j + 1) * s_])) for j in range(R.shape[0] // s_)] or [1.0])
    S = model.get("u_Pyy%d" % i) if model is not None else None
    ku0, ku = pyy_conds(c, model, i, fallback)
    K = {"sukf": ks, "ukf": ku, "both": ks + ku, "spec": ks + ku0}[which]
    pm = float(np.max(np.abs(P)))
    tol_cov = RTOL_COV * K * pm
    dx = float(np.max(np.abs(mean_out - x))) if mean_out is not None and np.all(np.isfinite(mean_out)) else 1.0
    tol_mean = RTOL_MEAN * K * max(dx, 1e-3 * float(np.max(np.abs(x))), 1e-12 * unit_L(c))
    om = float(np.max(np.abs(cov_out))) if cov_out is not None and np.all(np.isfinite(cov_out)) else math.inf
    return tol_mean, tol_cov, tol_cov > 1e-2 * om


def compare_single(c, impl, model, top=True):
    comps = int(c.meta["comps"]); mult = int(c.meta["mult"]); var = var_of(c)
    outcomps = max(comps, int(c.meta.get("outcomps", comps))) if mult else comps
    if impl.get("skipped") == 1:
        return []                                  # out-of-bounds variant in a build without assertions: not run
    d = caseio.compare_fields(impl, model, ["wm", "wc", "c"], atol=1e-15, rtol=1e-14) if top else []
    exact = []
    for pre in prefixes(c):
        exact += [pre + "components", pre + "lik_valid"]
        if has_second(c):
            exact += [pre + "2_lik_valid", pre + "2_out_equals_pred"]
    d += caseio.compare_fields(impl, model, exact, atol=0, rtol=0)
    for pre in prefixes(c):
        d += caseio.compare_fields(impl, model, [pre + "weights"], atol=1e-15, rtol=1e-15)      # frame: the output's weights (0.125) are kept
        for i in range(outcomps):
            fm, fc = pre + "mean%d" % i, pre + "cov%d" % i
            a_m, b_m, a_c, b_c = impl.get(fm), model.get(fm), impl.get(fc), model.get(fc)
            if a_m is None or b_m is None or a_c is None or b_c is None:
                d.append("%s/%s: missing" % (fm, fc)); continue
            if i >= comps or not mult:
                # untouched components of a larger output object / the copied belief: exact
                if not (caseio.close(a_m, b_m, 0, 0) and caseio.close(a_c, b_c, 0, 0)):
                    d.append("%s/%s: not identical to the model (frame)" % (fm, fc))
                continue
            tm, tc, excl = comp_tols(c, model, i, a_c, a_m, "sukf")
            if excl:
                EXCLUDED["mean_cov_ill_conditioned"] += 1; continue
            if not within("sukf-vs-model:mean", c, a_m, b_m, tm):
                d.append("%s: max|impl-model|=%.3g (tol %.3g)" % (fm, caseio.maxdiff(a_m, b_m), tm))
            if not within("sukf-vs-model:cov", c, a_c, b_c, tc):
                d.append("%s: max|impl-model|=%.3g (tol %.3g)" % (fc, caseio.maxdiff(a_c, b_c), tc))
            if mult:
                ls = lik_scale(c, model, i)
                if ls > LIK_SCALE_MAX:
                    EXCLUDED["likelihood_ill_conditioned"] += 1
                elif not lik_close(impl.get(pre + "lik%d" % i), model.get(pre + "lik%d" % i), LIK_RTOL_MODEL * ls, "sukf-vs-model:loglik", c):
                    d.append("%slik%d: impl=%r model=%r (log tol %.3g)" % (pre, i, impl.get(pre + "lik%d" % i), model.get(pre + "lik%d" % i), LIK_RTOL_MODEL * ls))
    if True:
        # the UKF of the implementation against the spec
        for i in range(comps):
            a_m, b_m, a_c, b_c = impl.get("u_mean%d" % i), model.get("u_mean%d" % i), impl.get("u_cov%d" % i), model.get("u_cov%d" % i)
            if a_m is None or b_m is None or a_c is None or b_c is None:
                d.append("u_mean%d/u_cov%d: missing" % (i, i)); continue
            tm, tc, excl = comp_tols(c, model, i, a_c, a_m, "ukf")
            if excl:
                continue
            if not within("ukf-vs-model:mean", c, a_m, b_m, tm):
                d.append("u_mean%d: max|impl-model|=%.3g (tol %.3g)" % (i, caseio.maxdiff(a_m, b_m), tm))
            if not within("ukf-vs-model:cov", c, a_c, b_c, tc):
                d.append("u_cov%d: max|impl-model|=%.3g (tol %.3g)" % (i, caseio.maxdiff(a_c, b_c), tc))
            # off-block R: f_innov / lik_scale are those of the block-diagonal part; the UKF likelihood is compared where R is block diagonal
            tl, lexcl, tg = gain_form_lik_tol(c, model, i, LIK_RTOL_MODEL) if var != "offblock" else (LIK_RTOL_MODEL * LIK_SCALE_MAX, False, math.inf)
            la, lb = impl.get("u_lik%d" % i), model.get("u_lik%d" % i)
            if not lexcl and la is not None and lb is not None and float(la) > 1e-290 and float(lb) > 1e-290 and math.isfinite(float(la)) and math.isfinite(float(lb)) and tg < math.inf:
                note("ukf-vs-model:loglik:fraction-of-gain-form-term", abs(math.log(float(la)) - math.log(float(lb))) / tg, c)
            if lexcl:
                EXCLUDED["ukf_likelihood"] += 1
            elif not lik_close(impl.get("u_lik%d" % i), model.get("u_lik%d" % i), tl, "ukf-vs-model:loglik", c):
                d.append("u_lik%d: impl=%r model=%r (log tol %.3g)" % (i, impl.get("u_lik%d" % i), model.get("u_lik%d" % i), tl))
    return d


def oracle_single(c, impl, model):
    """The property clauses evaluated on the implementation's output (one correct() call)."""
    v = []
    n, comps, mult = int(c.meta["n"]), int(c.meta["comps"]), int(c.meta["mult"])
    var = var_of(c)
    if impl.get("skipped") == 1:
        return v
    if var == "outfewer":
        # reached only where assertions are on: the step must have been stopped by Eigen's assertion (see on_crash)
        return [("C05:output-fewer-components:no-assertion", "correct() wrote %d components into an output object of %s without an assertion"
                 % (comps, c.meta["outcomps"]))]
    covs, means = c.get("covs"), c.get("means")
    # oracle contract: the SVD factor is a square root of the covariance
    for i in range(comps):
        P = covs[:, i * n:(i + 1) * n]; A = impl.get("A%d" % i)
        tolA = 1e-12 * max(unit_L(c) ** 2, float(np.max(np.abs(P)))) * n
        if A is None or not caseio.close(A @ A.T, P, tolA, 0):
            v.append(("C05:oracle-contract:svd-sqrt", "component %d: |A A^T - P| = %.3g" % (i, caseio.maxdiff(A @ A.T, P) if A is not None else math.nan)))
    for pre in prefixes(c):
        flag = "reduced" if pre == "r_" else "full"
        if impl.get(pre + "pred_unchanged") != 1:
            v.append(("C05:prior-modified:%s" % flag, "the predicted belief passed in was modified"))
        if var == "negwc":
            continue          # wc_0 < 0: outside the property (the serial form needs sqrt(wc)); correspondence only
        if not mult:
            # size mismatch: output = input exactly, no likelihood
            if impl.get(pre + "out_equals_pred") != 1:
                v.append(("C05:size-mismatch-not-identity:%s" % flag, "meas=%s sub=%s: output differs from the predicted belief" % (c.meta["m"], c.meta["s"])))
            if impl.get(pre + "lik_valid") != 0:
                v.append(("C05:size-mismatch-likelihood:%s" % flag, "a likelihood was reported although no step was performed"))
            continue
        if impl.get(pre + "dim") != n:
            v.append(("C05:shape:%s" % flag, "dim %s for %d" % (impl.get(pre + "dim"), n)))
            continue
        if has_second(c):
            # second step on the same object, measurement size m+1: identity, and the first step's likelihood must not survive
            if impl.get(pre + "2_out_equals_pred") != 1:
                v.append(("C05:size-mismatch-not-identity:second-step:%s" % flag, "second step with meas=%d sub=%s: output differs from the predicted belief" % (int(c.meta["m"]) + 1, c.meta["s"])))
            if impl.get(pre + "2_lik_valid") != 0:
                v.append(("C05:stale-likelihood-after-size-mismatch:%s" % flag, "getLikelihood() reports the previous step's values after a step that returned early"))
        if impl.get(pre + "lik_valid") != 1 or impl.get(pre + "lik_size") != comps:
            v.append(("C05:likelihood-missing:%s" % flag, "likelihood not reported for every component"))
        if var == "offblock":
            continue          # R is not block diagonal (the SUKF ignores the off-block entries): outside the premise; correspondence only
        for i in range(comps):
            sm, sc_, sl = impl.get(pre + "mean%d" % i), impl.get(pre + "cov%d" % i), impl.get(pre + "lik%d" % i)
            um, uc, ul = impl.get("u_mean%d" % i), impl.get("u_cov%d" % i), impl.get("u_lik%d" % i)
            # the standard additive correction in unit-free coordinates (numpy): the reference that stays sharp when the blocks
            # of the measurement are in different units (then the UKFCorrection's own inverse of E Pyy E is the ill-conditioned side)
            spec = spec_ukf(c, impl, i) if var in ("plain", "illR", "wc0zero", "outmore") else None
            if spec is not None:
                tm, tc, excl = comp_tols(c, model, i, spec[1], spec[0], "spec")
                ls = lik_scale(c, model, i)
                if not excl:
                    if not within("sukf-vs-spec:mean", c, sm, spec[0], tm):
                        v.append(("C05:sukf-ne-standard-ukf:mean:%s" % flag, "component %d: max diff %.3g > %.3g (standard additive correction evaluated in unit-free coordinates)" % (i, caseio.maxdiff(sm, spec[0]), tm)))
                    if not within("sukf-vs-spec:cov", c, sc_, spec[1], tc):
                        v.append(("C05:sukf-ne-standard-ukf:cov:%s" % flag, "component %d: max diff %.3g > %.3g (standard additive correction evaluated in unit-free coordinates)" % (i, caseio.maxdiff(sc_, spec[1]), tc)))
                    if ls <= LIK_SCALE_MAX and sl is not None and float(sl) > 1e-290 and math.isfinite(float(sl)):
                        dl = abs(math.log(float(sl)) - spec[2])
                        note("sukf-vs-spec:loglik", dl / (LIK_RTOL_UKF * ls), c)
                        if not dl <= LIK_RTOL_UKF * ls:
                            v.append(("C05:sukf-ne-standard-ukf:likelihood:%s" % flag, "component %d: log %r = %.17g vs %.17g (log tol %.3g)" % (i, sl, math.log(float(sl)), spec[2], LIK_RTOL_UKF * ls)))
            tm, tc, excl = comp_tols(c, model, i, uc, um, "both")
            tl, lexcl, _ = gain_form_lik_tol(c, model, i, LIK_RTOL_UKF)
            if excl:
                EXCLUDED["sukf_vs_ukf_mean_cov"] += 1
                continue
            if not within("sukf-vs-ukf:mean", c, sm, um, tm):
                v.append(("C05:sukf-ne-ukf:mean:%s" % flag, "component %d: max diff %.3g > %.3g" % (i, caseio.maxdiff(sm, um), tm)))
            if not within("sukf-vs-ukf:cov", c, sc_, uc, tc):
                v.append(("C05:sukf-ne-ukf:cov:%s" % flag, "component %d: max diff %.3g > %.3g" % (i, caseio.maxdiff(sc_, uc), tc)))
            if not lexcl and not lik_close(sl, ul, tl, "sukf-vs-ukf:loglik", c):
                v.append(("C05:sukf-ne-ukf:likelihood:%s" % flag, "component %d: %r vs %r (log tol %.3g)" % (i, sl, ul, tl)))
    if mult and c.has("Rblock") and var not in ("negwc",):
        for i in range(comps):
            tm, tc, excl = comp_tols(c, model, i, impl.get("f_cov%d" % i), impl.get("f_mean%d" % i), "sukf")
            ls = lik_scale(c, model, i)
            if excl:
                continue
            if not (caseio.close(impl.get("r_mean%d" % i), impl.get("f_mean%d" % i), tm, 0)
                    and caseio.close(impl.get("r_cov%d" % i), impl.get("f_cov%d" % i), tc, 0)
                    and (ls > LIK_SCALE_MAX or lik_close(impl.get("r_lik%d" % i), impl.get("f_lik%d" % i), LIK_RTOL_UKF * ls))):
                v.append(("C05:reduced-ne-full", "component %d" % i))
    return v


def on_crash(c, info, model):
    """the out-of-bounds variant must be stopped by Eigen's assertion where assertions are compiled in"""
    if c.kind == "sukf" and var_of(c) == "outfewer":
        if "BFL_VERIF_EIGEN_ASSERT" in info.get("stderr", ""):
            return []
    return None


def histogram(cases):
    single = [c for c in cases if c.kind != "sukf_seq"]
    seqs = [c for c in cases if c.kind == "sukf_seq"]

    def count(f, cs=single):
        d = {}
        for c in cs:
            d[str(f(c))] = d.get(str(f(c)), 0) + 1
        return d
    changes = {}
    for c in seqs:
        for t in range(2, int(c.meta["steps"]) + 1):
            lab = str(c.meta["lbl_%d" % t]); changes[lab] = changes.get(lab, 0) + 1
    return {"h_kind": count(lambda c: c.meta["hkind"]), "blocks_k": count(lambda c: c.meta["k"]),
            "sub_size": count(lambda c: c.meta["s"]), "state_n": count(lambda c: c.meta["n"]),
            "components": count(lambda c: c.meta["comps"]), "multiple": count(lambda c: c.meta["mult"]), "negative_wc0_out_of_scope": count(lambda c: c.meta.get("negwc", "0")),
            "equal_blocks": count(lambda c: c.meta["equal"]), "rank_deficient_P": count(lambda c: c.meta["rankdef"]),
            "cond_decade": count(lambda c: gen.decade(float(c.meta["cond"]))),
            "sequence_cases": len(seqs), "sequence_calls": count(lambda c: c.meta["steps"], seqs), "sequence_change_between_calls": changes,
            "variant": count(lambda c: c.meta.get("var", "plain")),
            "object_lifetime": count(lambda c: c.meta.get("lifetime", "fresh"), cases),
            "relocation_after_calls": count(lambda c: c.meta.get("reloc_at", 0), [c for c in cases if c.meta.get("lifetime", "fresh") != "fresh"]),
            "intruder_in_callbacks": count(lambda c: c.meta.get("intrude", 0), cases),
            "state_unit_decade": count(lambda c: gen.decade(float(c.meta.get("L", c.meta.get("L_1", 1.0)))), cases),
            "block_unit_span_decade": count(lambda c: gen.decade(float(c.meta.get("espan", c.meta.get("espan_1", 1.0)))), cases),
            "worst_fraction_of_tolerance": {k: float("%.3g" % v) for k, v in sorted(WORST.items())},
            "worst_fraction_case": dict(sorted(WORST_CASE.items())),
            "likelihood_comparisons_excluded_ill_conditioned": EXCLUDED["likelihood_ill_conditioned"],
            "mean_cov_comparisons_excluded_ill_conditioned": EXCLUDED["mean_cov_ill_conditioned"],
            "sukf_vs_ukf_mean_cov_comparisons_excluded_ill_conditioned_or_mixed_units": EXCLUDED["sukf_vs_ukf_mean_cov"],
            "ukf_likelihood_comparisons_excluded_ill_conditioned_or_mixed_units": EXCLUDED["ukf_likelihood"]}


LEVEL_TEXT = ("Proof: the model of SUKFCorrection::correctStep / getLikelihood (sigma points, propagation through an arbitrary measurement "
              "function h, square-root weighting, serial accumulation of C^-1 and d over the sub-measurements with the per-block noise covariance, "
              "X C X^T update, Woodbury/UVR likelihood) is proved, for every real field, state size, number and size of blocks, h, component, "
              "SPD blocks, PSD P, c > 0 and non-negative covariance weights, to return the same mean, covariance and likelihood as the model of the "
              "additive UKFCorrection, with the reduced and the full noise-covariance constructor; a measurement size that is not a multiple of the "
              "block size returns the predicted belief unchanged. The model is tied to the code by running the extracted model and the library "
              "(SUKFCorrection both constructors, UKFCorrection) on the same generated cases.")
LEVEL_NOTE = ("Trusted: Coq kernel, MathComp, extraction + float driver, list instance of the matrix interface, harness and tolerances; rounding is not "
              "modelled; the SVD square root and std::sqrt enter through their contracts (checked at run time); scope is linear layouts; "
              "the tie to the code is sampled (1200 single-call + 400 sequence cases quick / 10000 + 4000 thorough; objects fresh, moved, moved after use and relocated by vector growth; with and without twin objects running inside the callbacks; state and per-block measurement units over 9 / 6 orders).")
