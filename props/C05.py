"""C05 — serial UKF correction equals the standard additive UKF correction (DESIGN.md §5 C05)."""
import math
import re
import numpy as np
from vlib import caseio, gen

ID = "C05"
COQ_TARGETS = ["C05_Extract.vo"]
EXTRACTED = "C05_model"
DRIVER = "drv_C05.ml"
HARNESS = "h_C05.cpp"
VARIANTS = {"quick": ["O1"], "thorough": ["O1", "asan"]}
MODEL_NEEDS_IMPL = True      # the model's square-root oracle is the SVD factor the implementation computed
AXIOMS_ALLOWED = []          # MathComp only: closed under the global context
REQUIRED_THEOREMS = ["C05_block_sum", "C05_serial_cov_identity", "C05_push_through", "C05_sigma_cov", "C05_cov", "C05_mean",
                     "C05_likelihood", "C05_Cinv_invertible", "C05_Pyy_invertible", "C05_step_equals_ukf",
                     "C05_reduced_eq_full", "C05_reduced_eq_full_likelihood", "C05_size_mismatch_identity"]
RULE = ("cases drawn from one seeded stream: state size n in 1..5, sub-measurement size s in 1..3, k in 1..4 blocks "
        "(meas = k*s), 15% of the cases with a measurement size that is NOT a multiple of s, components 1..3, "
        "h from a 3-member family (affine; affine + g sin(Gx); affine + g (Gx)(G2x)) with random coefficients, "
        "(alpha, beta, kappa) with c > 0 and wc_0 >= 0 (some with wc_0 ~ 0), P_i SPD with condition number <= 1e4 "
        "(10% exactly rank deficient PSD), noise blocks SPD: half of the cases with equal blocks (then both the reduced and "
        "the full constructor are run) and half with k different blocks (full constructor); output object pre-filled with "
        "unrelated content; non-trivial = k >= 2 or components >= 2 or h non-linear or size mismatch; "
        "distinct by (n, s, k, comps, h kind, equal blocks, multiple, rank deficient)")
TRUSTED_BASE = ["Coq 8.16.1 kernel (coqc); no axioms (Print Assumptions: closed under the global context)",
                "MathComp 1.15 matrix theory",
                "extraction (ExtrOcamlBasic only) and ocaml/float_ops.ml, ocaml/drv_C05.ml, ocaml/caseio.ml",
                "ListOps list instance of MatOps (structural operations and Gauss-Jordan inverse/determinant, unproved)",
                "cpp/h_C05.cpp harness (its AdditiveMeasurementModel computing the h family), tolerances: mean/covariance 1e-10*cond*scale "
                "(cond = max of cond(P_i), cond(R), cond(Pyy_i)); log-likelihood 1e-11 (impl vs model) / 1e-10 (SUKF vs UKF) times "
                "cond(I+Y^T R^-1 Y)*(1+nu^T R^-1 nu), comparisons with that factor > 1e7 excluded and counted",
                "correspondence is sampled: agreement is established on the generated cases only",
                "IEEE rounding is not modelled (theorems over an exact real field)"]
ASSUMPTIONS = ["Eigen's jacobiSvd factor A = U sqrt(s) satisfies A A^T = P for symmetric PSD P (premise of the theorems; checked on every case)",
               "std::sqrt satisfies 0 <= x -> sqrt(x)^2 = x (premise; exact in a real-closed field, up to rounding in doubles)",
               "Eigen inverse()/determinant() behave as matrix inverse/determinant up to rounding (checked against the model's Gauss-Jordan)",
               "linear state and measurement layouts (no circular / quaternion / noise rows): SUKFCorrection sizes its sigma set from dim",
               "0 < measurement_sub_size (meas_size % 0 is undefined behaviour in C++)",
               "the measurement model reports valid measurement, prediction and innovation (the validity-flag prefix is C12's subject)"]

RTOL = 1e-10     # mean / covariance: |a - b| <= RTOL * cond * scale; measured worst 2e-14 * cond * scale over 1200 cases
COUNTS = {"quick": 300, "thorough": 10000}


def ut_params(rng, n):
    """(alpha, beta, kappa) with c > 0 and wc_0 >= 0."""
    for _ in range(1000):
        alpha = rng.uniform(0.3, 1.6); beta = rng.uniform(0.0, 3.0); kappa = rng.uniform(0.0, 3.0)
        if rng.random() < 0.15:
            alpha, beta, kappa = 1.0, rng.choice([0.0, 2.0]), float(rng.randint(0, 3))
        c = alpha * alpha * (n + kappa)
        if c <= 1e-3:
            continue
        lam = c - n
        wc0 = lam / c + (1 - alpha * alpha + beta)
        if rng.random() < 0.1 and beta >= 0:
            # wc_0 close to zero from above: solve for beta
            beta2 = 1e-6 - (lam / c + 1 - alpha * alpha)
            if beta2 >= 0:
                beta = beta2
                wc0 = lam / c + (1 - alpha * alpha + beta)
        if wc0 >= 0.0:
            return alpha, beta, kappa, wc0, c
    return 1.0, 2.0, 1.0, 1.0 - n / (n + 1.0) + 2.0, n + 1.0


def h_eval(kind, H, G, G2, b, g, X):
    lin = H @ X + b
    if kind == 0:
        return lin
    if kind == 1:
        return lin + g * np.sin(G @ X)
    return lin + g * (G @ X) * (G2 @ X)


def blockdiag(blocks):
    s = blocks[0].shape[0]; k = len(blocks)
    R = np.zeros((k * s, k * s))
    for j, B in enumerate(blocks):
        R[j * s:(j + 1) * s, j * s:(j + 1) * s] = B
    return R


def generate(rng, tier):
    cases = []
    for idx in range(COUNTS[tier]):
        n = rng.randint(1, 5); s = rng.randint(1, 3); k = rng.randint(1, 4); comps = rng.randint(1, 3)
        kind = rng.choice([0, 1, 2])
        mult = 1
        if rng.random() < 0.15:
            s = rng.randint(2, 3); mult = 0
            m = k * s + rng.randint(1, s - 1)
        else:
            m = k * s
        alpha, beta, kappa, wc0, cc = ut_params(rng, n)
        negwc = 0
        if mult and rng.random() < 0.03:
            # outside the property's scope (wc_0 < 0): the square-root weighting of the serial form yields NaN;
            # kept as a correspondence-only case (model and implementation must agree on the NaN pattern)
            alpha, beta, kappa = rng.uniform(0.05, 0.3), 0.0, 0.0
            cc = alpha * alpha * n; wc0 = (cc - n) / cc + 1 - alpha * alpha; negwc = 1
        H = gen.matrix(rng, m, n); G = gen.matrix(rng, m, n, 0.5); G2 = gen.matrix(rng, m, n, 0.5)
        b = gen.matrix(rng, m, 1); g = gen.matrix(rng, m, 1)
        means = gen.matrix(rng, n, 1, 2.0) + gen.matrix(rng, n, comps, rng.choice([0.1, 0.3, 1.0]))
        covs, cond, rankdef = [], 1.0, 0
        for i in range(comps):
            if n >= 2 and rng.random() < 0.1:
                P = gen.psd(rng, n, n - 1, 10 ** rng.uniform(0, 2)); rankdef = 1
                cP = 1.0
            else:
                P, cP = gen.spd(rng, n, 10 ** rng.uniform(0, 4), lo=10 ** rng.uniform(-2, 0))
            covs.append(P); cond = max(cond, cP)
        equal = 1 if (rng.random() < 0.5 or mult == 0) else 0
        condR = 1.0
        if mult:
            if equal:
                B, cB = gen.spd(rng, s, 10 ** rng.uniform(0, 3), lo=10 ** rng.uniform(-2, 0))
                blocks = [B] * k; condR = cB
            else:
                blocks = []
                for j in range(k):
                    B, cB = gen.spd(rng, s, 10 ** rng.uniform(0, 3), lo=10 ** rng.uniform(-2, 0))
                    blocks.append(B)
                if k == 1:
                    equal = 1
            Rfull = blockdiag(blocks)
            condR = float(np.linalg.cond(Rfull))
        else:
            B, cB = gen.spd(rng, s, 10 ** rng.uniform(0, 3))
            blocks = [B]
            Rfull, condR = gen.spd(rng, m, 10 ** rng.uniform(0, 3))
        y = h_eval(kind, H, G, G2, b, g, means[:, [0]]) + gen.matrix(rng, m, 1, 0.7)
        w = np.array([rng.random() + 0.1 for _ in range(comps)]); w = w / w.sum()
        c = caseio.Case(idx, "sukf", {"n": n, "m": m, "s": s, "k": k, "comps": comps, "hkind": kind, "mult": mult,
                                      "equal": equal, "rankdef": rankdef, "negwc": negwc, "cond": "%.3g" % max(cond, condR),
                                      "wc0": "%.3g" % wc0})
        c.mat("H", H).mat("G", G).mat("G2", G2).mat("b", b).mat("g", g).mat("y", y)
        c.mat("Rfull", Rfull)
        if equal:
            c.mat("Rblock", blocks[0])
        c.mat("params", np.array([[alpha, beta, kappa]]))
        c.mat("means", means).mat("covs", np.hstack(covs)).mat("weights", w.reshape(-1, 1))
        c.int("s", s).int("hkind", kind)
        cases.append(c)
    return cases


def nontrivial(c):
    n, s, k, comps = int(c.meta["n"]), int(c.meta["s"]), int(c.meta["k"]), int(c.meta["comps"])
    kind, mult = int(c.meta["hkind"]), int(c.meta["mult"])
    if k >= 2 or comps >= 2 or kind != 0 or mult == 0:
        return (n, s, k, comps, kind, str(c.meta["equal"]), mult, str(c.meta["rankdef"]), str(c.meta.get("negwc", "0")))
    return None


def prefixes(c):
    return (["r_"] if c.has("Rblock") else []) + ["f_"]


def case_cond(c, model):
    """conditioning of the case: generator's (P, R) and the innovation covariance the spec computed."""
    cond = float(c.meta["cond"])
    if model is not None:
        for i in range(int(c.meta["comps"])):
            S = model.get("u_Pyy%d" % i)
            if S is not None and np.all(np.isfinite(S)):
                cond = max(cond, float(np.linalg.cond(S)))
    return cond


def lik_scale(c, model, i):
    """conditioning of the UVR likelihood of component i: cond(I + Y^T R^-1 Y) * (1 + nu^T R^-1 nu): the quadratic form
    nu^T R^-1 (I - Y C Y^T R^-1) nu cancels from magnitude nu^T R^-1 nu, through the inverse of C^-1."""
    if model is None or model.get("f_Y%d" % i) is None:
        return LIK_SCALE_MAX          # no model output: the loosest tolerance that is still accepted
    Y, nu, R = model.get("f_Y%d" % i), model.get("f_innov%d" % i), c.get("Rfull")
    if not (np.all(np.isfinite(Y)) and np.all(np.isfinite(nu))):
        return LIK_SCALE_MAX
    Ri = np.linalg.inv(R)
    C = np.eye(Y.shape[1]) + Y.T @ Ri @ Y
    return float(np.linalg.cond(C)) * (1.0 + float((nu.T @ Ri @ nu)[0, 0]))


EXCLUDED = {"likelihood_ill_conditioned": 0}
LIK_SCALE_MAX = 1e7      # beyond this the likelihood comparison is excluded (and counted): the tolerance would exceed 1e-3 in the log
LIK_RTOL_MODEL, LIK_RTOL_UKF = 1e-11, 1e-10    # measured: |log a - log b| <= 2e-14 * lik_scale over 1200 cases


def lik_close(a, b, tol):
    """log-domain comparison of two likelihood values"""
    if a is None or b is None:
        return False
    a, b = float(a), float(b)
    if a == b or (math.isnan(a) and math.isnan(b)):
        return True
    if not (a > 0 and b > 0):
        return max(a, b) < 1e-290 and min(a, b) >= 0     # one of them underflowed
    return abs(math.log(a) - math.log(b)) <= tol


def pscale(c):
    return max(1.0, float(np.max(np.abs(c.get("covs")))), float(np.max(np.abs(c.get("means")))))


def compare(c, impl, model):
    cond = case_cond(c, model)
    comps = int(c.meta["comps"])
    d = caseio.compare_fields(impl, model, ["wm", "wc", "c"], atol=1e-15, rtol=1e-14)
    fields, liks = [], []
    for pre in prefixes(c):
        fields += [pre + "components", pre + "lik_valid", pre + "weights"]
        if int(c.meta["mult"]) and int(c.meta["s"]) >= 2:
            fields += [pre + "2_lik_valid", pre + "2_out_equals_pred"]
        for i in range(comps):
            fields += [pre + "mean%d" % i, pre + "cov%d" % i]
            if int(c.meta["mult"]):
                liks.append(pre + "lik%d" % i)
    for i in range(comps):
        fields += ["u_mean%d" % i, "u_cov%d" % i]
        liks.append("u_lik%d" % i)
    d += caseio.compare_fields(impl, model, fields, atol=1e-12, rtol=RTOL, scale=cond * pscale(c))
    for f in liks:
        i = int(re.search(r"(\d+)$", f).group(1))
        ls = lik_scale(c, model, i)
        if ls > LIK_SCALE_MAX:
            EXCLUDED["likelihood_ill_conditioned"] += 1
            continue
        a, b = impl.get(f), model.get(f)
        if not lik_close(a, b, LIK_RTOL_MODEL * ls):
            d.append("%s: impl=%r model=%r (log tol %.3g)" % (f, a, b, LIK_RTOL_MODEL * ls))
    return d


def oracle(c, impl, model):
    """The property clauses evaluated on the implementation's output."""
    v = []
    n, comps, mult = int(c.meta["n"]), int(c.meta["comps"]), int(c.meta["mult"])
    cond = case_cond(c, model)
    covs, means, w = c.get("covs"), c.get("means"), c.get("weights")
    # oracle contract: the SVD factor is a square root of the covariance
    for i in range(comps):
        P = covs[:, i * n:(i + 1) * n]; A = impl.get("A%d" % i)
        tolA = 1e-12 * max(1.0, float(np.max(np.abs(P)))) * n
        if A is None or not caseio.close(A @ A.T, P, tolA, 0):
            v.append(("C05:oracle-contract:svd-sqrt", "component %d: |A A^T - P| = %.3g" % (i, caseio.maxdiff(A @ A.T, P) if A is not None else math.nan)))
    for pre in prefixes(c):
        flag = "reduced" if pre == "r_" else "full"
        if impl.get(pre + "pred_unchanged") != 1:
            v.append(("C05:prior-modified:%s" % flag, "the predicted belief passed in was modified"))
        if str(c.meta.get("negwc", "0")) == "1":
            continue          # wc_0 < 0: outside the property (the serial form needs sqrt(wc)); correspondence only
        if not mult:
            # size mismatch: output = input exactly, no likelihood
            if impl.get(pre + "out_equals_pred") != 1:
                v.append(("C05:size-mismatch-not-identity:%s" % flag, "meas=%s sub=%s: output differs from the predicted belief" % (c.meta["m"], c.meta["s"])))
            if impl.get(pre + "lik_valid") != 0:
                v.append(("C05:size-mismatch-likelihood:%s" % flag, "a likelihood was reported although no step was performed"))
            continue
        if impl.get(pre + "components") != comps or impl.get(pre + "dim") != n:
            v.append(("C05:shape:%s" % flag, "components/dim %s/%s for %d/%d" % (impl.get(pre + "components"), impl.get(pre + "dim"), comps, n)))
            continue
        if int(c.meta["s"]) >= 2:
            # second step on the same object, measurement size m+1: identity, and the first step's likelihood must not survive
            if impl.get(pre + "2_out_equals_pred") != 1:
                v.append(("C05:size-mismatch-not-identity:second-step:%s" % flag, "second step with meas=%d sub=%s: output differs from the predicted belief" % (int(c.meta["m"]) + 1, c.meta["s"])))
            if impl.get(pre + "2_lik_valid") != 0:
                v.append(("C05:stale-likelihood-after-size-mismatch:%s" % flag, "getLikelihood() reports the previous step's values after a step that returned early"))
        if impl.get(pre + "lik_valid") != 1 or impl.get(pre + "lik_size") != comps:
            v.append(("C05:likelihood-missing:%s" % flag, "likelihood not reported for every component"))
        wk = impl.get(pre + "weights")
        if wk is None or not np.all(wk == 0.125):
            v.append(("C05:frame-weights:%s" % flag, "the weights of the output object were modified"))
        for i in range(comps):
            P = covs[:, i * n:(i + 1) * n]
            sm, sc_, sl = impl.get(pre + "mean%d" % i), impl.get(pre + "cov%d" % i), impl.get(pre + "lik%d" % i)
            um, uc, ul = impl.get("u_mean%d" % i), impl.get("u_cov%d" % i), impl.get("u_lik%d" % i)
            tol = RTOL * cond * pscale(c)
            if not caseio.close(sm, um, tol, 0):
                v.append(("C05:sukf-ne-ukf:mean:%s" % flag, "component %d: max diff %.3g > %.3g" % (i, caseio.maxdiff(sm, um), tol)))
            if not caseio.close(sc_, uc, tol, 0):
                v.append(("C05:sukf-ne-ukf:cov:%s" % flag, "component %d: max diff %.3g > %.3g" % (i, caseio.maxdiff(sc_, uc), tol)))
            ls = lik_scale(c, model, i)
            if ls <= LIK_SCALE_MAX and not lik_close(sl, ul, LIK_RTOL_UKF * ls):
                v.append(("C05:sukf-ne-ukf:likelihood:%s" % flag, "component %d: %r vs %r (log tol %.3g)" % (i, sl, ul, LIK_RTOL_UKF * ls)))
    if mult and c.has("Rblock") and str(c.meta.get("negwc", "0")) != "1":
        for i in range(comps):
            tol = RTOL * cond * pscale(c)
            if not (caseio.close(impl.get("r_mean%d" % i), impl.get("f_mean%d" % i), tol, 0)
                    and caseio.close(impl.get("r_cov%d" % i), impl.get("f_cov%d" % i), tol, 0)
                    and (lik_scale(c, model, i) > LIK_SCALE_MAX
                         or lik_close(impl.get("r_lik%d" % i), impl.get("f_lik%d" % i), LIK_RTOL_UKF * lik_scale(c, model, i)))):
                v.append(("C05:reduced-ne-full", "component %d" % i))
    return v


def histogram(cases):
    def count(f):
        d = {}
        for c in cases:
            d[str(f(c))] = d.get(str(f(c)), 0) + 1
        return d
    return {"h_kind": count(lambda c: c.meta["hkind"]), "blocks_k": count(lambda c: c.meta["k"]),
            "sub_size": count(lambda c: c.meta["s"]), "state_n": count(lambda c: c.meta["n"]),
            "components": count(lambda c: c.meta["comps"]), "multiple": count(lambda c: c.meta["mult"]), "negative_wc0_out_of_scope": count(lambda c: c.meta.get("negwc", "0")),
            "equal_blocks": count(lambda c: c.meta["equal"]), "rank_deficient_P": count(lambda c: c.meta["rankdef"]),
            "cond_decade": count(lambda c: gen.decade(float(c.meta["cond"]))),
            "likelihood_comparisons_excluded_ill_conditioned": EXCLUDED["likelihood_ill_conditioned"]}


LEVEL_TEXT = ("Proof: the model of SUKFCorrection::correctStep / getLikelihood (sigma points, propagation through an arbitrary measurement "
              "function h, square-root weighting, serial accumulation of C^-1 and d over the sub-measurements with the per-block noise covariance, "
              "X C X^T update, Woodbury/UVR likelihood) is proved, for every real field, state size, number and size of blocks, h, component, "
              "SPD blocks, PSD P, c > 0 and non-negative covariance weights, to return the same mean, covariance and likelihood as the model of the "
              "additive UKFCorrection, with the reduced and the full noise-covariance constructor; a measurement size that is not a multiple of the "
              "block size returns the predicted belief unchanged. The model is tied to the code by running the extracted model and the library "
              "(SUKFCorrection both constructors, UKFCorrection) on the same generated cases.")
LEVEL_NOTE = ("Trusted: Coq kernel, MathComp, extraction + float driver, list instance of the matrix interface, harness and tolerances; rounding is not "
              "modelled; the SVD square root and std::sqrt enter through their contracts (checked at run time); scope is linear layouts; "
              "the tie to the code is sampled (300 quick / 10000 thorough cases).")
