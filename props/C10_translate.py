#!/usr/local/bin/python3-vt
"""C10_translate.py — regenerates coq/C10_AccessTable.v (the access table `current_table`)
from the C++ sources of build.REPO, through clang's JSON AST.

EVERY source file of the library (the repository's own CMake list, `build.lib_sources()`) is parsed with

    clang++ -std=c++11 -fsyntax-only -DBFL_VERIF -DEIGEN_INITIALIZE_MATRICES_BY_ZERO
            -I<repo>/src/BayesFilters/include -I/usr/include/eigen3
            -Xclang -ast-dump=json -Xclang -ast-dump-filter=bfl <file>

(filter `bfl`: every declaration of namespace bfl seen by that translation unit).  Every function
body of namespace bfl is translated: methods (out-of-line and in-class), instantiations of member
templates and of function templates, free functions.  For each body: the accesses to member data
(class-level variable `Class::field`), to what a pointer / smart pointer / reference member designates
(`Class::field.*`) and to non-local variables (`global::name`), each classified read / write and
protected by  Mutex m  (inside the scope of a std::lock_guard / std::unique_lock on member m, until
an explicit unlock),  Atomic  (the type is std::atomic<..>, std::mutex, std::condition_variable, a
bfl class ALL of whose data members are such types, or the object is std::cout/cerr/clog) or  Plain;
the calls; thread creation (std::thread(&C::m, this)) and join.

Reachability is computed from the control/query API (CTL_ROOTS, thread Ctl) and from the thread body
(the method given to std::thread, plus FLT_ASSUMED_ROOTS, thread Flt); a call C::m is resolved to every
body named m of C, of its ancestors and of its descendants.

FAIL CLOSED.  Becomes a Plain write to the variable `Unknown` (which the Coq checker treats as
aliasing every variable):  a statement/expression kind that is not in the white list; a lock object
used in a way that is not understood; `this` or a pointer to member escaping; a lambda anywhere but as
the predicate of condition_variable::wait; a call from a reachable body that does not resolve to a
translated body although the callee is declared in the repository (a declared non-pure method without
body, a member of a bfl class or class template the translator has no record of, a free function
defined at file scope of a repository file outside namespace bfl).  A member access in a context that
is not provably a read is a write.  A reference/pointer to a member that outlives the expression
(returned, bound to a local reference or pointer, address taken) is an UNPROTECTED access whatever
lock is held.

Not covered (stated in the evidence): constructors/destructors (an object under construction is not
shared), user code overriding virtual methods, the standard library and Eigen.

vlib-independent except for `build.SRC` / `build.COQ` / `build.lib_sources` (so that BFL_REPO is respected)."""
import hashlib, json, os, pickle, re, subprocess, sys, time
from concurrent.futures import ThreadPoolExecutor

sys.path.insert(0, os.path.dirname(os.path.dirname(os.path.abspath(__file__))))
from vlib import build

VERSION = "12"

# ----------------------------------------------------------------------------- configuration (explicit)
# public control / query API of the property (thread Ctl); boot and wait are the fork and the join
CTL_ROOTS = [("FilteringAlgorithm", m) for m in
             ("boot", "run", "wait", "reset", "reboot", "teardown", "step_number", "is_running")] + \
            [("GaussianFilter", "skip"), ("ParticleFilter", "skip")]

# Not part of the property's command list, analysed separately and reported (not as violations):
# the logging switches that FilteringAlgorithm inherits from Logger
EXTENDED_CTL_ROOTS = [("Logger", "enable_log"), ("Logger", "disable_log")]

# GaussianFilter::filtering_step is pure virtual and implemented by user code; per the API that code
# drives the filter through these members (SIS::filtering_step, which is translated, does the same
# for the particle filter).  They are therefore roots of the filtering thread.
FLT_ASSUMED_ROOTS = [("GaussianFilter", "prediction"), ("GaussianFilter", "correction"),
                     ("GaussianPrediction", "predict"), ("GaussianCorrection", "correct"),
                     ("GaussianCorrection", "freeze_measurements"), ("GaussianCorrection", "getLikelihood"),
                     ("FilteringAlgorithm", "step_number"), ("Logger", "logger")]

# types whose operations are synchronised by the standard library itself
SYNC_TYPE = re.compile(r"^(const )?(std::atomic<.*>|std::atomic_\w+|std::mutex|std::condition_variable)$")
SYNC_GLOBALS = {"cout", "cerr", "clog", "cin", "wcout", "wcerr", "wclog"}   # [iostream.objects.overview] p4
STREAM_TYPE = re.compile(r"^(std::)?(ostream|istream|wostream|basic_ostream<.*>|basic_istream<.*>)$")
MUTEX_TYPE = re.compile(r"^std::mutex$")
LOCK_TYPE = re.compile(r"^(std::lock_guard<std::mutex>|std::unique_lock<std::mutex>)$")
THREAD_TYPE = re.compile(r"^std::thread$")
CV_TYPE = re.compile(r"^std::condition_variable$")
SMART_PTR = re.compile(r"^(?:const )?(?:std::)?(unique_ptr|shared_ptr|weak_ptr)<(.*)>$")
# the verification hook of FilteringAlgorithm (null unless a verification harness installs it; the C10
# harness does not): `this` passed to it is not an escape
HOOK_NAMES = {"bfl_verif_hook"}

TRANSPARENT = {
    "CompoundStmt", "IfStmt", "ReturnStmt", "ExprWithCleanups", "ImplicitCastExpr", "MaterializeTemporaryExpr",
    "CXXBindTemporaryExpr", "CallExpr", "CXXMemberCallExpr", "CXXOperatorCallExpr", "CXXConstructExpr",
    "CXXTemporaryObjectExpr", "DeclStmt", "BinaryOperator", "CompoundAssignOperator", "UnaryOperator", "ParenExpr",
    "ForStmt", "WhileStmt", "DoStmt", "CXXForRangeStmt", "CXXTryStmt", "CXXCatchStmt", "CXXThrowExpr",
    "CXXFunctionalCastExpr", "CXXStaticCastExpr", "CStyleCastExpr", "CXXConstCastExpr", "CXXReinterpretCastExpr",
    "CXXDynamicCastExpr", "ConditionalOperator", "IntegerLiteral", "FloatingLiteral", "StringLiteral",
    "CXXBoolLiteralExpr", "CXXNullPtrLiteralExpr", "CharacterLiteral", "DeclRefExpr", "MemberExpr", "CXXThisExpr",
    "NullStmt", "BreakStmt", "ContinueStmt", "InitListExpr", "CXXStdInitializerListExpr", "CXXDefaultArgExpr",
    "ArraySubscriptExpr", "ConstantExpr", "SubstNonTypeTemplateParmExpr", "CXXNewExpr", "CXXDeleteExpr",
    "UnaryExprOrTypeTraitExpr", "ImplicitValueInitExpr", "CXXScalarValueInitExpr", "LambdaExpr", "VarDecl",
    "CXXDefaultInitExpr", "OpaqueValueExpr", "SwitchStmt", "CaseStmt", "DefaultStmt", "CXXNoexceptExpr",
    "TypeTraitExpr", "PredefinedExpr", "GNUNullExpr", "CXXPseudoDestructorExpr", "BinaryConditionalOperator",
    "TypedefDecl", "TypeAliasDecl", "UsingDecl", "UsingDirectiveDecl", "StaticAssertDecl",
    "UserDefinedLiteral", "ArrayInitLoopExpr", "ArrayInitIndexExpr", "SizeOfPackExpr", "ExpressionTraitExpr",
    "CXXInheritedCtorInitExpr", "FullExpr", "NoInitExpr", "ParenListExpr", "CXXTypeidExpr", "PackExpansionExpr_NOT",
}
TRANSPARENT.discard("PackExpansionExpr_NOT")
ATTR = re.compile(r".*Attr$")
ASSIGN_OPS = {"=", "+=", "-=", "*=", "/=", "%=", "&=", "|=", "^=", "<<=", ">>="}
PASS_THROUGH = {"ParenExpr", "ExprWithCleanups", "MaterializeTemporaryExpr", "CXXBindTemporaryExpr", "ConstantExpr",
                "CXXStaticCastExpr", "CXXConstCastExpr", "CXXReinterpretCastExpr", "CStyleCastExpr", "CXXFunctionalCastExpr",
                "CXXDynamicCastExpr", "SubstNonTypeTemplateParmExpr", "FullExpr"}
FREE = "(free)"      # pseudo class of free functions of namespace bfl


# ----------------------------------------------------------------------------- clang

def clang_cmd(src):
    inc = os.path.join(build.SRC, "include")
    return ["clang++", "-std=c++11", "-fsyntax-only", "-w", "-DBFL_VERIF", "-DEIGEN_INITIALIZE_MATRICES_BY_ZERO",
            "-I" + inc, "-I/usr/include/eigen3", "-Xclang", "-ast-dump=json", "-Xclang", "-ast-dump-filter=bfl", src]


def parse_objects(txt):
    dec = json.JSONDecoder()
    i, n, objs = 0, len(txt), []
    while i < n:
        while i < n and txt[i] in " \r\n\t":
            i += 1
        if i >= n:
            break
        if txt[i] != "{":
            j = txt.find("\n", i)
            i = n if j < 0 else j + 1
            continue
        o, i = dec.raw_decode(txt, i)
        objs.append(o)
    return objs


def strip_type(t):
    t = t.strip()
    changed = True
    while changed:
        changed = False
        for p in ("const ", "volatile ", "class ", "struct ", "typename "):
            if t.startswith(p):
                t = t[len(p):]; changed = True
    t = re.sub(r"(\s*(\*|&|&&|const|volatile))+\s*$", "", t)
    if t.startswith("bfl::"):
        t = t[5:]
    return t.strip()


def qual(n):
    return (n.get("type") or {}).get("qualType", "")


def desugared(n):
    t = n.get("type") or {}
    return t.get("desugaredQualType", t.get("qualType", ""))


def norm_std(t):
    t = t.strip()
    t = re.sub(r"^const ", "", t)
    return t


def is_pointer_type(t):
    return bool(re.search(r"\*\s*(const|volatile|\s)*$", t.strip()))


def first_template_arg(s):
    depth = 0
    for i, ch in enumerate(s):
        if ch in "<(":
            depth += 1
        elif ch in ">)":
            depth -= 1
        elif ch == "," and depth == 0:
            return s[:i].strip()
    return s.strip()


def pointer_kind(t):
    """('val'|'ref'|'ptr'|'smart', pointee type or None) of a data member's declared type."""
    t = t.strip()
    if t.endswith("&"):
        return "ref", t.rstrip("&").strip()
    if is_pointer_type(t):
        return "ptr", re.sub(r"\*\s*(const|volatile|\s)*$", "", t).strip()
    m = SMART_PTR.match(t)
    if m:
        return "smart", first_template_arg(m.group(2))
    return "val", None


# ----------------------------------------------------------------------------- repository-level scan: free functions at file scope

def strip_cpp_text(txt):
    """comments and string/char literals blanked"""
    out, i, n = [], 0, len(txt)
    while i < n:
        c = txt[i]
        if txt.startswith("//", i):
            j = txt.find("\n", i); j = n if j < 0 else j
            i = j
        elif txt.startswith("/*", i):
            j = txt.find("*/", i + 2); j = n if j < 0 else j + 2
            out.append(" " * 1); i = j
        elif c in "\"'":
            j = i + 1
            while j < n and txt[j] != c:
                j += 2 if txt[j] == "\\" else 1
            out.append(c + c); i = j + 1
        else:
            out.append(c); i += 1
    return "".join(out)


def file_scope_functions(path):
    """Names that are followed by `(` at namespace scope (outside every class / function body) of a repository
    file and are not qualified (`X::name(` is a member definition): free functions defined or declared there."""
    txt = strip_cpp_text(open(path, errors="replace").read())
    txt = re.sub(r"^\s*#.*?$", "", txt, flags=re.M)
    names, stack, i, n = set(), [], 0, len(txt)     # stack: namespace name ("" anonymous / extern "C") or None (other brace)
    last_stmt = 0
    while i < n:
        c = txt[i]
        if c == "{":
            head = txt[last_stmt:i]
            mns = re.search(r"\bnamespace\b\s*([A-Za-z_0-9:]*)\s*$", head)
            if mns:
                stack.append(mns.group(1))
            elif re.search(r"\bextern\s*\"\"\s*$", head):
                stack.append("")
            else:
                stack.append(None)
            last_stmt = i + 1
        elif c == "}":
            if stack:
                stack.pop()
            last_stmt = i + 1
        elif c == ";":
            last_stmt = i + 1
        elif c == "(" and all(x is not None for x in stack) and not any(x.split("::")[0] == "bfl" for x in stack if x):
            m = re.search(r"([A-Za-z_~][A-Za-z_0-9]*)\s*$", txt[last_stmt:i])
            if m:
                name = m.group(1)
                before = txt[last_stmt:last_stmt + m.start()].rstrip()
                if not before.endswith("::") and not before.endswith(".") and not before.endswith("->") and \
                   name not in ("if", "while", "for", "switch", "return", "sizeof", "decltype", "alignas", "noexcept", "operator",
                                "static_assert", "defined", "throw", "catch", "__attribute__", "alignof", "typeid"):
                    names.add(name)
            # skip the parenthesised part
            depth, j = 0, i
            while j < n:
                if txt[j] == "(":
                    depth += 1
                elif txt[j] == ")":
                    depth -= 1
                    if depth == 0:
                        break
                j += 1
            i = j
        i += 1
    return names


def repo_file_scope_functions():
    out = {}
    dirs = [os.path.join(build.SRC, "src"), os.path.join(build.SRC, "include", "BayesFilters")]
    for d in dirs:
        for fn in sorted(os.listdir(d)):
            if fn.endswith((".cpp", ".h", ".hpp")):
                for name in file_scope_functions(os.path.join(d, fn)):
                    out.setdefault(name, []).append(fn)
    return out


# ----------------------------------------------------------------------------- one translation unit

class TU:
    """One translation unit: class hierarchy, id maps, bodies."""

    def __init__(self, src, objs):
        self.src = src
        self.records = {}       # class name -> {"bases": [...], "fields": {name: type}, "methods": {name: [info]}}
        self.method_by_id = {}  # id -> (class, name)      (class FREE for free functions)
        self.method_info = {}   # id -> dict(virtual, pure, type, defaulted, implicit)
        self.field_by_id = {}   # id -> (class, field name, type, desugared)
        self.record_ids = {}    # record id -> class name
        self.bodies = {}        # (class, name, type) -> node of the definition
        self.ctors = []         # (class, CXXConstructorDecl node with a body / initialisers)
        self.loc = {"file": None, "line": None}
        self.seen = set()
        for o in objs:
            self.annotate(o)
        for o in objs:
            self.collect(o, None)

    def sync_type(self, t, depth=0):
        """std::atomic / mutex / condition_variable, or a class of namespace bfl ALL of whose data members
        (and bases) are of such types: every access to its state is then an atomic operation."""
        t = norm_std(t)
        if SYNC_TYPE.match(t):
            return True
        c = strip_type(t)
        r = self.records.get(c)
        if r is None or depth > 3 or not r["fields"]:
            return False
        return all(self.sync_type(ft, depth + 1) for ft in r["fields"].values()) and \
            all(self.sync_type(b, depth + 1) or (b in self.records and not self.records[b]["fields"] and not self.records[b]["bases"]) for b in r["bases"])

    # ---- source locations: clang prints file/line only when they change (in document order)
    def bare(self, d):
        if "file" in d:
            self.loc["file"] = d["file"]
        if "line" in d:
            self.loc["line"] = d["line"]
        return (self.loc["file"], self.loc["line"])

    def sloc(self, d):
        if not isinstance(d, dict) or not d:
            return None
        if "spellingLoc" in d or "expansionLoc" in d:
            r = None
            for k, v in d.items():
                if k == "spellingLoc":
                    self.bare(v)
                elif k == "expansionLoc":
                    r = self.bare(v)
            return r
        return self.bare(d)

    def annotate(self, n):
        if not isinstance(n, dict):
            return
        if "loc" in n:
            l = self.sloc(n["loc"])
            if l:
                n["_lfile"] = l[0]
        if "range" in n:
            b = self.sloc(n["range"].get("begin"))
            self.sloc(n["range"].get("end"))
            if b:
                n["_file"], n["_line"] = b
        for c in n.get("inner", []):
            self.annotate(c)

    # ---- declarations
    @staticmethod
    def has_body(n):
        return any(x.get("kind") == "CompoundStmt" for x in n.get("inner", []))

    def add_method(self, cls, c, body_ok=True):
        name = c.get("name")
        self.method_by_id[c["id"]] = (cls, name)
        info = {"virtual": bool(c.get("virtual")), "pure": bool(c.get("pure")), "type": qual(c),
                "defaulted": c.get("explicitlyDefaulted"), "implicit": bool(c.get("isImplicit"))}
        self.method_info[c["id"]] = info
        if cls in self.records:
            lst = self.records[cls]["methods"].setdefault(name, [])
            if info not in lst:
                lst.append(info)
        if body_ok and self.has_body(c) and not info["implicit"] and not info["defaulted"]:
            self.bodies[(cls, name, qual(c))] = c

    def add_template(self, cls, t):
        """FunctionTemplateDecl: first function = the (dependent) pattern, the others = instantiations."""
        for c in t.get("inner", []):
            if c.get("kind") in ("CXXMethodDecl", "CXXConversionDecl", "FunctionDecl"):
                inst = any(x.get("kind") == "TemplateArgument" for x in c.get("inner", []))
                owner = cls
                if owner is None:
                    owner = self.record_ids.get(c.get("parentDeclContextId")) or FREE
                    prev = self.method_by_id.get(c.get("previousDecl"))
                    if prev:
                        owner = prev[0]
                self.add_method(owner, c, body_ok=inst)
                if not inst and owner in self.records:
                    self.records[owner].setdefault("templates", set()).add(c.get("name"))

    def collect(self, n, cls):
        if not isinstance(n, dict):
            return
        k = n.get("kind")
        if n.get("id") in self.seen and k not in ("NamespaceDecl",):
            return
        if k in ("NamespaceDecl", "LinkageSpecDecl"):
            for c in n.get("inner", []):
                self.collect(c, None)
            return
        if k == "ClassTemplateDecl":
            self.seen.add(n.get("id"))
            first = True
            for c in n.get("inner", []):
                if c.get("kind") == "CXXRecordDecl" and first:
                    first = False
                    self.record_ids[c.get("id")] = c.get("name")
                    if c.get("completeDefinition") and c.get("name"):
                        # the dependent pattern: remember the class, its fields and method names, never its bodies
                        rec = self.records.setdefault(c["name"], {"bases": [], "fields": {}, "methods": {}})
                        rec["pattern"] = True
                        for x in c.get("inner", []):
                            if x.get("kind") == "FieldDecl":
                                self.field_by_id[x["id"]] = (c["name"], x.get("name"), qual(x), desugared(x))
                                rec["fields"][x.get("name")] = qual(x)
                            elif x.get("kind") in ("CXXMethodDecl", "CXXConversionDecl"):
                                self.add_method(c["name"], x, body_ok=False)
                elif c.get("kind") in ("ClassTemplateSpecializationDecl", "ClassTemplatePartialSpecializationDecl"):
                    self.collect_record(c)
            return
        if k in ("CXXRecordDecl", "ClassTemplateSpecializationDecl"):
            return self.collect_record(n)
        if k == "FunctionTemplateDecl":
            self.seen.add(n.get("id"))
            return self.add_template(cls, n)
        if k in ("CXXMethodDecl", "CXXConversionDecl") and n.get("previousDecl"):
            self.seen.add(n["id"])
            owner = self.record_ids.get(n.get("parentDeclContextId"))
            prev = self.method_by_id.get(n.get("previousDecl"))
            if prev:
                owner = prev[0]
            if owner:
                self.method_by_id[n["id"]] = (owner, n.get("name"))
                if self.has_body(n):
                    self.bodies[(owner, n.get("name"), qual(n))] = n
            return
        if k == "FunctionDecl":
            self.seen.add(n["id"])
            self.add_method(FREE, n)
            return
        if k == "CXXConstructorDecl" and self.has_body(n):
            self.seen.add(n["id"])
            owner = self.record_ids.get(n.get("parentDeclContextId"))
            if owner:
                self.ctors.append((owner, n))
            return

    def collect_record(self, n):
        if n.get("id") in self.seen:
            return
        self.seen.add(n.get("id"))
        name = n.get("name")
        if not name:
            return
        self.record_ids[n["id"]] = name
        if not n.get("completeDefinition"):
            return
        rec = self.records.setdefault(name, {"bases": [], "fields": {}, "methods": {}})
        rec["bases"] = sorted(set(rec["bases"]) | set(strip_type(b["type"]["qualType"]) for b in n.get("bases", [])))
        for c in n.get("inner", []):
            ck = c.get("kind")
            if ck == "FieldDecl":
                self.field_by_id[c["id"]] = (name, c.get("name"), qual(c), desugared(c))
                rec["fields"][c.get("name")] = qual(c)
            elif ck == "VarDecl" and not c.get("constexpr") and not qual(c).startswith("const "):
                rec["fields"]["static " + str(c.get("name"))] = qual(c)   # static data member
            elif ck in ("CXXMethodDecl", "CXXConversionDecl"):
                self.add_method(name, c)
            elif ck == "CXXConstructorDecl" and self.has_body(c) and not c.get("isImplicit"):
                self.ctors.append((name, c))
            elif ck == "FunctionTemplateDecl":
                self.add_template(name, c)
            elif ck in ("CXXRecordDecl", "ClassTemplateSpecializationDecl"):
                self.collect_record(c)
            elif ck == "ClassTemplateDecl":
                self.collect(c, name)


# ----------------------------------------------------------------------------- one function body

class Body:
    def __init__(self, tu, cls, name, node, repo_free, lambda_node=False, closures_only=False):
        self.tu, self.cls, self.name = tu, cls, name
        self.repo_free = repo_free
        self.closures = []    # ((class, "(closure) field"), Body)
        self.no_lock = False
        self.record = not closures_only
        self.accesses = []    # (var or None for Unknown, "Rd"/"Wr", prot, site, note)
        self.calls = []       # (class, method)
        self.callsites = []   # (site, (class, method))
        self.forks = []       # (class, method)
        self.joins = 0
        self.notes = []
        self.locks = []       # dicts: id, mutex, depth (compound depth of the declaration), loops, active
        self.depth = 0
        self.loops = 0
        self.locals = set()
        self.lockvars = {}
        self.lambda_lock = None
        self.collect_locals(node)
        self.first_site = self.site(node)
        for c in node.get("inner", []):
            if c.get("kind") == "CompoundStmt":
                self.visit(c, [node] if lambda_node else [])
            elif c.get("kind") == "CXXCtorInitializer" and closures_only:
                for x in c.get("inner", []):
                    self.visit(x, [c])

    def collect_locals(self, n):
        if not isinstance(n, dict):
            return
        if n.get("kind") in ("ParmVarDecl", "BindingDecl"):
            self.locals.add(n.get("id"))
        if n.get("kind") == "VarDecl" and n.get("storageClass") not in ("static", "extern") and not n.get("tls"):
            self.locals.add(n.get("id"))
        for c in n.get("inner", []):
            self.collect_locals(c)

    # ---- output
    def site(self, n, chain=()):
        f, l = n.get("_file"), n.get("_line")
        if l is None:
            for p in reversed(chain):
                if p.get("_line") is not None:
                    f, l = p.get("_file"), p.get("_line")
                    break
        return "%s:%s" % (os.path.basename(f) if f else "?", l if l is not None else "?")

    def prot(self, sync, escaped=False):
        if sync:
            return "Atomic"
        if escaped or self.no_lock:
            return "Plain"
        held = [l for l in self.locks if l["active"]]
        if self.lambda_lock:
            return "Mutex " + self.lambda_lock
        if held:
            return "Mutex " + held[0]["mutex"]
        return "Plain"

    def access(self, var, rw, sync, n, chain, note="", escaped=False):
        if not self.record:
            return
        a = (var, rw, self.prot(sync, escaped), self.site(n, chain), note)
        if a not in self.accesses:
            self.accesses.append(a)

    def unknown(self, n, why, chain=()):
        if not self.record:
            return
        self.notes.append("%s::%s %s: %s" % (self.cls, self.name, self.site(n, chain), why))
        self.accesses.append((None, "Wr", "Plain", self.site(n, chain), why))

    # ---- helpers
    @staticmethod
    def skip_casts(n):
        while isinstance(n, dict) and n.get("kind") in ("ImplicitCastExpr", "ParenExpr", "MaterializeTemporaryExpr",
                                                         "CXXBindTemporaryExpr", "ExprWithCleanups"):
            inner = n.get("inner", [])
            if len(inner) != 1:
                break
            n = inner[0]
        return n

    def is_field_member(self, n):
        return n.get("kind") == "MemberExpr" and n.get("referencedMemberDecl") in self.tu.field_by_id

    @staticmethod
    def is_const_type(n):
        return qual(n).startswith("const ")

    @staticmethod
    def idx_in(p, cur):
        return next((i for i, c in enumerate(p.get("inner", [])) if c is cur), -1)

    @staticmethod
    def is_method_member(p):
        return p.get("kind") == "MemberExpr" and qual(p) == "<bound member function type>"

    @staticmethod
    def callee_name(call):
        """name of the function an operator call / call expression invokes"""
        inner = call.get("inner", [])
        if not inner:
            return None
        c = Body.skip_casts(inner[0])
        if c.get("kind") == "DeclRefExpr":
            return (c.get("referencedDecl") or {}).get("name")
        if c.get("kind") == "MemberExpr":
            return c.get("name")
        return None

    def bfl_class(self, t):
        c = strip_type(t)
        c = re.sub(r"<.*>$", "", c)
        c = c.split("::")[-1] if c else c
        return c if c in self.tu.records else None

    # ---- does the designated object (an lvalue, or a pointer value) outlive the expression?
    def escapes(self, cur, anc):
        i = len(anc) - 1
        while i >= 0:
            p = anc[i]
            k = p.get("kind")
            idx = self.idx_in(p, cur)
            if cur.get("valueCategory") == "prvalue" and not is_pointer_type(qual(cur)) and cur.get("kind") not in ("CXXThisExpr",):
                return False          # a value: nothing designates the member any more
            if k == "ImplicitCastExpr":
                if p.get("castKind") == "LValueToRValue" and not is_pointer_type(qual(p)):
                    return False
                cur = p; i -= 1; continue
            if k in PASS_THROUGH:
                cur = p; i -= 1; continue
            if k == "MemberExpr":
                if not self.is_method_member(p):
                    if p.get("isArrow") and is_pointer_type(qual(cur)):
                        return False  # the pointee is designated from here on (handled by pointee_access)
                    cur = p; i -= 1; continue
                call = anc[i - 1] if i >= 1 else {}
                if call.get("kind") == "CXXMemberCallExpr" and call.get("inner", [None])[0] is p:
                    if call.get("valueCategory") in ("lvalue", "xvalue") or is_pointer_type(qual(call)):
                        cur = call; i -= 2; continue
                return False
            if k == "UnaryOperator":
                op = p.get("opcode")
                if op == "&":
                    cur = p; i -= 1; continue
                if op == "*":
                    return False      # pointee from here on
                if op in ("++", "--") and p.get("valueCategory") == "lvalue":
                    cur = p; i -= 1; continue
                return False
            if k == "ArraySubscriptExpr":
                if idx != 0 or is_pointer_type(qual(cur)):
                    return False
                cur = p; i -= 1; continue
            if k in ("ConditionalOperator", "BinaryConditionalOperator"):
                if idx == 0:
                    return False
                cur = p; i -= 1; continue
            if k in ("BinaryOperator", "CompoundAssignOperator"):
                op = p.get("opcode")
                if op == "," and idx == 1:
                    cur = p; i -= 1; continue
                if op in ASSIGN_OPS:
                    if idx == 1:
                        return is_pointer_type(qual(cur))     # a pointer stored somewhere else
                    if p.get("valueCategory") == "lvalue":
                        cur = p; i -= 1; continue
                return False
            if k == "CXXOperatorCallExpr":
                if idx == 0:
                    return False
                if self.callee_name(p) in ("operator*", "operator->"):
                    return False      # pointee from here on
                if p.get("valueCategory") in ("lvalue", "xvalue") or is_pointer_type(qual(p)):
                    cur = p; i -= 1; continue
                return False
            if k in ("CallExpr", "CXXMemberCallExpr", "CXXConstructExpr", "CXXTemporaryObjectExpr", "CXXNewExpr"):
                return False          # used during the call
            if k in ("CompoundStmt", "IfStmt", "WhileStmt", "DoStmt", "ForStmt", "SwitchStmt", "CaseStmt", "DefaultStmt",
                     "CXXForRangeStmt", "CXXThrowExpr", "NullStmt"):
                return False
            if k in ("ReturnStmt", "VarDecl", "InitListExpr", "LambdaExpr", "DeclStmt"):
                return True
            return True
        return False

    def classify(self, node, chain):
        """(rw, note, escaped).  `chain` = ancestors of node (outermost first).  Anything not provably a read is a
        write; `escaped` = a reference / pointer to the object outlives the expression."""
        cur = node
        i = len(chain) - 1
        while i >= 0:
            p = chain[i]
            anc = chain[:i + 1]
            k = p.get("kind")
            idx = self.idx_in(p, cur)
            if k == "ImplicitCastExpr":
                ck = p.get("castKind")
                if ck == "LValueToRValue":
                    return "Rd", "", False
                if ck in ("NoOp", "UncheckedDerivedToBase", "DerivedToBase"):
                    if self.is_const_type(p):
                        return "Rd", "", self.escapes(cur, anc)
                    cur = p; i -= 1; continue
                if ck in ("ArrayToPointerDecay",):
                    return "Wr", "array decays to a pointer", True
                return "Wr", "cast " + str(ck), self.escapes(cur, anc)
            if k in PASS_THROUGH or (k == "ArraySubscriptExpr" and idx == 0):
                if k in ("CXXConstCastExpr", "CXXReinterpretCastExpr", "CStyleCastExpr"):
                    return "Wr", k, self.escapes(cur, anc)
                cur = p; i -= 1; continue
            if k == "ArraySubscriptExpr":
                return "Rd", "", False
            if k == "MemberExpr":
                if not self.is_method_member(p):
                    cur = p; i -= 1; continue          # sub-object: context of the outer expression decides
                esc = self.escapes(cur, anc)
                if self.is_const_type(cur):
                    return "Rd", "", esc
                return "Wr", "non-const method " + str(p.get("name")), esc
            if k in ("BinaryOperator", "CompoundAssignOperator"):
                op = p.get("opcode")
                if op in ASSIGN_OPS:
                    return ("Wr", "", self.escapes(cur, anc)) if idx == 0 else ("Rd", "", self.escapes(cur, anc))
                if op == ",":
                    if idx == 0:
                        return "Rd", "", False
                    cur = p; i -= 1; continue
                if op in (".*", "->*"):
                    return "Wr", "pointer to member", True
                return "Rd", "", False
            if k == "UnaryOperator":
                op = p.get("opcode")
                if op in ("++", "--"):
                    return "Wr", "", self.escapes(cur, anc)
                if op == "&":
                    return "Wr", "address taken", True
                if op == "*":
                    cur = p; i -= 1; continue
                return "Rd", "", False
            if k in ("CompoundStmt", "IfStmt", "WhileStmt", "DoStmt", "ForStmt", "SwitchStmt", "CaseStmt", "DefaultStmt", "CXXForRangeStmt"):
                return "Rd", "", False   # value discarded / condition
            if k == "CXXOperatorCallExpr":
                if idx == 0:
                    return "Rd", "", False
                return "Wr", "non-const operand of an overloaded operator", self.escapes(cur, anc)
            if k in ("CallExpr", "CXXMemberCallExpr", "CXXConstructExpr", "CXXTemporaryObjectExpr", "CXXNewExpr"):
                return "Wr", "bound to a non-const reference parameter", False
            if k == "ReturnStmt":
                return "Wr", "reference returned", True
            if k == "VarDecl":
                return "Wr", "bound to a local reference", True
            if k in ("ConditionalOperator", "BinaryConditionalOperator"):
                if idx == 0:
                    return "Rd", "", False
                cur = p; i -= 1; continue
            return "Wr", "context " + str(k), True
        return "Rd", "", False

    # ---- what a pointer / smart pointer / reference member designates
    def pointee_access(self, n, chain, var, kind, pointee_t):
        """n: MemberExpr of a pointer-like member.  Emits accesses to the pseudo-variable `var.*`."""
        if self.bfl_class(pointee_t):
            return          # the object is accounted for by the class-level variables of its own class
        const_pointee = pointee_t.strip().startswith("const ")
        sync = self.tu.sync_type(pointee_t)
        pv = var + ".*"
        if kind == "ref":
            rw, note, esc = self.classify(n, chain)
            self.access(pv, rw, sync, n, chain, "through the reference member" + (": " + note if note else ""), esc)
            return
        cur = n
        i = len(chain) - 1
        while i >= 0:
            p = chain[i]
            k = p.get("kind")
            idx = self.idx_in(p, cur)
            if k == "ImplicitCastExpr" or k in PASS_THROUGH:
                cur = p; i -= 1; continue
            D = None
            if k == "UnaryOperator" and p.get("opcode") == "*":
                D, above = p, chain[:i]
            elif k == "ArraySubscriptExpr" and idx == 0:
                D, above = p, chain[:i]
            elif k == "MemberExpr" and p.get("isArrow") and not (kind == "smart"):
                D, above = cur, chain[:i + 1]
            elif k == "CXXOperatorCallExpr" and idx == 1 and self.callee_name(p) in ("operator*", "operator->", "operator[]"):
                D, above = p, chain[:i]
            elif k == "MemberExpr" and self.is_method_member(p) and p.get("name") in ("get", "operator->", "operator*") and i >= 1 \
                    and chain[i - 1].get("kind") == "CXXMemberCallExpr":
                D, above = chain[i - 1], chain[:i - 1]
            if D is not None:
                rw, note, esc = self.classify(D, above)
                if const_pointee and rw == "Wr" and not note.startswith("cast"):
                    rw = "Rd"
                self.access(pv, rw, sync, n, chain, "through the pointer member" + (": " + note if note else ""), esc)
                return
            # no dereference here: a raw pointer VALUE that is copied somewhere lets the pointee be used later
            if kind == "ptr" and k in ("VarDecl", "ReturnStmt", "CallExpr", "CXXMemberCallExpr", "CXXConstructExpr",
                                       "CXXTemporaryObjectExpr", "InitListExpr", "LambdaExpr") and not const_pointee:
                self.access(pv, "Wr", sync, n, chain, "pointer value copied (%s)" % k, True)
                return
            if kind == "ptr" and k in ("BinaryOperator",) and p.get("opcode") in ASSIGN_OPS and idx == 1 and not const_pointee:
                self.access(pv, "Wr", sync, n, chain, "pointer value stored", True)
            return

    # ---- traversal
    def visit(self, n, chain):
        if not isinstance(n, dict) or not n:
            return
        k = n.get("kind")
        if k is None:
            return
        if ATTR.match(k) or k in ("ParmVarDecl",) or k.endswith("Type") or k.endswith("Comment") or k == "TemplateArgument":
            return
        if k not in TRANSPARENT:
            self.unknown(n, "AST node kind %s is not understood" % k, chain)
            return
        h = getattr(self, "v_" + k, None)
        if h:
            return h(n, chain)
        self.children(n, chain)

    def children(self, n, chain, skip=()):
        sub = chain + [n]
        for c in n.get("inner", []):
            if any(c is s for s in skip):
                continue
            self.visit(c, sub)

    def v_CompoundStmt(self, n, chain):
        self.depth += 1
        self.children(n, chain)
        self.locks = [l for l in self.locks if l["depth"] < self.depth]
        self.depth -= 1

    def loop(self, n, chain):
        self.loops += 1
        self.children(n, chain)
        self.loops -= 1
    v_ForStmt = v_WhileStmt = v_DoStmt = v_CXXForRangeStmt = loop

    def v_VarDecl(self, n, chain):
        t = qual(n)
        if n.get("storageClass") == "static" or n.get("tls"):
            self.access("static::%s::%s::%s" % (self.cls, self.name, n.get("name")), "Wr", False, n, chain, "static local")
        if LOCK_TYPE.match(norm_std(t)) or LOCK_TYPE.match(norm_std(desugared(n))):
            return self.lock_decl(n, chain)
        if re.search(r"\b(lock_guard|unique_lock|scoped_lock|shared_lock)\b", t):
            self.unknown(n, "lock object of type %s is not understood" % t, chain)
        self.children(n, chain)

    def lock_decl(self, n, chain):
        ok = len(chain) >= 2 and chain[-1].get("kind") == "DeclStmt" and chain[-2].get("kind") == "CompoundStmt"
        inner = [c for c in n.get("inner", []) if not ATTR.match(c.get("kind", ""))]
        mutex = None
        if ok and len(inner) == 1 and self.skip_casts(inner[0]).get("kind") == "CXXConstructExpr":
            args = self.skip_casts(inner[0]).get("inner", [])
            if len(args) == 1:
                a = self.skip_casts(args[0])
                if self.is_field_member(a) and self.skip_casts(a.get("inner", [{}])[0]).get("kind") == "CXXThisExpr":
                    fc, fn, ft, fd = self.tu.field_by_id[a["referencedMemberDecl"]]
                    if MUTEX_TYPE.match(norm_std(ft)):
                        mutex = "%s::%s" % (fc, fn)
                        self.access(mutex, "Wr", True, a, chain + [n], "lock")
        if mutex is None:
            self.unknown(n, "lock declaration of a shape that is not understood", chain)
            return
        self.locks.append({"id": n.get("id"), "mutex": mutex, "depth": self.depth, "loops": self.loops, "active": True})
        self.lockvars[n.get("id")] = self.locks[-1]

    def lambda_target(self, n, chain):
        """Where does the closure go?  ('wait', lock) | ('member', class, field) | ('local',) | ('arg',) | ('unknown', why)"""
        cur = n
        for i in range(len(chain) - 1, -1, -1):
            p = chain[i]
            k = p.get("kind")
            if k in ("ImplicitCastExpr", "MaterializeTemporaryExpr", "CXXBindTemporaryExpr", "ExprWithCleanups", "ParenExpr",
                     "CXXFunctionalCastExpr", "ConstantExpr"):
                cur = p
                continue
            if k in ("CXXConstructExpr", "CXXTemporaryObjectExpr"):
                if THREAD_TYPE.match(norm_std(qual(p))):
                    return ("unknown", "lambda given to std::thread")
                t = norm_std(qual(p))
                if t.startswith("(lambda at ") or re.match(r"^(std::)?function<", t) or "FunctionEvaluation" in t or re.match(r"^(std::)?function<", norm_std(desugared(p))):
                    cur = p
                    continue
                return ("arg",)
            if k == "CXXCtorInitializer":
                ai = p.get("anyInit") or {}
                f = self.tu.field_by_id.get(ai.get("id"))
                if f:
                    return ("member", f[0], f[1])
                return ("unknown", "lambda initialises something that is not a data member")
            if k == "VarDecl":
                if p.get("id") in self.locals:
                    return ("local",)
                return ("unknown", "lambda stored in a static variable")
            if k == "CXXMemberCallExpr":
                callee = p.get("inner", [{}])[0]
                obj = self.skip_casts(callee.get("inner", [{}])[0]) if callee.get("kind") == "MemberExpr" else {}
                if callee.get("name") == "wait" and self.is_field_member(obj) and CV_TYPE.match(norm_std(self.tu.field_by_id[obj["referencedMemberDecl"]][2])):
                    args = [self.skip_casts(a) for a in p.get("inner", [])[1:]]
                    if len(args) == 2 and args[0].get("kind") == "DeclRefExpr" and (args[0].get("referencedDecl") or {}).get("id") in self.lockvars:
                        lk = self.lockvars[args[0]["referencedDecl"]["id"]]
                        if lk["active"] and lk in self.locks:
                            return ("wait", lk["mutex"])
                    return ("unknown", "condition_variable::wait of a shape that is not understood")
                return ("arg",)
            if k == "CallExpr":
                if self.callee_name(p) in ("async", "thread", "call_once", "atexit", "signal"):
                    return ("unknown", "lambda given to %s" % self.callee_name(p))
                return ("arg",)
            if k == "CXXOperatorCallExpr":
                if self.callee_name(p) == "operator=" and self.idx_in(p, cur) == 2:
                    lhs = self.skip_casts(p.get("inner", [{}, {}])[1])
                    if self.is_field_member(lhs):
                        f = self.tu.field_by_id[lhs["referencedMemberDecl"]]
                        return ("member", f[0], f[1])
                    if lhs.get("kind") == "DeclRefExpr" and (lhs.get("referencedDecl") or {}).get("id") in self.locals:
                        return ("local",)
                    return ("unknown", "lambda assigned to something that is neither a data member nor a local")
                return ("arg",)
            return ("unknown", "lambda in a context that is not understood (%s)" % k)
        return ("unknown", "lambda at top level")

    def v_LambdaExpr(self, n, chain):
        tgt = self.lambda_target(n, chain)
        bodies = [c for c in n.get("inner", []) if c.get("kind") == "CompoundStmt"]
        if tgt[0] == "unknown" or not bodies:
            self.unknown(n, tgt[1] if tgt[0] == "unknown" else "lambda without body", chain)
            return
        if tgt[0] == "member":
            # the body runs whenever the std::function member is invoked: a pseudo method of the member's class
            sub = Body(self.tu, tgt[1], "(closure) " + tgt[2], n, self.repo_free, lambda_node=True)
            self.closures.append(((tgt[1], "(closure) " + tgt[2]), sub))
            return
        old, oldno = self.lambda_lock, self.no_lock
        if tgt[0] == "wait":
            self.lambda_lock = tgt[1]      # the predicate of cv.wait(lock, pred) runs with the lock held
        else:
            self.lambda_lock, self.no_lock = None, True     # runs now or later on this thread: no credit for a held lock
        for c in bodies:
            self.visit(c, chain + [n])
        self.lambda_lock, self.no_lock = old, oldno

    def v_CXXThisExpr(self, n, chain):
        for p in reversed(chain):
            k = p.get("kind")
            if k in ("ImplicitCastExpr", "ParenExpr"):
                continue
            if k == "MemberExpr":
                return
            break
        # `return *this;` hands the caller a reference to the object it already called the method on
        if len(chain) >= 2 and chain[-1].get("kind") == "UnaryOperator" and chain[-1].get("opcode") == "*" and chain[-2].get("kind") == "ReturnStmt":
            return
        # `this == &other`: the pointer is only compared
        for p in reversed(chain):
            if p.get("kind") in ("ImplicitCastExpr", "ParenExpr"):
                continue
            if p.get("kind") == "BinaryOperator" and p.get("opcode") in ("==", "!="):
                return
            break
        # `*this` / `this` handed to a translated function of namespace bfl: what it does with the object is in its own body
        for p in reversed(chain):
            k = p.get("kind")
            if k in ("ImplicitCastExpr", "ParenExpr", "MaterializeTemporaryExpr", "CXXBindTemporaryExpr") or (k == "UnaryOperator" and p.get("opcode") == "*"):
                continue
            if k in ("CXXMemberCallExpr", "CallExpr", "CXXOperatorCallExpr"):
                c0 = self.skip_casts(p.get("inner", [{}])[0])
                cid = c0.get("referencedMemberDecl") if c0.get("kind") == "MemberExpr" else (c0.get("referencedDecl") or {}).get("id")
                if cid in self.tu.method_by_id and not (self.tu.method_info.get(cid, {}).get("implicit")):
                    return
            break
        # inside a std::thread construction (handled there) or an argument of the verification hook
        for p in reversed(chain):
            if p.get("kind") in ("CXXTemporaryObjectExpr", "CXXConstructExpr") and THREAD_TYPE.match(norm_std(qual(p))):
                return
            if p.get("kind") == "CXXOperatorCallExpr":
                args = p.get("inner", [])
                if len(args) >= 2:
                    o = self.skip_casts(args[1])
                    if o.get("kind") == "DeclRefExpr" and (o.get("referencedDecl") or {}).get("name") in HOOK_NAMES:
                        self.notes.append("%s::%s %s: `this` passed to the verification hook (trusted)" % (self.cls, self.name, self.site(n, chain)))
                        return
        self.unknown(n, "`this` escapes", chain)

    def v_DeclRefExpr(self, n, chain):
        rd = n.get("referencedDecl") or {}
        k = rd.get("kind")
        parent = chain[-1] if chain else {}
        gp = chain[-2] if len(chain) > 1 else {}
        callee_pos = parent.get("kind") == "ImplicitCastExpr" and parent.get("castKind") == "FunctionToPointerDecay" and \
            gp.get("kind") in ("CXXOperatorCallExpr", "CallExpr") and gp.get("inner", [None])[0] is parent
        if k in ("CXXMethodDecl", "CXXConversionDecl"):
            if callee_pos:
                return self.call_to(rd.get("id"), rd.get("name"), n, chain, operator_call=gp)
            if parent.get("kind") == "UnaryOperator" and parent.get("opcode") == "&":
                for p in reversed(chain):
                    if p.get("kind") in ("CXXTemporaryObjectExpr", "CXXConstructExpr") and THREAD_TYPE.match(norm_std(qual(p))):
                        m = self.tu.method_by_id.get(rd.get("id"))
                        if m:
                            self.forks.append(m)
                            return
            self.unknown(n, "pointer to member function %s escapes" % rd.get("name"), chain)
            return
        if k == "FunctionDecl":
            fid = rd.get("id")
            if fid in self.tu.method_by_id:
                self.calls.append(self.tu.method_by_id[fid])
                self.callsites.append((self.site(n, chain), self.tu.method_by_id[fid]))
                if not callee_pos:
                    self.unknown(n, "function %s used as a value" % rd.get("name"), chain)
                return
            name = rd.get("name")
            if name in self.repo_free:
                self.unknown(n, "call of %s, a free function declared at file scope of %s outside namespace bfl: its body is not translated"
                             % (name, ", ".join(self.repo_free[name][:3])), chain)
            return
        if k == "VarDecl":
            vid = rd.get("id")
            if vid in self.lockvars:
                return self.lock_use(n, chain)
            if vid in self.locals:
                return
            t = rd.get("type", {}).get("qualType", "")
            rw, note, esc = self.classify(n, chain)
            sync = self.tu.sync_type(t) or (rd.get("name") in SYNC_GLOBALS and bool(STREAM_TYPE.match(norm_std(t))))
            self.access("global::%s" % rd.get("name"), rw, sync, n, chain, note, esc)
            if re.match(r"^(const )?(std::)?function<", norm_std(t)):
                if rd.get("name") in HOOK_NAMES:
                    pass    # the verification hook: null unless a verification harness installs it (trusted, noted at the `this` argument)
                else:
                    self.function_object_use(n, chain, None)
            return
        # ParmVarDecl, EnumConstantDecl, BindingDecl, NonTypeTemplateParmDecl: no shared state
        if k in ("ParmVarDecl", "EnumConstantDecl", "BindingDecl", "NonTypeTemplateParmDecl", "CXXConstructorDecl"):
            return
        self.unknown(n, "reference to a %s" % k, chain)

    def function_object_use(self, n, chain, closure):
        """n designates a std::function data member / global.  Invoking it runs a body: the closures assigned to the
        member anywhere in its class (pseudo method `(closure) field`), or something unknown."""
        cur = n
        for p in reversed(chain):
            k = p.get("kind")
            if k in ("ImplicitCastExpr", "ParenExpr"):
                cur = p
                continue
            if k == "CXXOperatorCallExpr" and self.callee_name(p) == "operator()" and self.idx_in(p, cur) == 1:
                if closure is None:
                    self.unknown(n, "invocation of a global std::function", chain)
                else:
                    self.calls.append(closure)
                    self.callsites.append((self.site(n, chain), closure))
            return

    def call_to(self, mid, name, n, chain, operator_call=None):
        """a call whose callee is the method / function with id `mid`"""
        m = self.tu.method_by_id.get(mid)
        if m is None:
            return False
        info = self.tu.method_info.get(mid, {})
        if (info.get("implicit") or info.get("defaulted") == "default") and name == "operator=":
            # memberwise assignment of a bfl class: every data member of the class (and of its bases) is written
            for (fc, fn, ft) in self.all_fields(m[0]):
                self.access("%s::%s" % (fc, fn), "Wr", self.tu.sync_type(ft), n, chain, "defaulted operator= of %s" % m[0])
            return True
        self.calls.append(m)
        self.callsites.append((self.site(n, chain), m))
        return True

    def all_fields(self, c, seen=None):
        seen = set() if seen is None else seen
        if c in seen or c not in self.tu.records:
            return []
        seen.add(c)
        out = [(c, fn, ft) for fn, ft in self.tu.records[c]["fields"].items() if not fn.startswith("static ")]
        for b in self.tu.records[c]["bases"]:
            out += self.all_fields(b, seen)
        return out

    def lock_use(self, n, chain):
        lk = self.lockvars[n["referencedDecl"]["id"]]
        parent = chain[-1] if chain else {}
        gp = chain[-2] if len(chain) > 1 else {}
        if parent.get("kind") == "MemberExpr" and gp.get("kind") == "CXXMemberCallExpr" and parent.get("name") == "unlock":
            if self.loops != lk["loops"] or lk not in self.locks:
                self.unknown(n, "unlock of a lock object inside a loop that does not contain its declaration", chain)
            lk["active"] = False
            return
        # argument of condition_variable::wait
        call = next((p for p in reversed(chain) if p.get("kind") == "CXXMemberCallExpr"), None)
        if call is not None:
            callee = call.get("inner", [{}])[0]
            obj = self.skip_casts(callee.get("inner", [{}])[0]) if callee.get("kind") == "MemberExpr" else {}
            if callee.get("name") in ("wait",) and self.is_field_member(obj) and \
               CV_TYPE.match(norm_std(self.tu.field_by_id[obj["referencedMemberDecl"]][2])) and \
               any(self.skip_casts(a) is n for a in call.get("inner", [])[1:]):
                if not lk["active"]:
                    self.unknown(n, "condition_variable::wait on a released lock", chain)
                return
        self.unknown(n, "lock object used in a way that is not understood", chain)
        lk["active"] = False

    def v_MemberExpr(self, n, chain):
        ref = n.get("referencedMemberDecl")
        if ref in self.tu.field_by_id:
            fc, fn, ft, fd = self.tu.field_by_id[ref]
            rw, note, esc = self.classify(n, chain)
            t = norm_std(ft)
            sync = self.tu.sync_type(ft) or self.tu.sync_type(fd)
            kind, pointee = pointer_kind(ft)
            var = "%s::%s" % (fc, fn)
            if kind == "ref":
                self.access(var, "Rd", sync, n, chain, "reference member (the reference itself)")
            else:
                self.access(var, rw, sync, n, chain, note, esc)
            if kind != "val":
                self.pointee_access(n, chain, var, kind, pointee)
            if re.match(r"^(const )?(std::)?function<", t) or re.match(r"^(const )?(std::)?function<", norm_std(fd)):
                self.function_object_use(n, chain, (fc, "(closure) " + fn))
            if MUTEX_TYPE.match(t) and chain and chain[-1].get("kind") == "MemberExpr" and chain[-1].get("name") in ("lock", "unlock", "try_lock"):
                self.unknown(n, "manual %s() of a mutex" % chain[-1].get("name"), chain)
            if THREAD_TYPE.match(t) and chain and chain[-1].get("kind") == "MemberExpr":
                if chain[-1].get("name") == "join":
                    self.joins += 1
                elif chain[-1].get("name") == "detach":
                    self.unknown(n, "thread detached", chain)
            return self.children(n, chain)
        if ref in self.tu.method_by_id:
            self.call_to(ref, n.get("name"), n, chain)
            return self.children(n, chain)
        # a member the translator has no declaration of: harmless if it belongs to the standard library / Eigen,
        # not understood if the object is of a class (template) of namespace bfl
        base = n.get("inner", [{}])[0] if n.get("inner") else {}
        bt = qual(self.skip_casts(base)) or qual(base)
        if re.search(r"\bbfl::", bt) or self.bfl_class(bt):
            self.unknown(n, "member %s of %s is not in the translated declarations" % (n.get("name"), bt), chain)
        self.children(n, chain)

    def v_CXXTemporaryObjectExpr(self, n, chain):
        return self.construct(n, chain)

    def v_CXXConstructExpr(self, n, chain):
        return self.construct(n, chain)

    def construct(self, n, chain):
        if THREAD_TYPE.match(norm_std(qual(n))):
            args = [self.skip_casts(a) for a in n.get("inner", [])]
            shape_ok = len(args) == 2 and args[0].get("kind") == "UnaryOperator" and args[0].get("opcode") == "&" and \
                self.skip_casts(args[0].get("inner", [{}])[0]).get("kind") == "DeclRefExpr" and args[1].get("kind") == "CXXThisExpr"
            if len(args) == 1 and args[0].get("kind") in ("CXXTemporaryObjectExpr", "CXXConstructExpr"):
                shape_ok = True   # move construction from the temporary
            if len(args) == 0:
                shape_ok = True
            if not shape_ok:
                self.unknown(n, "std::thread construction of a shape that is not understood", chain)
                return
        self.children(n, chain)


def in_repo(path):
    if not path:
        return False
    rp = os.path.realpath(path)
    return rp.startswith(os.path.realpath(build.SRC) + os.sep)


def add_closures(out, b):
    for key, sub in b.closures:
        out["methods"].setdefault(key, []).append({
            "type": "closure at " + sub.first_site, "virtual": False, "accesses": sub.accesses,
            "calls": sorted(set(sub.calls)), "forks": sub.forks, "joins": sub.joins, "notes": sub.notes,
            "site": sub.first_site, "file": sub.first_site.split(":")[0], "callsites": sorted(set(sub.callsites))})
        add_closures(out, sub)


def translate_tu(args):
    """Runs clang on one source file; returns a picklable summary of the translation unit."""
    src, repo_free = args
    key = build.sha(VERSION, build.read(os.path.abspath(__file__)), build.headers_hash(), build.read(src), " ".join(clang_cmd("X")),
                    json.dumps(sorted(repo_free.items())))
    cdir = os.path.join(build.BUILD, "C10_cache")
    os.makedirs(cdir, exist_ok=True)
    cp = os.path.join(cdir, os.path.basename(src) + "-" + key + ".pkl")
    if os.path.exists(cp):
        try:
            with open(cp, "rb") as f:
                return pickle.load(f)
        except Exception:
            pass
    p = subprocess.run(clang_cmd(src), capture_output=True, text=True, timeout=600)
    if p.returncode != 0:
        return {"src": src, "error": "clang failed on %s:\n%s" % (src, p.stderr[-2000:])}
    tu = TU(src, parse_objects(p.stdout))
    out = {"src": src, "records": tu.records, "methods": {}, "error": None}
    for r in tu.records.values():
        if "templates" in r:
            r["templates"] = sorted(r["templates"])
    for (c, name, typ), node in tu.bodies.items():
        f = node.get("_lfile") or node.get("_file")
        body = next((x for x in node.get("inner", []) if x.get("kind") == "CompoundStmt"), {})
        bf = body.get("_file") or f
        if not in_repo(bf):
            continue
        b = Body(tu, c, name, node, repo_free)
        mi = tu.method_info.get(node.get("id")) or tu.method_info.get(node.get("previousDecl")) or {}
        out["methods"].setdefault((c, name), []).append({
            "type": typ, "virtual": mi.get("virtual", False), "accesses": b.accesses, "calls": sorted(set(b.calls)),
            "forks": b.forks, "joins": b.joins, "notes": b.notes, "site": b.site(body), "file": os.path.basename(bf or "?"),
            "callsites": sorted(set(b.callsites))})
        add_closures(out, b)
    for (c, node) in tu.ctors:
        body = next((x for x in node.get("inner", []) if x.get("kind") == "CompoundStmt"), {})
        if not in_repo(body.get("_file") or node.get("_file")):
            continue
        add_closures(out, Body(tu, c, "(constructor)", node, repo_free, closures_only=True))
    tmp = cp + ".tmp%d" % os.getpid()
    with open(tmp, "wb") as f:
        pickle.dump(out, f)
    os.replace(tmp, cp)
    build.prune(cdir, keep=400)
    return out


# ----------------------------------------------------------------------------- linking

def translate(extra_ctl_roots=()):
    """Returns the table and everything the plug-in reports about it."""
    t0 = time.time()
    srcs = build.lib_sources()
    problems = []
    repo_free = repo_file_scope_functions()
    with ThreadPoolExecutor(6) as ex:
        tus = list(ex.map(translate_tu, [(s, repo_free) for s in srcs]))
    records, methods = {}, {}
    for tu in tus:
        if tu.get("error"):
            problems.append(tu["error"])
            continue
        for c, r in tu["records"].items():
            if c not in records:
                records[c] = {"bases": list(r["bases"]), "fields": dict(r["fields"]), "methods": {k: list(v) for k, v in r["methods"].items()},
                              "templates": set(r.get("templates", [])), "pattern": r.get("pattern", False)}
            else:
                R = records[c]
                R["bases"] = sorted(set(R["bases"]) | set(r["bases"]))
                R["fields"].update(r["fields"])
                for k, v in r["methods"].items():
                    for i in v:
                        if i not in R["methods"].setdefault(k, []):
                            R["methods"][k].append(i)
                R["templates"] |= set(r.get("templates", []))
        for k, v in tu["methods"].items():
            for ov in v:
                if not any(o["type"] == ov["type"] and o["file"] == ov["file"] for o in methods.get(k, [])):
                    methods.setdefault(k, []).append(ov)

    def ancestors(c, acc=None):
        acc = set() if acc is None else acc
        for b in records.get(c, {}).get("bases", []):
            if b not in acc:
                acc.add(b)
                ancestors(b, acc)
        return acc
    anc = {c: ancestors(c) for c in records}

    def related(c):
        """c, its ancestors, and every class that has c as an ancestor."""
        if c == FREE:
            return {FREE}
        return {c} | anc.get(c, set()) | {d for d in records if c in anc.get(d, set())}

    unresolved_notes = []

    def resolve(c, m, site=None, report=None):
        """bodies a call of C::m may execute; `report` collects what cannot be resolved although declared in the repository"""
        rel = related(c)
        tg = sorted((d, m) for d in rel if (d, m) in methods)
        if report is not None and c != FREE:
            down = {c} | {d for d in records if c in anc.get(d, set())}
            declared_somewhere = False
            for d in sorted(rel):
                infos = records.get(d, {}).get("methods", {}).get(m, [])
                if not infos:
                    continue
                declared_somewhere = True
                if (d, m) in methods or d not in down:
                    continue
                live = [i for i in infos if not i["pure"] and not i["implicit"] and i["defaulted"] != "deleted" and i["defaulted"] != "default"]
                if live and m not in records[d].get("templates", set()):
                    report.append("%s::%s is declared (not pure) but no body of it was translated" % (d, m))
                elif live:
                    report.append("%s::%s is a member template of which no instantiation was translated" % (d, m))
            if not tg and declared_somewhere:
                unresolved_notes.append("%s::%s is pure virtual with no implementation in the library (user code; not covered)" % (c, m))
        if report is not None and c == FREE and not tg:
            report.append("free function %s of namespace bfl has no translated body" % m)
        return tg

    def reach(roots):
        seen, todo = [], list(roots)
        unresolved = {}
        while todo:
            k = todo.pop(0)
            if k in seen or k not in methods:
                continue
            seen.append(k)
            for ov in methods[k]:
                for (c, m) in ov["calls"]:
                    rep = []
                    for t in resolve(c, m, report=rep):
                        if t not in seen:
                            todo.append(t)
                    for r in rep:
                        unresolved.setdefault(k, [])
                        if r not in unresolved[k]:
                            unresolved[k].append(r)
        return seen, unresolved

    def analyse(ctl_root_list):
        probs = []
        ctl_roots = []
        for (c, m) in ctl_root_list:
            if (c, m) not in methods:
                probs.append("control API method %s::%s not found" % (c, m))
            ctl_roots += resolve(c, m)
        ctl, ctl_unres = reach(ctl_roots)
        forks = sorted(set(f for k in ctl for ov in methods[k] for f in ov["forks"]))
        joins = [k for k in ctl if any(ov["joins"] for ov in methods[k])]
        if not forks:
            probs.append("no thread creation found in the control API (boot)")
        if not joins:
            probs.append("no thread join found in the control API (wait)")
        flt_roots = []
        for (c, m) in list(forks) + FLT_ASSUMED_ROOTS:
            r = resolve(c, m)
            if not r and (c, m) in forks:
                probs.append("filtering-thread root %s::%s not found" % (c, m))
            flt_roots += r
        flt, flt_unres = reach(flt_roots)
        for k in flt:
            for ov in methods[k]:
                if ov["forks"] or ov["joins"]:
                    probs.append("thread creation/join inside the filtering thread (%s::%s)" % k)

        def entries(keys, thread, unres):
            out = []
            for k in sorted(keys):
                accs = []
                for ov in methods[k]:
                    for a in ov["accesses"]:
                        if a not in accs:
                            accs.append(a)
                for r in unres.get(k, []):
                    accs.append((None, "Wr", "Plain", methods[k][0]["site"], "call not resolved: " + r))
                out.append({"method": "%s::%s" % k, "thread": thread, "phase": "Concurrent", "accs": accs})
            return out
        table = entries(ctl, "Ctl", ctl_unres) + entries(flt, "Flt", flt_unres)
        for k, rs in list(ctl_unres.items()) + list(flt_unres.items()):
            for r in rs:
                p = "call from %s::%s not resolved: %s" % (k[0], k[1], r)
                if p not in probs:
                    probs.append(p)
        return table, probs, ctl, flt, forks, joins

    table, probs, ctl, flt, forks, joins = analyse(list(CTL_ROOTS) + list(extra_ctl_roots))
    problems += probs
    # model-level entries: construction writes every member before boot(); destruction after wait()
    used = sorted(set(a[0] for e in table for a in e["accs"] if a[0] and "::" in a[0] and not a[0].startswith(("global::", "static::"))))
    table.insert(0, {"method": "(construction)", "thread": "Ctl", "phase": "PreFork",
                     "accs": [(v, "Wr", "Plain", "construction", "") for v in used]})
    table.append({"method": "(destruction)", "thread": "Ctl", "phase": "PostJoin",
                  "accs": [(v, "Wr", "Plain", "destruction", "") for v in used]})
    tu_problems = [p for p in problems if p not in probs]
    if tu_problems:
        table.append({"method": "(translator)", "thread": "Flt", "phase": "Concurrent",
                      "accs": [(None, "Wr", "Plain", "translator", p[:120]) for p in tu_problems]})
    notes = [n for k in set(ctl) | set(flt) for ov in methods[k] for n in ov["notes"]]
    classes = sorted(set(c for (c, m) in methods if c != FREE))
    info = {"table": table, "problems": problems, "notes": sorted(set(notes)), "ctl_methods": ["%s::%s" % k for k in ctl],
            "flt_methods": ["%s::%s" % k for k in flt], "forks": ["%s::%s" % f for f in forks], "joins": ["%s::%s" % j for j in joins],
            "translated_classes": classes, "translated_files": [os.path.basename(s) for s in srcs],
            "seconds": round(time.time() - t0, 2), "n_methods_translated": len(methods),
            "uncovered_virtuals": sorted(set(unresolved_notes))}
    info["offenders"] = offenders(table)
    info["racy_vars"] = racy_vars(info["offenders"])
    info["shared_vars"] = shared_vars(table)
    info["sites"] = site_map(table)
    # a sanitizer stack may lose the frames of a callee (tail calls, libstdc++ without frame pointers): the line of a call
    # stands for everything the callee may access
    cache = {}

    def callee_vars(c, m):
        if (c, m) not in cache:
            ms, _ = reach(resolve(c, m))
            cache[(c, m)] = set((a[0] if a[0] else "unknown") for k in ms for ov in methods[k] for a in ov["accesses"])
        return cache[(c, m)]
    for k in set(ctl) | set(flt):
        for ov in methods[k]:
            for (site, (c, m)) in ov.get("callsites", []):
                vs = callee_vars(c, m)
                if vs:
                    info["sites"][site] = sorted(set(info["sites"].get(site, [])) | vs)
    info["ctl_ctl"] = ctl_ctl_conflicts(table)
    cacc = [a for e in table if e["thread"] == "Ctl" and e["phase"] == "Concurrent" for a in e["accs"]]
    info["ctl_ctl_count"] = sum(1 for a in cacc for b in cacc if not pair_ok(a, b, "Concurrent"))
    return info


# ----------------------------------------------------------------------------- Python mirror of the Coq checker (reporting only;
# C10_AccessTable.v proves that it agrees with the Coq checker on the generated table)

def may_alias(v, w):
    return v is None or w is None or v == w


def pair_ok(c, f, cphase):
    conflicting = may_alias(c[0], f[0]) and (c[1] == "Wr" or f[1] == "Wr")
    if not conflicting:
        return True
    if c[2] == "Atomic" and f[2] == "Atomic":
        return True
    if c[2].startswith("Mutex ") and c[2] == f[2]:
        return True
    return cphase != "Concurrent"


def offenders(table):
    out = []
    flt = [(fe["method"], f) for fe in table if fe["thread"] == "Flt" for f in fe["accs"]]
    for ce in table:
        if ce["thread"] != "Ctl":
            continue
        for c in ce["accs"]:
            for fm, f in flt:
                if not pair_ok(c, f, ce["phase"]):
                    out.append({"ctl_method": ce["method"], "ctl": c, "flt_method": fm, "flt": f})
    return out


def ctl_ctl_conflicts(table):
    """Pairs of accesses of two control methods that WOULD race if two controlling threads were used
    (outside the property: it speaks of one controlling thread); reported as a separate list."""
    accs = [(e["method"], a) for e in table if e["thread"] == "Ctl" and e["phase"] == "Concurrent" for a in e["accs"]]
    out, seen = [], set()
    for i, (m1, a) in enumerate(accs):
        for (m2, b) in accs[i:]:
            if not pair_ok(a, b, "Concurrent"):
                v = a[0] or b[0] or "unknown"
                key = (v, m1, m2)
                if key not in seen:
                    seen.add(key)
                    out.append({"var": v, "a": "%s %s [%s] %s" % (m1, a[1], a[2], a[3]), "b": "%s %s [%s] %s" % (m2, b[1], b[2], b[3])})
    return out


def racy_vars(offs):
    out = []
    for o in offs:
        for v in (o["ctl"][0], o["flt"][0]):
            v = v if v is not None else "unknown"
            if v not in out:
                out.append(v)
    return out


def shared_vars(table):
    c = set(a[0] for e in table if e["thread"] == "Ctl" and e["phase"] == "Concurrent" for a in e["accs"])
    f = set(a[0] for e in table if e["thread"] == "Flt" for a in e["accs"])
    return sorted((v if v else "unknown") for v in c & f)


def site_map(table):
    m = {}
    for e in table:
        for a in e["accs"]:
            m.setdefault(a[3], set()).add(a[0] if a[0] else "unknown")
    return {k: sorted(v) for k, v in m.items()}


# ----------------------------------------------------------------------------- Coq output

def cq(s):
    return '"' + s.replace('"', '""') + '"'


def coq_access(a):
    var = "Unknown" if a[0] is None else "Named %s" % cq(a[0])
    prot = a[2] if not a[2].startswith("Mutex ") else "Mutex %s" % cq(a[2][6:])
    return "mkAcc (%s) %s (%s) %s" % (var, a[1], prot, cq(a[3]))


def render(info, name="current_table", header=None):
    L = header or ["(* C10_AccessTable.v — GENERATED by props/C10_translate.py from the C++ sources on every run.",
         "   Do not edit; not under version control. *)",
         "Require Import List String.", "Import ListNotations.", "Require Import BFL.C10_Model.",
         "Local Open Scope string_scope.", ""]
    L.append("Definition %s : table := [" % name)
    ents = []
    for e in info["table"]:
        accs = ";\n      ".join(coq_access(a) for a in e["accs"])
        ents.append("  mkEntry %s %s %s [\n      %s]" % (cq(e["method"]), e["thread"], e["phase"], accs))
    L.append(";\n".join(ents))
    L.append("].")
    L.append("")
    if name != "current_table":
        return "\n".join(L) + "\n"
    L.append("(* the racy variables as computed by the translator's Python mirror of the checker *)")
    L.append("Definition py_racy_vars : list string := [%s]." % "; ".join(cq(v) for v in info["racy_vars"]))
    L.append("Definition py_offender_count : nat := %d." % len(info["offenders"]))
    L.append("")
    L.append("Lemma py_checker_agrees : racy_vars current_table = py_racy_vars /\\ List.length (race_freeb current_table) = py_offender_count.")
    L.append("Proof. vm_compute. split; reflexivity. Qed.")
    L.append("")
    L.append("(* pairs of control accesses that would conflict with TWO controlling threads (outside the property) *)")
    L.append("Definition py_ctl_ctl_count : nat := %d." % info["ctl_ctl_count"])
    L.append("Lemma py_ctl_ctl_agrees : List.length (ctl_ctl_offenders current_table) = py_ctl_ctl_count.")
    L.append("Proof. vm_compute. reflexivity. Qed.")
    return "\n".join(L) + "\n"


def write_table(info):
    """Writes coq/C10_AccessTable.v (only if the content changed, so that make does not rebuild needlessly)."""
    txt = render(info)
    path = os.path.join(build.COQ, "C10_AccessTable.v")
    old = None
    if os.path.exists(path):
        with open(path) as f:
            old = f.read()
    if old != txt:
        tmp = path + ".tmp%d" % os.getpid()
        with open(tmp, "w") as f:
            f.write(txt)
        os.replace(tmp, path)
    return path, hashlib.sha256(txt.encode()).hexdigest()[:16]


def main():
    info = translate()
    if "--dry" in sys.argv:
        path, h = "(dry run: table not written)", hashlib.sha256(render(info).encode()).hexdigest()[:16]
    else:
        path, h = write_table(info)
    print("wrote %s (%s): %d entries, %d accesses, %.1fs" % (path, h, len(info["table"]), sum(len(e["accs"]) for e in info["table"]), info["seconds"]))
    print("Ctl methods (%d):" % len(info["ctl_methods"]), ", ".join(info["ctl_methods"]))
    print("Flt methods (%d):" % len(info["flt_methods"]), ", ".join(info["flt_methods"]))
    print("forks:", info["forks"], "joins:", info["joins"])
    print("shared variables:", info["shared_vars"])
    print("racy variables:", info["racy_vars"], "(%d offending pairs)" % len(info["offenders"]))
    print("Ctl x Ctl conflicts (two controllers; outside the property):", sorted(set(c["var"] for c in info["ctl_ctl"])))
    for p in info["problems"]:
        print("PROBLEM:", p)
    for n in info["notes"]:
        print("note:", n)
    for n in info["uncovered_virtuals"]:
        print("uncovered:", n)
    if "-v" in sys.argv:
        for e in info["table"]:
            print(e["method"], e["thread"], e["phase"])
            for a in e["accs"]:
                print("    ", a)
    return 0


if __name__ == "__main__":
    sys.exit(main())
