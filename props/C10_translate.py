#!/usr/local/bin/python3-vt
"""C10_translate.py — regenerates coq/C10_AccessTable.v (the access table `current_table`)
from the C++ sources of build.REPO, through clang's JSON AST.

For every translated class (TRANSLATED below, explicit) the class's .cpp is parsed with

    clang++ -std=c++11 -fsyntax-only -DBFL_VERIF -DEIGEN_INITIALIZE_MATRICES_BY_ZERO
            -I<repo>/src/BayesFilters/include -I/usr/include/eigen3
            -Xclang -ast-dump=json -Xclang -ast-dump-filter=bfl <file>

(filter `bfl`: every declaration of namespace bfl seen by that translation unit, so that the class
hierarchy and the ids of the methods of the other classes are available for call resolution).

For every method with a body: the accesses to member data (MemberExpr on `this` or on another object
of a translated class) and to non-local variables, each classified read / write and protected by
Mutex m (inside the scope of a std::lock_guard / std::unique_lock on member m, until an explicit
unlock), Atomic (the member's type is std::atomic<..>, std::mutex, std::condition_variable, or a
standard stream object) or Plain; the calls to methods of translated classes; thread creation
(std::thread(&C::m, this)) and join.  Reachability is then computed from the control/query API
(CTL_ROOTS, thread Ctl) and from the thread body (the method given to std::thread, plus
FLT_ASSUMED_ROOTS, thread Flt); a virtual or non-virtual call C::m is resolved conservatively to
every method named m of C, of its translated ancestors and of its translated descendants.

FAIL CLOSED: a statement/expression kind that is not in the white list, a lock object used in a way
that is not understood, `this` or a pointer to member escaping, a lambda anywhere but as the
predicate of condition_variable::wait, ... become a Plain write to the variable `Unknown`, which the
Coq checker treats as aliasing every variable.  A member access in a context that is not provably
a read is a write.

vlib-independent except for `build.SRC` / `build.COQ` (so that BFL_REPO is respected)."""
import hashlib, json, os, pickle, re, subprocess, sys, time
from concurrent.futures import ThreadPoolExecutor

sys.path.insert(0, os.path.dirname(os.path.dirname(os.path.abspath(__file__))))
from vlib import build

VERSION = "7"

# ----------------------------------------------------------------------------- configuration (explicit)
# translated class -> source file (relative to src/BayesFilters/src)
TRANSLATED = {
    "FilteringAlgorithm": "FilteringAlgorithm.cpp",
    "GaussianFilter": "GaussianFilter.cpp",
    "ParticleFilter": "ParticleFilter.cpp",
    "SIS": "SIS.cpp",
    "GaussianPrediction": "GaussianPrediction.cpp",
    "GaussianCorrection": "GaussianCorrection.cpp",
    "PFPrediction": "PFPrediction.cpp",
    "PFCorrection": "PFCorrection.cpp",
    "StateModel": "StateModel.cpp",
    "ExogenousModel": "ExogenousModel.cpp",
    # the steps that read skip state, and every overrider in the library of the virtual methods
    # through which the filtering thread reaches them
    "KFPrediction": "KFPrediction.cpp",
    "UKFPrediction": "UKFPrediction.cpp",
    "KFCorrection": "KFCorrection.cpp",
    "UKFCorrection": "UKFCorrection.cpp",
    "SUKFCorrection": "SUKFCorrection.cpp",
    "DrawParticles": "DrawParticles.cpp",
    "GPFPrediction": "GPFPrediction.cpp",
    "BootstrapCorrection": "BootstrapCorrection.cpp",
    "GPFCorrection": "GPFCorrection.cpp",
    "AdditiveStateModel": "AdditiveStateModel.cpp",
    "LinearStateModel": "LinearStateModel.cpp",
    "LTIStateModel": "LTIStateModel.cpp",
    "WhiteNoiseAcceleration": "WhiteNoiseAcceleration.cpp",
    # header-only helper holding the skip state (translated from a unit that includes it)
    "SkipFlag": "GaussianPrediction.cpp",
}

# public control / query API (thread Ctl); boot and wait are the fork and the join
CTL_ROOTS = [("FilteringAlgorithm", m) for m in
             ("boot", "run", "wait", "reset", "reboot", "teardown", "step_number", "is_running")] + \
            [("GaussianFilter", "skip"), ("ParticleFilter", "skip")]

# GaussianFilter::filtering_step is pure virtual and implemented by user code; per the API that code
# drives the filter through these members (SIS::filtering_step, which is translated, does the same
# for the particle filter).  They are therefore roots of the filtering thread.
FLT_ASSUMED_ROOTS = [("GaussianFilter", "prediction"), ("GaussianFilter", "correction"),
                     ("GaussianPrediction", "predict"), ("GaussianCorrection", "correct"),
                     ("GaussianCorrection", "freeze_measurements"),
                     ("FilteringAlgorithm", "step_number")]

# types whose operations are synchronised by the standard library itself
SYNC_TYPE = re.compile(r"^(const )?(std::atomic<.*>|std::atomic_\w+|std::mutex|std::condition_variable|"
                       r"std::ostream|std::basic_ostream<.*>|std::istream)$")
MUTEX_TYPE = re.compile(r"^std::mutex$")
LOCK_TYPE = re.compile(r"^(std::lock_guard<std::mutex>|std::unique_lock<std::mutex>)$")
THREAD_TYPE = re.compile(r"^std::thread$")
CV_TYPE = re.compile(r"^std::condition_variable$")
# the verification hook of FilteringAlgorithm (null unless a verification harness installs it; the C10
# harness does not): `this` passed to it is not an escape
HOOK_NAMES = {"bfl_verif_hook"}

TRANSPARENT = {
    "CompoundStmt", "IfStmt", "ReturnStmt", "ExprWithCleanups", "ImplicitCastExpr", "MaterializeTemporaryExpr",
    "CXXBindTemporaryExpr", "CallExpr", "CXXMemberCallExpr", "CXXOperatorCallExpr", "CXXConstructExpr",
    "CXXTemporaryObjectExpr", "DeclStmt", "BinaryOperator", "CompoundAssignOperator", "UnaryOperator", "ParenExpr",
    "ForStmt", "WhileStmt", "DoStmt", "CXXForRangeStmt", "CXXTryStmt", "CXXCatchStmt", "CXXThrowExpr",
    "CXXFunctionalCastExpr", "CXXStaticCastExpr", "CStyleCastExpr", "CXXConstCastExpr", "CXXReinterpretCastExpr",
    "CXXDynamicCastExpr", "ConditionalOperator", "IntegerLiteral", "FloatingLiteral", "StringLiteral",
    "CXXBoolLiteralExpr", "CXXNullPtrLiteralExpr", "CharacterLiteral", "DeclRefExpr", "MemberExpr", "CXXThisExpr",
    "NullStmt", "BreakStmt", "ContinueStmt", "InitListExpr", "CXXStdInitializerListExpr", "CXXDefaultArgExpr",
    "ArraySubscriptExpr", "ConstantExpr", "SubstNonTypeTemplateParmExpr", "CXXNewExpr", "CXXDeleteExpr",
    "UnaryExprOrTypeTraitExpr", "ImplicitValueInitExpr", "CXXScalarValueInitExpr", "LambdaExpr", "VarDecl",
    "CXXDefaultInitExpr", "OpaqueValueExpr", "SwitchStmt", "CaseStmt", "DefaultStmt", "CXXNoexceptExpr",
    "TypeTraitExpr", "PredefinedExpr", "GNUNullExpr", "CXXPseudoDestructorExpr", "BinaryConditionalOperator",
    "TypedefDecl", "TypeAliasDecl", "UsingDecl", "UsingDirectiveDecl", "StaticAssertDecl", "CXXNullPtrLiteralExpr",
    "UserDefinedLiteral", "ArrayInitLoopExpr", "ArrayInitIndexExpr", "SizeOfPackExpr", "ExpressionTraitExpr",
    "CXXInheritedCtorInitExpr", "FullExpr", "NoInitExpr", "ParenListExpr", "RecoveryExpr_NOT",
}
TRANSPARENT.discard("RecoveryExpr_NOT")
ATTR = re.compile(r".*Attr$")
ASSIGN_OPS = {"=", "+=", "-=", "*=", "/=", "%=", "&=", "|=", "^=", "<<=", ">>="}
LOOPS = {"ForStmt", "WhileStmt", "DoStmt", "CXXForRangeStmt"}


# ----------------------------------------------------------------------------- clang

def clang_cmd(src):
    inc = os.path.join(build.SRC, "include")
    return ["clang++", "-std=c++11", "-fsyntax-only", "-w", "-DBFL_VERIF", "-DEIGEN_INITIALIZE_MATRICES_BY_ZERO",
            "-I" + inc, "-I/usr/include/eigen3", "-Xclang", "-ast-dump=json", "-Xclang", "-ast-dump-filter=bfl", src]


def parse_objects(txt):
    dec = json.JSONDecoder()
    i, n, objs = 0, len(txt), []
    while i < n:
        while i < n and txt[i] in " \r\n\t":
            i += 1
        if i >= n:
            break
        if txt[i] != "{":
            j = txt.find("\n", i)
            i = n if j < 0 else j + 1
            continue
        o, i = dec.raw_decode(txt, i)
        objs.append(o)
    return objs


def strip_type(t):
    t = t.strip()
    for p in ("const ", "volatile ", "class ", "struct "):
        while t.startswith(p):
            t = t[len(p):]
    t = re.sub(r"\s*(\*|&|&&)?\s*(const)?\s*$", "", t)
    t = re.sub(r"\s*(\*|&|&&)\s*$", "", t)
    if t.startswith("bfl::"):
        t = t[5:]
    return t.strip()


def qual(n):
    return (n.get("type") or {}).get("qualType", "")


def desugared(n):
    t = n.get("type") or {}
    return t.get("desugaredQualType", t.get("qualType", ""))


def norm_std(t):
    """std::atomic<bool> and friends print in several ways (std::atomic<bool>, atomic<bool>, std::__atomic_base...)."""
    t = t.strip()
    t = re.sub(r"^const ", "", t)
    return t


class TU:
    """One translation unit: class hierarchy, id maps, method bodies."""

    def __init__(self, src, objs):
        self.src = src
        self.records = {}       # class name -> {"bases": [...], "fields": {name: type}, "methods": {name: {...}}}
        self.method_by_id = {}  # id -> (class, method name)
        self.method_info = {}   # id -> dict(virtual, pure, type)
        self.field_by_id = {}   # id -> (class, field name, type, desugared)
        self.record_ids = {}    # record id -> class name
        self.bodies = {}        # (class, method name, type) -> (node of the definition)
        self.loc = {"file": None, "line": None}
        seen = set()
        for o in objs:
            self.annotate(o)
        for o in objs:
            self.collect(o, seen, None)

    def sync_type(self, t, depth=0):
        """std::atomic / mutex / condition_variable / stream, or a class of namespace bfl all of whose data members
        (and bases) are of such types: every access to its state is then an atomic operation."""
        t = norm_std(t)
        if SYNC_TYPE.match(t):
            return True
        c = strip_type(t)
        r = self.records.get(c)
        if r is None or depth > 3 or not r["fields"]:
            return False
        return all(self.sync_type(ft, depth + 1) for ft in r["fields"].values()) and \
            all(self.sync_type(b, depth + 1) or (b in self.records and not self.records[b]["fields"] and not self.records[b]["bases"]) for b in r["bases"])

    # ---- source locations: clang prints file/line only when they change (in document order)
    def bare(self, d):
        if "file" in d:
            self.loc["file"] = d["file"]
        if "line" in d:
            self.loc["line"] = d["line"]
        return (self.loc["file"], self.loc["line"])

    def sloc(self, d):
        if not isinstance(d, dict) or not d:
            return None
        if "spellingLoc" in d or "expansionLoc" in d:
            r = None
            for k, v in d.items():
                if k == "spellingLoc":
                    self.bare(v)
                elif k == "expansionLoc":
                    r = self.bare(v)
            return r
        return self.bare(d)

    def annotate(self, n):
        if not isinstance(n, dict):
            return
        if "loc" in n:
            self.sloc(n["loc"])
        if "range" in n:
            b = self.sloc(n["range"].get("begin"))
            self.sloc(n["range"].get("end"))
            if b:
                n["_file"], n["_line"] = b
        for c in n.get("inner", []):
            self.annotate(c)

    # ---- declarations
    def collect(self, n, seen, cls):
        if not isinstance(n, dict):
            return
        k = n.get("kind")
        if k in ("NamespaceDecl", "LinkageSpecDecl"):
            for c in n.get("inner", []):
                self.collect(c, seen, None)
            return
        if k == "CXXRecordDecl":
            if n.get("id") in seen:
                return
            seen.add(n.get("id"))
            name = n.get("name")
            if not name:
                return
            self.record_ids[n["id"]] = name
            if n.get("previousDecl"):
                pass
            if not n.get("completeDefinition"):
                return
            rec = self.records.setdefault(name, {"bases": [], "fields": {}, "methods": {}})
            rec["bases"] = [strip_type(b["type"]["qualType"]) for b in n.get("bases", [])]
            for c in n.get("inner", []):
                ck = c.get("kind")
                if ck == "FieldDecl":
                    self.field_by_id[c["id"]] = (name, c.get("name"), qual(c), desugared(c))
                    rec["fields"][c.get("name")] = qual(c)
                elif ck == "VarDecl" and not c.get("constexpr") and not qual(c).startswith("const "):
                    rec["fields"]["static " + str(c.get("name"))] = qual(c)   # static data member
                elif ck in ("CXXMethodDecl", "CXXConversionDecl"):
                    self.method_by_id[c["id"]] = (name, c.get("name"))
                    self.method_info[c["id"]] = {"virtual": bool(c.get("virtual")), "pure": bool(c.get("pure")), "type": qual(c)}
                    rec["methods"].setdefault(c.get("name"), []).append({"virtual": bool(c.get("virtual")), "pure": bool(c.get("pure")), "type": qual(c)})
                    if any(x.get("kind") == "CompoundStmt" for x in c.get("inner", [])):
                        self.bodies[(name, c.get("name"), qual(c))] = c
                elif ck == "CXXRecordDecl":
                    self.collect(c, seen, name)
            return
        if k in ("CXXMethodDecl", "CXXConversionDecl") and n.get("previousDecl") and n.get("id") not in seen:
            seen.add(n["id"])
            owner = self.record_ids.get(n.get("parentDeclContextId"))
            prev = self.method_by_id.get(n.get("previousDecl"))
            if prev:
                owner = prev[0]
            if owner:
                self.method_by_id[n["id"]] = (owner, n.get("name"))
                if any(x.get("kind") == "CompoundStmt" for x in n.get("inner", [])):
                    self.bodies[(owner, n.get("name"), qual(n))] = n


# ----------------------------------------------------------------------------- one method body

class Body:
    def __init__(self, tu, cls, name, node):
        self.tu, self.cls, self.name = tu, cls, name
        self.accesses = []    # (var or None for Unknown, "Rd"/"Wr", prot, site, note)
        self.calls = []       # (class, method)
        self.forks = []       # (class, method)
        self.joins = 0
        self.notes = []
        self.locks = []       # dicts: id, mutex, depth (compound depth of the declaration), loops, active
        self.depth = 0
        self.loops = 0
        self.locals = set()
        self.lockvars = {}
        self.lambda_lock = None
        self.collect_locals(node)
        for c in node.get("inner", []):
            if c.get("kind") == "CompoundStmt":
                self.visit(c, [])
            elif c.get("kind") == "CXXCtorInitializer":
                self.unknown(c, "constructor initialiser")

    def collect_locals(self, n):
        if not isinstance(n, dict):
            return
        if n.get("kind") in ("ParmVarDecl", "BindingDecl"):
            self.locals.add(n.get("id"))
        if n.get("kind") == "VarDecl" and n.get("storageClass") not in ("static", "extern") and not n.get("tls"):
            self.locals.add(n.get("id"))
        for c in n.get("inner", []):
            self.collect_locals(c)

    # ---- output
    def site(self, n, chain=()):
        f, l = n.get("_file"), n.get("_line")
        if l is None:
            for p in reversed(chain):
                if p.get("_line") is not None:
                    f, l = p.get("_file"), p.get("_line")
                    break
        return "%s:%s" % (os.path.basename(f) if f else "?", l if l is not None else "?")

    def prot(self, sync):
        if sync:
            return "Atomic"
        held = [l for l in self.locks if l["active"]]
        if self.lambda_lock:
            return "Mutex " + self.lambda_lock
        if held:
            return "Mutex " + held[0]["mutex"]
        return "Plain"

    def access(self, var, rw, sync, n, chain, note=""):
        self.accesses.append((var, rw, self.prot(sync), self.site(n, chain), note))

    def unknown(self, n, why, chain=()):
        self.notes.append("%s::%s %s: %s" % (self.cls, self.name, self.site(n, chain), why))
        self.accesses.append((None, "Wr", "Plain", self.site(n, chain), why))

    # ---- helpers
    @staticmethod
    def skip_casts(n):
        while isinstance(n, dict) and n.get("kind") in ("ImplicitCastExpr", "ParenExpr", "MaterializeTemporaryExpr",
                                                         "CXXBindTemporaryExpr", "ExprWithCleanups"):
            inner = n.get("inner", [])
            if len(inner) != 1:
                break
            n = inner[0]
        return n

    def is_field_member(self, n):
        return n.get("kind") == "MemberExpr" and n.get("referencedMemberDecl") in self.tu.field_by_id

    def is_const_type(self, n):
        return qual(n).startswith("const ")

    def classify(self, node, chain):
        """Read or write?  `chain` = ancestors of node (outermost first).  Anything not provably a read is a write."""
        cur = node
        for p in reversed(chain):
            k = p.get("kind")
            inner = p.get("inner", [])
            idx = next((i for i, c in enumerate(inner) if c is cur), -1)
            if k == "ImplicitCastExpr":
                ck = p.get("castKind")
                if ck == "LValueToRValue":
                    return "Rd", ""
                if ck in ("NoOp", "UncheckedDerivedToBase", "DerivedToBase"):
                    if self.is_const_type(p):
                        return "Rd", ""
                    cur = p
                    continue
                return "Wr", "cast " + str(ck)
            if k in ("ParenExpr", "ArraySubscriptExpr"):
                if k == "ArraySubscriptExpr" and idx != 0:
                    return "Rd", ""
                cur = p
                continue
            if k == "MemberExpr":
                # cur is the object of p
                if qual(p) != "<bound member function type>":
                    cur = p          # sub-object: context of the outer expression decides
                    continue
                # method call on the object
                if self.is_const_type(cur):
                    return "Rd", ""
                return "Wr", "non-const method " + str(p.get("name"))
            if k in ("BinaryOperator", "CompoundAssignOperator"):
                if p.get("opcode") in ASSIGN_OPS:
                    return ("Wr", "") if idx == 0 else ("Rd", "")
                if p.get("opcode") == ",":
                    if idx == 0:
                        return "Rd", ""
                    cur = p
                    continue
                if p.get("opcode") in (".*", "->*"):
                    return "Wr", "pointer to member"
                return "Rd", ""
            if k == "UnaryOperator":
                if p.get("opcode") in ("++", "--"):
                    return "Wr", ""
                if p.get("opcode") == "&":
                    return "Wr", "address taken"
                if p.get("opcode") == "*":
                    cur = p
                    continue
                return "Rd", ""
            if k in ("CompoundStmt", "IfStmt", "WhileStmt", "DoStmt", "ForStmt", "SwitchStmt", "CaseStmt", "DefaultStmt"):
                return "Rd", ""   # value discarded / condition
            if k == "CXXOperatorCallExpr":
                if idx == 0:
                    return "Rd", ""
                return "Wr", "non-const operand of an overloaded operator"
            if k in ("CallExpr", "CXXMemberCallExpr", "CXXConstructExpr", "CXXTemporaryObjectExpr"):
                return "Wr", "bound to a non-const reference parameter"
            if k == "ReturnStmt":
                return "Wr", "reference returned"
            if k == "VarDecl":
                return "Wr", "bound to a local reference"
            if k == "ConditionalOperator":
                if idx == 0:
                    return "Rd", ""
                cur = p
                continue
            if k in ("ExprWithCleanups", "MaterializeTemporaryExpr", "CXXBindTemporaryExpr"):
                cur = p
                continue
            return "Wr", "context " + str(k)
        return "Rd", ""

    # ---- traversal
    def visit(self, n, chain):
        if not isinstance(n, dict) or not n:
            return
        k = n.get("kind")
        if k is None:
            return
        if ATTR.match(k) or k in ("ParmVarDecl",):
            return
        if k not in TRANSPARENT:
            self.unknown(n, "AST node kind %s is not understood" % k, chain)
            return
        h = getattr(self, "v_" + k, None)
        if h:
            return h(n, chain)
        self.children(n, chain)

    def children(self, n, chain, skip=()):
        sub = chain + [n]
        for c in n.get("inner", []):
            if any(c is s for s in skip):
                continue
            self.visit(c, sub)

    def v_CompoundStmt(self, n, chain):
        self.depth += 1
        self.children(n, chain)
        self.locks = [l for l in self.locks if l["depth"] < self.depth]
        self.depth -= 1

    def loop(self, n, chain):
        self.loops += 1
        self.children(n, chain)
        self.loops -= 1
    v_ForStmt = v_WhileStmt = v_DoStmt = v_CXXForRangeStmt = loop

    def v_VarDecl(self, n, chain):
        t = qual(n)
        if n.get("storageClass") == "static" or n.get("tls"):
            self.access("static::%s::%s::%s" % (self.cls, self.name, n.get("name")), "Wr", False, n, chain, "static local")
        if LOCK_TYPE.match(norm_std(t)) or LOCK_TYPE.match(norm_std(desugared(n))):
            return self.lock_decl(n, chain)
        if re.search(r"\b(lock_guard|unique_lock|scoped_lock|shared_lock)\b", t):
            self.unknown(n, "lock object of type %s is not understood" % t, chain)
        self.children(n, chain)

    def lock_decl(self, n, chain):
        ok = len(chain) >= 2 and chain[-1].get("kind") == "DeclStmt" and chain[-2].get("kind") == "CompoundStmt"
        inner = [c for c in n.get("inner", []) if not ATTR.match(c.get("kind", ""))]
        mutex = None
        if ok and len(inner) == 1 and self.skip_casts(inner[0]).get("kind") == "CXXConstructExpr":
            args = self.skip_casts(inner[0]).get("inner", [])
            if len(args) == 1:
                a = self.skip_casts(args[0])
                if self.is_field_member(a) and self.skip_casts(a.get("inner", [{}])[0]).get("kind") == "CXXThisExpr":
                    fc, fn, ft, fd = self.tu.field_by_id[a["referencedMemberDecl"]]
                    if MUTEX_TYPE.match(norm_std(ft)):
                        mutex = "%s::%s" % (fc, fn)
                        self.access(mutex, "Wr", True, a, chain + [n], "lock")
        if mutex is None:
            self.unknown(n, "lock declaration of a shape that is not understood", chain)
            return
        self.locks.append({"id": n.get("id"), "mutex": mutex, "depth": self.depth, "loops": self.loops, "active": True})
        self.lockvars[n.get("id")] = self.locks[-1]

    def v_LambdaExpr(self, n, chain):
        # allowed only as the predicate of condition_variable::wait(lock, pred)
        call = next((p for p in reversed(chain) if p.get("kind") in ("CXXMemberCallExpr", "CallExpr", "CXXOperatorCallExpr", "CXXConstructExpr", "CXXTemporaryObjectExpr")
                     and not qual(p).startswith("(lambda at ")), None)   # the closure object itself is copy-constructed into the argument
        lockname = None
        if call is not None and call.get("kind") == "CXXMemberCallExpr":
            callee = call.get("inner", [{}])[0]
            obj = self.skip_casts(callee.get("inner", [{}])[0]) if callee.get("kind") == "MemberExpr" else {}
            if callee.get("name") == "wait" and self.is_field_member(obj) and CV_TYPE.match(norm_std(self.tu.field_by_id[obj["referencedMemberDecl"]][2])):
                args = [self.skip_casts(a) for a in call.get("inner", [])[1:]]
                if len(args) == 2 and args[0].get("kind") == "DeclRefExpr" and (args[0].get("referencedDecl") or {}).get("id") in self.lockvars:
                    lk = self.lockvars[args[0]["referencedDecl"]["id"]]
                    if lk["active"] and lk in self.locks:
                        lockname = lk["mutex"]
        if lockname is None:
            self.unknown(n, "lambda expression outside condition_variable::wait(lock, predicate)", chain)
            return
        old = self.lambda_lock
        self.lambda_lock = lockname
        for c in n.get("inner", []):
            if c.get("kind") == "CompoundStmt":
                self.visit(c, chain + [n])
        self.lambda_lock = old

    def v_CXXThisExpr(self, n, chain):
        cur = n
        for p in reversed(chain):
            k = p.get("kind")
            if k in ("ImplicitCastExpr", "ParenExpr") :
                cur = p
                continue
            if k == "MemberExpr":
                return
            break
        # `return *this;` hands the caller a reference to the object it already called the method on
        if len(chain) >= 2 and chain[-1].get("kind") == "UnaryOperator" and chain[-1].get("opcode") == "*" and chain[-2].get("kind") == "ReturnStmt":
            return
        # inside a std::thread construction (handled there) or an argument of the verification hook
        for p in reversed(chain):
            if p.get("kind") in ("CXXTemporaryObjectExpr", "CXXConstructExpr") and THREAD_TYPE.match(norm_std(qual(p))):
                return
            if p.get("kind") == "CXXOperatorCallExpr":
                args = p.get("inner", [])
                if len(args) >= 2:
                    o = self.skip_casts(args[1])
                    if o.get("kind") == "DeclRefExpr" and (o.get("referencedDecl") or {}).get("name") in HOOK_NAMES:
                        self.notes.append("%s::%s %s: `this` passed to the verification hook (trusted)" % (self.cls, self.name, self.site(n, chain)))
                        return
        self.unknown(n, "`this` escapes", chain)

    def v_DeclRefExpr(self, n, chain):
        rd = n.get("referencedDecl") or {}
        k = rd.get("kind")
        if k in ("CXXMethodDecl", "CXXConversionDecl"):
            # callee position of an operator call / address of a member function
            parent = chain[-1] if chain else {}
            gp = chain[-2] if len(chain) > 1 else {}
            if parent.get("kind") == "ImplicitCastExpr" and parent.get("castKind") == "FunctionToPointerDecay" and \
               gp.get("kind") in ("CXXOperatorCallExpr", "CallExpr") and gp.get("inner", [None])[0] is parent:
                m = self.tu.method_by_id.get(rd.get("id"))
                if m:
                    self.calls.append(m)
                return
            if parent.get("kind") == "UnaryOperator" and parent.get("opcode") == "&":
                for p in reversed(chain):
                    if p.get("kind") in ("CXXTemporaryObjectExpr", "CXXConstructExpr") and THREAD_TYPE.match(norm_std(qual(p))):
                        m = self.tu.method_by_id.get(rd.get("id"))
                        if m:
                            self.forks.append(m)
                            return
            self.unknown(n, "pointer to member function %s escapes" % rd.get("name"), chain)
            return
        if k in ("VarDecl",):
            vid = rd.get("id")
            if vid in self.lockvars:
                return self.lock_use(n, chain)
            if vid in self.locals:
                return
            t = rd.get("type", {}).get("qualType", "")
            rw, note = self.classify(n, chain)
            sync = self.tu.sync_type(t)
            self.access("global::%s" % rd.get("name"), rw, sync, n, chain, note)
            return
        # ParmVarDecl, FunctionDecl, EnumConstantDecl, BindingDecl, NonTypeTemplateParmDecl: no shared state
        if k in ("ParmVarDecl", "FunctionDecl", "EnumConstantDecl", "BindingDecl", "NonTypeTemplateParmDecl", "CXXConstructorDecl"):
            return
        self.unknown(n, "reference to a %s" % k, chain)

    def lock_use(self, n, chain):
        lk = self.lockvars[n["referencedDecl"]["id"]]
        parent = chain[-1] if chain else {}
        gp = chain[-2] if len(chain) > 1 else {}
        if parent.get("kind") == "MemberExpr" and gp.get("kind") == "CXXMemberCallExpr" and parent.get("name") == "unlock":
            if self.loops != lk["loops"] or lk not in self.locks:
                self.unknown(n, "unlock of a lock object inside a loop that does not contain its declaration", chain)
            lk["active"] = False
            return
        # argument of condition_variable::wait
        call = next((p for p in reversed(chain) if p.get("kind") == "CXXMemberCallExpr"), None)
        if call is not None:
            callee = call.get("inner", [{}])[0]
            obj = self.skip_casts(callee.get("inner", [{}])[0]) if callee.get("kind") == "MemberExpr" else {}
            if callee.get("name") in ("wait",) and self.is_field_member(obj) and \
               CV_TYPE.match(norm_std(self.tu.field_by_id[obj["referencedMemberDecl"]][2])) and \
               any(self.skip_casts(a) is n for a in call.get("inner", [])[1:]):
                if not lk["active"]:
                    self.unknown(n, "condition_variable::wait on a released lock", chain)
                return
        self.unknown(n, "lock object used in a way that is not understood", chain)
        lk["active"] = False

    def v_MemberExpr(self, n, chain):
        ref = n.get("referencedMemberDecl")
        if ref in self.tu.field_by_id:
            fc, fn, ft, fd = self.tu.field_by_id[ref]
            base = self.skip_casts(n.get("inner", [{}])[0])
            if self.is_field_member(base):
                bc = self.tu.field_by_id[base["referencedMemberDecl"]][0]
                # a field of a sub-object: the access is to the outermost member; handled when the base is visited
                return self.children(n, chain)
            if fc in TRANSLATED or base.get("kind") == "CXXThisExpr":
                rw, note = self.classify(n, chain)
                t = norm_std(ft)
                sync = self.tu.sync_type(ft) or self.tu.sync_type(fd)
                if ft.rstrip().endswith("&"):
                    rw, note = "Rd", "reference member"
                self.access("%s::%s" % (fc, fn), rw, sync, n, chain, note)
                if MUTEX_TYPE.match(t) and chain and chain[-1].get("kind") == "MemberExpr" and chain[-1].get("name") in ("lock", "unlock", "try_lock"):
                    self.unknown(n, "manual %s() of a mutex" % chain[-1].get("name"), chain)
                if THREAD_TYPE.match(t) and chain and chain[-1].get("kind") == "MemberExpr":
                    if chain[-1].get("name") == "join":
                        self.joins += 1
                    elif chain[-1].get("name") == "detach":
                        self.unknown(n, "thread detached", chain)
            return self.children(n, chain)
        if ref in self.tu.method_by_id:
            self.calls.append(self.tu.method_by_id[ref])
            return self.children(n, chain)
        # method or field of a class outside namespace bfl (std, Eigen): only the object expression matters
        self.children(n, chain)

    def v_CXXTemporaryObjectExpr(self, n, chain):
        return self.construct(n, chain)

    def v_CXXConstructExpr(self, n, chain):
        return self.construct(n, chain)

    def construct(self, n, chain):
        if THREAD_TYPE.match(norm_std(qual(n))):
            args = [self.skip_casts(a) for a in n.get("inner", [])]
            shape_ok = len(args) == 2 and args[0].get("kind") == "UnaryOperator" and args[0].get("opcode") == "&" and \
                self.skip_casts(args[0].get("inner", [{}])[0]).get("kind") == "DeclRefExpr" and args[1].get("kind") == "CXXThisExpr"
            if len(args) == 1 and args[0].get("kind") in ("CXXTemporaryObjectExpr", "CXXConstructExpr"):
                shape_ok = True   # move construction from the temporary
            if len(args) == 0:
                shape_ok = True
            if not shape_ok:
                self.unknown(n, "std::thread construction of a shape that is not understood", chain)
                return
        self.children(n, chain)


def translate_tu(src):
    """Runs clang on one source file; returns a picklable summary of the translation unit."""
    key = build.sha(VERSION, build.read(os.path.abspath(__file__)), build.headers_hash(), build.read(src), " ".join(clang_cmd("X")))
    cdir = os.path.join(build.BUILD, "C10_cache")
    os.makedirs(cdir, exist_ok=True)
    cp = os.path.join(cdir, os.path.basename(src) + "-" + key + ".pkl")
    if os.path.exists(cp):
        try:
            with open(cp, "rb") as f:
                return pickle.load(f)
        except Exception:
            pass
    p = subprocess.run(clang_cmd(src), capture_output=True, text=True, timeout=600)
    if p.returncode != 0:
        return {"src": src, "error": "clang failed on %s:\n%s" % (src, p.stderr[-2000:])}
    tu = TU(src, parse_objects(p.stdout))
    cls = [c for c, f in TRANSLATED.items() if os.path.join(build.SRC, "src", f) == src]
    out = {"src": src, "records": tu.records, "methods": {}, "error": None}
    for (c, name, typ), node in tu.bodies.items():
        if c not in cls:
            continue
        b = Body(tu, c, name, node)
        mi = next((m for m in tu.records.get(c, {}).get("methods", {}).get(name, []) if m["type"] == typ), {})
        out["methods"].setdefault((c, name), []).append({
            "type": typ, "virtual": mi.get("virtual", False), "accesses": b.accesses, "calls": sorted(set(b.calls)),
            "forks": b.forks, "joins": b.joins, "notes": b.notes, "site": b.site(node)})
    tmp = cp + ".tmp%d" % os.getpid()
    with open(tmp, "wb") as f:
        pickle.dump(out, f)
    os.replace(tmp, cp)
    build.prune(cdir, keep=120)
    return out


# ----------------------------------------------------------------------------- linking

def translate():
    """Returns the table and everything the plug-in reports about it."""
    t0 = time.time()
    srcs = sorted(set(os.path.join(build.SRC, "src", f) for f in TRANSLATED.values()))
    problems = []
    missing = [s for s in srcs if not os.path.exists(s)]
    for s in missing:
        problems.append("source file %s of a translated class is missing" % s)
    with ThreadPoolExecutor(6) as ex:
        tus = list(ex.map(translate_tu, [s for s in srcs if s not in missing]))
    records, methods = {}, {}
    for tu in tus:
        if tu.get("error"):
            problems.append(tu["error"])
            continue
        for c, r in tu["records"].items():
            if c not in records or (not records[c]["methods"] and r["methods"]):
                records[c] = r
        for k, v in tu["methods"].items():
            methods.setdefault(k, []).extend(v)
    for c in TRANSLATED:
        if c not in records:
            problems.append("class %s was not found in its translation unit" % c)
        else:
            declared = set(records[c]["methods"])
            have = set(n for (cc, n) in methods if cc == c)
            # a declared, non-pure method without a translated body (defined in another file?) is not understood
            for mname, ovs in records[c]["methods"].items():
                if mname not in have and not all(o["pure"] for o in ovs) and not mname.startswith("operator") and mname != "~" + c:
                    problems.append("method %s::%s has no body in %s" % (c, mname, TRANSLATED[c]))

    def ancestors(c, acc=None):
        acc = set() if acc is None else acc
        for b in records.get(c, {}).get("bases", []):
            if b not in acc:
                acc.add(b)
                ancestors(b, acc)
        return acc
    anc = {c: ancestors(c) for c in records}

    def related(c):
        """c, its ancestors, and every class that has c as an ancestor."""
        return {c} | anc.get(c, set()) | {d for d in records if c in anc.get(d, set())}

    def resolve(c, m):
        return sorted((d, m) for d in related(c) if d in TRANSLATED and (d, m) in methods)

    def reach(roots):
        seen, todo, unresolved = [], list(roots), []
        while todo:
            k = todo.pop(0)
            if k in seen:
                continue
            if k not in methods:
                continue
            seen.append(k)
            for ov in methods[k]:
                for (c, m) in ov["calls"]:
                    tg = resolve(c, m)
                    for t in tg:
                        if t not in seen:
                            todo.append(t)
        return seen

    ctl_roots = []
    for (c, m) in CTL_ROOTS:
        if (c, m) not in methods:
            problems.append("control API method %s::%s not found" % (c, m))
        ctl_roots += resolve(c, m)
    ctl = reach(ctl_roots)
    forks = sorted(set(f for k in ctl for ov in methods[k] for f in ov["forks"]))
    joins = [k for k in ctl if any(ov["joins"] for ov in methods[k])]
    if not forks:
        problems.append("no thread creation found in the control API (boot)")
    if not joins:
        problems.append("no thread join found in the control API (wait)")
    flt_roots = []
    for (c, m) in list(forks) + FLT_ASSUMED_ROOTS:
        r = resolve(c, m)
        if not r:
            problems.append("filtering-thread root %s::%s not found" % (c, m))
        flt_roots += r
    flt = reach(flt_roots)
    # a thread created anywhere but in the control API is not modelled
    for k in flt:
        for ov in methods[k]:
            if ov["forks"] or ov["joins"]:
                problems.append("thread creation/join inside the filtering thread (%s::%s)" % k)

    def entries(keys, thread):
        out = []
        for k in sorted(keys):
            accs = []
            for ov in methods[k]:
                for a in ov["accesses"]:
                    if a not in accs:
                        accs.append(a)
            out.append({"method": "%s::%s" % k, "thread": thread, "phase": "Concurrent", "accs": accs})
        return out
    table = entries(ctl, "Ctl") + entries(flt, "Flt")
    # model-level entries: construction writes every member before boot(); destruction after wait()
    used = sorted(set(a[0] for e in table for a in e["accs"] if a[0] and "::" in a[0] and not a[0].startswith(("global::", "static::"))))
    table.insert(0, {"method": "(construction)", "thread": "Ctl", "phase": "PreFork",
                     "accs": [(v, "Wr", "Plain", "construction", "") for v in used]})
    table.append({"method": "(destruction)", "thread": "Ctl", "phase": "PostJoin",
                  "accs": [(v, "Wr", "Plain", "destruction", "") for v in used]})
    if problems:
        table.append({"method": "(translator)", "thread": "Flt", "phase": "Concurrent",
                      "accs": [(None, "Wr", "Plain", "translator", p[:120]) for p in problems]})
    notes = [n for k in set(ctl) | set(flt) for ov in methods[k] for n in ov["notes"]]
    info = {"table": table, "problems": problems, "notes": sorted(set(notes)), "ctl_methods": ["%s::%s" % k for k in ctl],
            "flt_methods": ["%s::%s" % k for k in flt], "forks": ["%s::%s" % f for f in forks], "joins": ["%s::%s" % j for j in joins],
            "translated_classes": sorted(TRANSLATED), "seconds": round(time.time() - t0, 2),
            "n_methods_translated": len(methods)}
    info["offenders"] = offenders(table)
    info["racy_vars"] = racy_vars(info["offenders"])
    info["shared_vars"] = shared_vars(table)
    info["sites"] = site_map(table)
    return info


# ----------------------------------------------------------------------------- Python mirror of the Coq checker (reporting only;
# C10_AccessTable.v proves that it agrees with the Coq checker on the generated table)

def may_alias(v, w):
    return v is None or w is None or v == w


def pair_ok(c, f, cphase):
    conflicting = may_alias(c[0], f[0]) and (c[1] == "Wr" or f[1] == "Wr")
    if not conflicting:
        return True
    if c[2] == "Atomic" and f[2] == "Atomic":
        return True
    if c[2].startswith("Mutex ") and c[2] == f[2]:
        return True
    return cphase != "Concurrent"


def offenders(table):
    out = []
    for ce in table:
        if ce["thread"] != "Ctl":
            continue
        for c in ce["accs"]:
            for fe in table:
                if fe["thread"] != "Flt":
                    continue
                for f in fe["accs"]:
                    if not pair_ok(c, f, ce["phase"]):
                        out.append({"ctl_method": ce["method"], "ctl": c, "flt_method": fe["method"], "flt": f})
    return out


def racy_vars(offs):
    out = []
    for o in offs:
        for v in (o["ctl"][0], o["flt"][0]):
            v = v if v is not None else "unknown"
            if v not in out:
                out.append(v)
    return out


def shared_vars(table):
    c = set(a[0] for e in table if e["thread"] == "Ctl" and e["phase"] == "Concurrent" for a in e["accs"])
    f = set(a[0] for e in table if e["thread"] == "Flt" for a in e["accs"])
    return sorted((v if v else "unknown") for v in c & f)


def site_map(table):
    m = {}
    for e in table:
        for a in e["accs"]:
            m.setdefault(a[3], set()).add(a[0] if a[0] else "unknown")
    return {k: sorted(v) for k, v in m.items()}


# ----------------------------------------------------------------------------- Coq output

def cq(s):
    return '"' + s.replace('"', '""') + '"'


def coq_access(a):
    var = "Unknown" if a[0] is None else "Named %s" % cq(a[0])
    prot = a[2] if not a[2].startswith("Mutex ") else "Mutex %s" % cq(a[2][6:])
    return "mkAcc (%s) %s (%s) %s" % (var, a[1], prot, cq(a[3]))


def render(info, name="current_table", header=None):
    L = header or ["(* C10_AccessTable.v — GENERATED by props/C10_translate.py from the C++ sources on every run.",
         "   Do not edit; not under version control. *)",
         "Require Import List String.", "Import ListNotations.", "Require Import BFL.C10_Model.",
         "Local Open Scope string_scope.", ""]
    L.append("Definition %s : table := [" % name)
    ents = []
    for e in info["table"]:
        accs = ";\n      ".join(coq_access(a) for a in e["accs"])
        ents.append("  mkEntry %s %s %s [\n      %s]" % (cq(e["method"]), e["thread"], e["phase"], accs))
    L.append(";\n".join(ents))
    L.append("].")
    L.append("")
    if name != "current_table":
        return "\n".join(L) + "\n"
    L.append("(* the racy variables as computed by the translator's Python mirror of the checker *)")
    L.append("Definition py_racy_vars : list string := [%s]." % "; ".join(cq(v) for v in info["racy_vars"]))
    L.append("Definition py_offender_count : nat := %d." % len(info["offenders"]))
    L.append("")
    L.append("Lemma py_checker_agrees : racy_vars current_table = py_racy_vars /\\ List.length (race_freeb current_table) = py_offender_count.")
    L.append("Proof. vm_compute. split; reflexivity. Qed.")
    return "\n".join(L) + "\n"


def write_table(info):
    """Writes coq/C10_AccessTable.v (only if the content changed, so that make does not rebuild needlessly)."""
    txt = render(info)
    path = os.path.join(build.COQ, "C10_AccessTable.v")
    old = None
    if os.path.exists(path):
        with open(path) as f:
            old = f.read()
    if old != txt:
        tmp = path + ".tmp%d" % os.getpid()
        with open(tmp, "w") as f:
            f.write(txt)
        os.replace(tmp, path)
    return path, hashlib.sha256(txt.encode()).hexdigest()[:16]


def main():
    info = translate()
    if "--dry" in sys.argv:
        path, h = "(dry run: table not written)", hashlib.sha256(render(info).encode()).hexdigest()[:16]
    else:
        path, h = write_table(info)
    print("wrote %s (%s): %d entries, %d accesses, %.1fs" % (path, h, len(info["table"]), sum(len(e["accs"]) for e in info["table"]), info["seconds"]))
    print("Ctl methods:", ", ".join(info["ctl_methods"]))
    print("Flt methods:", ", ".join(info["flt_methods"]))
    print("forks:", info["forks"], "joins:", info["joins"])
    print("shared variables:", info["shared_vars"])
    print("racy variables:", info["racy_vars"], "(%d offending pairs)" % len(info["offenders"]))
    for p in info["problems"]:
        print("PROBLEM:", p)
    for n in info["notes"]:
        print("note:", n)
    if "-v" in sys.argv:
        for e in info["table"]:
            print(e["method"], e["thread"], e["phase"])
            for a in e["accs"]:
                print("    ", a)
    return 0


if __name__ == "__main__":
    sys.exit(main())
