"""C13 — skip commands are safe, reversible and turn the skipped step into the identity (DESIGN.md §5 C13)."""
import itertools
import numpy as np
from vlib import caseio, gen

ID = "C13"
COQ_TARGETS = ["C13_Extract.vo", "C13_Proofs.vo", "C13_Link.vo", "C13_Regress.vo", "C13_Life.vo", "C13_LifeProofs.vo"]
COQ_PREFIXES = ["C13", "C02"]
EXTRACTED = "C13_model"
DRIVER = "drv_C13.ml"
HARNESS = "h_C13.cpp"
VARIANTS = {"quick": ["O1"], "thorough": ["O1", "asan"]}
AXIOMS_ALLOWED = []
REQUIRED_THEOREMS = ["C13_known_names_true_nothrow", "C13_never_throws", "C13_exogenous_with_model_true", "C13_exogenous_true_after_any_word",
                     "C13_exogenous_supplied_true", "C13_modes_are_linear_propagate",
                     "C13_exogenous_without_model_false_unchanged", "C13_unknown_false_unchanged", "C13_flags_match_commands",
                     "C13_prediction_reported", "C13_skipped_prediction_is_identity", "C13_skipped_correction_is_identity",
                     "C13_identity_after_prediction_on", "C13_identity_after_correction_on", "C13_identity_by_rule",
                     "C13_correction_identity_by_rule", "C13_reversible", "C13_all_off_restores_fresh_state",
                     "C13_reversible_all_off", "C13_reachable_predictions", "C13_each_guard_is_needed", "C13_prediction_restored",
                     "C13_correction_restored", "C13_state_skipped_gaussian_identity", "C13_state_skipped_gpf_identity_partial",
                     "C13_move_keeps_every_flag", "C13_moves_unobservable", "C13_move_at_any_position", "C13_moved_objects_report_commands",
                     "C13_identity_with_moves", "C13_steps_with_moves"]
RULE = ("words over the 12 skip commands {prediction,state,exogenous,correction,all,<bogus>} x {on,off} and the call freeze_measurements(), on assembled filters: "
        "GaussianFilter with KF, additive-UKF, generic-UKF + SUKF steps; SIS with bootstrap and Gaussian-particle (KF or UKF inside) steps; a bootstrap filter whose "
        "exogenous model is given to the DrawParticles constructor; each with and without exogenous model; measurement source = a counting stream sensor or the "
        "library's SimulatedLinearSensor over a SimulatedStateModel; every word starts with one freeze. quick: every word of length <= 3 with predict and correct "
        "after every symbol, every word of length 4 packed (answers, final flags, one predict and one correct at the end) on all 10 configurations, and 1500 random "
        "words of length 4..8 with random interleaving; thorough: additionally every word of length 5 on all configurations, every word of length 6 of skip commands "
        "on the 4 (family, exogenous) combinations, 20000 random words of length <= 30. "
        "beliefs: linear for KF / bootstrap, also Euler-circular and quaternion layouts for UKF, Euler-circular for generic-UKF+SUKF and Gaussian-particle(UKF); "
        "where the code assigns the whole output object (skipped wrapper, KF/UKF predictStep test) half of the steps get an output object of another shape; "
        "every step is compared bitwise with the input and with never-skipped twins that received the same freeze / predict / correct calls; "
        "OBJECT LIFETIMES: the operation 'move' replaces the filter by a new one whose prediction and correction steps are obtained from the current "
        "ones (fresh, or after any commands / steps) by move construction ('move'), by move assignment onto freshly built steps ('move=', the classes that have one: "
        "KF/UKFPrediction, DrawParticles, GPFPrediction, BootstrapCorrection, GPFCorrection; KF/UKF/SUKFCorrection have a move constructor only) or onto steps told to "
        "skip everything ('move=!'); the flags are read back right after the move: every word of length <= 2 with one move at every position on all configurations, "
        "and 1..3 moves at random positions in half of the random words; the never-skipped twins are never moved; "
        "STAND-ALONE steps (half of the move words, 25% of the random words): the commands are given to the step objects themselves "
        "(Prediction::skip(name, status), Correction::skip(status); 'all' = both); "
        "INTRUDER (every word of length <= 2 on all configurations, 30% of the random words): another filter object of the same configuration receives a fixed cycle "
        "of OTHER skip commands and runs predict + correct on beliefs of its own before every operation of the word and inside every callback of the subject's and the twins' "
        "state / exogenous / measurement models; nothing observed may change; "
        "non-trivial = a word with at least two commands one of which is 'on'; distinct by (configuration, exogenous, word incl. moves)")
TRUSTED_BASE = ["Coq 8.16.1 kernel (coqc); no axioms (Print Assumptions: closed under the global context)",
                "extraction (ExtrOcamlBasic only) and ocaml/drv_C13.ml, ocaml/caseio.ml",
                "cpp/h_C13.cpp harness: its test models (LTI state model with a history-independent noise sample, affine exogenous model, "
                "served measurement), the classification of a step's output by bitwise comparison with the input and with never-skipped twins",
                "the model abstracts the numerical bodies of predictStep / correctStep as arbitrary functions (pstep, cstep); what they compute is C01-C08's subject",
                "correspondence is sampled beyond the exhaustively enumerated word lengths"]
ASSUMPTIONS = ["a move of the step objects is modelled as one operation (C13_Life.LMove) whatever the C++ form (constructor / assignment, fresh or used target); "
               "the filter objects themselves cannot be moved (deleted move operations) and hold no skip state of their own",
               "GPFPrediction::predictStep: the output particle set has the input's shape (C13_state_skipped_gpf_identity_partial; otherwise the sliced "
               "assignment + Ref copy leave an inconsistent object, C13_state_skipped_gpf_other_shape) -- as for every non-skipped step (C14)",
               "the filter is driven from one thread (data races on the flags are C10's subject)",
               "the correction's skip flag has no accessor; it is observed through the behaviour of correct() only",
               "GPFPrediction's wrapped GaussianPrediction is not reachable by skip commands (modelled flag f_inner, proved never to change)"]
TIMEOUT = 3000

NAMES = ["prediction", "state", "exogenous", "correction", "all"]
BOGUS = ["bogus", "Prediction", "states", "al", "correct"]
KINDS = ["kf", "ukf", "ukfg", "boot", "gpf"]     # ukfg: generic UKFPrediction constructor + SUKFCorrection
# Case kind boot2: a bootstrap filter whose exogenous model is handed to DrawParticles(state_model, exogenous_model).
# Before "fix: DrawParticles attaches the exogenous model it is constructed with" (567e2e7) that constructor only stored the
# model in a member nothing reads (old transcription and refuted witness: C13_Regress.v). The model now says it attaches it.
PROBE_DRAWPARTICLES_CTOR = True
DRAWPARTICLES_CTOR_ATTACHES = True


def _w(c, name):
    """word operand, [] when absent (an empty word is not written: the shared case reader drops empty word lines)"""
    return list(c.get(name)) if c.has(name) else []


MOVES = ["move", "move=", "move=!"]      # move construction; move assignment onto fresh steps; onto steps told to skip everything


def alphabet(bogus="bogus", freeze=True):
    """the 12 skip commands, and the schedulable call freeze_measurements() on the correction step"""
    return ["%s:%s" % (n, s) for n in NAMES + [bogus] for s in ("on", "off")] + (["freeze"] if freeze else [])


LAYOUTS = {   # (dim_linear, dim_circular, use_quaternion)
    "kf": [(1, 0, 0), (2, 0, 0), (3, 0, 0)], "boot": [(1, 0, 0), (2, 0, 0), (3, 0, 0)], "boot2": [(1, 0, 0), (2, 0, 0), (3, 0, 0)],
    "ukf": [(1, 0, 0), (2, 0, 0), (3, 0, 0), (1, 1, 0), (0, 1, 0), (2, 1, 0), (0, 2, 0), (1, 1, 1), (0, 1, 1), (2, 1, 1)],
    "ukfg": [(1, 0, 0), (2, 0, 0), (3, 0, 0), (1, 1, 0), (0, 1, 0), (2, 1, 0)],
    "gpf:kf": [(2, 0, 0), (3, 0, 0)], "gpf:ukf": [(2, 0, 0), (3, 0, 0), (1, 1, 0), (2, 1, 0), (0, 2, 0)],
}


def operands(rng, c, kind, allow_quat=True):
    key = kind
    if kind == "gpf":
        c.meta["inner"] = rng.choice(["kf", "ukf"])
        key = "gpf:" + c.meta["inner"]
    lin, circ, quat = rng.choice([l for l in LAYOUTS[key] if allow_quat or not l[2]])
    n = lin + circ * (4 if quat else 1)
    nc = lin + circ * (3 if quat else 1)
    m = rng.choice([1, 2])
    # the measurement source: the harness' counting stream sensor, or the library's SimulatedLinearSensor over a SimulatedStateModel
    sensor = "stream" if (quat or rng.random() < 0.6) else "sim"
    if sensor == "sim":
        m = min(m, n)
    c.meta["sensor"] = sensor
    F = gen.matrix(rng, n, n) + 0.3 * np.eye(n)
    Q, _ = gen.spd(rng, nc, 10.0, 0.5)
    R, _ = gen.spd(rng, m, 10.0, 0.5)
    c.mat("F", F).mat("Q", Q).mat("H", gen.matrix(rng, m, n)).mat("R", R).mat("y", gen.matrix(rng, m, 1, 2.0))
    c.mat("noise", gen.matrix(rng, n, 1, 0.7)).mat("x0", gen.matrix(rng, n, 1, 2.0))
    c.mat("B", gen.matrix(rng, n, n)).mat("c", gen.matrix(rng, n, 1, 4.0))
    c.int("seed", rng.randrange(1, 2 ** 31))
    c.meta["n"] = n
    c.meta["circ"] = circ
    c.meta["quat"] = quat
    c.meta["np"] = rng.choice([1, 2, 3, 4])


def step_ops(rng, kind, exo_eff, st, which, quat=0):
    """predict / correct tokens after the commands seen so far (rule state st = (S, E, C)).  Where the code assigns the
    WHOLE output object (wrapper skip; KF/UKF predictStep's own test) the output object handed in may have any shape:
    half of those steps get an output object of another shape ("!").  Everywhere else a different shape is outside the
    steps' contract (C14) and, for the Gaussian-particle prediction with the state model skipped, the documented premise."""
    S, E, C = st
    P = S and (E or not exo_eff)
    out = []
    for w in which:
        if w == "predict":
            whole = P or (S and kind in ("kf", "ukf", "ukfg"))
            out.append("predict!" if whole and rng.random() < 0.5 else "predict")
        elif quat and not C:
            # UKFCorrection on a quaternion state is the open finding C14:UKFCorrection::correct:quaternion-state
            # (tangent-space correction added to a 4-number mean): only skipped corrections are exercised there
            continue
        else:
            out.append("correct!" if C and rng.random() < 0.5 else "correct")
    return out


def word_case(rng, cid, kind, exo, cmds, interleave, intrude=False, direct=False):
    """interleave: 'all' = predict and correct after every command; 'random'; 'end'"""
    c = caseio.Case(cid, kind, {"exo": int(exo), "mode": "word", "len": len(cmds), "freezes": 1 + sum(1 for x in cmds if x == "freeze"),
                                "moves": sum(1 for x in cmds if x in MOVES)})
    operands(rng, c, kind)
    exo_eff = bool(exo) and (kind != "boot2" or DRAWPARTICLES_CTOR_ATTACHES)
    st = (False, False, False)
    ops = ["freeze"]                 # every word starts with one freeze (the library's stream sensor has no measurement before)
    if interleave == "random" and rng.random() < 0.5:
        ops += step_ops(rng, kind, exo_eff, st, ["predict", "correct"], c.meta["quat"])
    for x in cmds:
        ops.append(x)
        if ":" in x:
            name, s_ = x.rsplit(":", 1)
            st = rule_step(st, name, s_ == "on", exo_eff)
        if interleave == "all":
            ops += step_ops(rng, kind, exo_eff, st, ["predict", "correct"], c.meta["quat"])
        elif interleave == "random":
            ops += step_ops(rng, kind, exo_eff, st, rng.choice([[], ["predict"], ["correct"], ["predict", "correct"], ["correct", "predict"]]), c.meta["quat"])
    if interleave != "all":
        ops += step_ops(rng, kind, exo_eff, st, ["predict", "correct"], c.meta["quat"])
    c.meta["traj"] = 2 + sum(1 for o in ops if o == "freeze")      # length of the simulated trajectory behind the library's sensor
    c.meta["intrude"] = int(intrude)
    c.meta["direct"] = int(direct)        # the commands are given to the step objects themselves (stand-alone use of the steps)
    if ops:
        c.word("ops", ops)
    return c


def enum_case(rng, cid, kind, exo, prefix, ext, freeze=True):
    c = caseio.Case(cid, kind, {"exo": int(exo), "mode": "enum", "len": len(prefix) + ext})
    operands(rng, c, kind, allow_quat=False)
    c.meta["traj"] = 3 + len(prefix) + ext
    c.word("alphabet", alphabet(freeze=freeze))
    if prefix:
        c.word("prefix", prefix)
    c.int("ext", ext)
    return c


def random_words(rng, cases, cfgs, nrand, maxlen):
    """random words with other bogus names, random interleaving of predict / correct, moves of the step objects at random
    points, the intruder, commands given to the steps directly"""
    for _ in range(nrand):
        k, e = rng.choice(cfgs)
        Ab = alphabet(rng.choice(BOGUS))
        L = rng.randint(4, maxlen)
        # bias towards words that end with everything switched off
        w = [rng.choice(Ab) for _ in range(L)]
        if rng.random() < 0.3:
            w += rng.choice([["all:off"], ["prediction:off", "correction:off"], ["correction:off", "prediction:off"],
                             ["state:off", "exogenous:off", "correction:off"]])
        if rng.random() < 0.5:
            # the step objects are replaced by objects moved from them, at random points of the word
            for _m in range(rng.randint(1, 3)):
                w.insert(rng.randint(0, len(w)), rng.choice(MOVES))
        cases.append(word_case(rng, len(cases), k, e, w, rng.choice(["all", "random", "random"]), intrude=rng.random() < 0.3, direct=rng.random() < 0.25))
        if k == "boot2":
            cases[-1].meta["attach"] = int(DRAWPARTICLES_CTOR_ATTACHES)


SEARCH_CASES = 3000


def search_cases(rng):
    """the widened search (vlib/runner.py widen_if_needed): random words of length 4..30 on all configurations, another seed"""
    cases = []
    cfgs = [(k, e) for k in KINDS for e in (0, 1)] + ([("boot2", 1)] if PROBE_DRAWPARTICLES_CTOR else [])
    random_words(rng, cases, cfgs, SEARCH_CASES, 30)
    return cases


def generate(rng, tier):
    cases = []
    A = alphabet()
    cfgs = [(k, e) for k in KINDS for e in (0, 1)]

    def nid():
        return len(cases)
    # every word of length <= 3, predict + correct after every command, on all configurations
    for L in range(0, 4):
        for w in itertools.product(A, repeat=L):
            for (k, e) in cfgs:
                cases.append(word_case(rng, nid(), k, e, list(w), "all"))
    # another filter object receives other commands and runs steps before every operation and inside every model callback
    # (class (b): flags shared between objects): every word of length <= 2 on all configurations
    for L in range(0, 3):
        for w in itertools.product(A, repeat=L):
            for (k, e) in cfgs + ([("boot2", 1)] if PROBE_DRAWPARTICLES_CTOR else []):
                cases.append(word_case(rng, nid(), k, e, list(w), "all", intrude=True))
                if k == "boot2":
                    cases[-1].meta["attach"] = int(DRAWPARTICLES_CTOR_ATTACHES)
    # object lifetimes: every word of length <= 2 with one move at every position (the three forms of move rotate over
    # words, positions and configurations), predict + correct after every symbol, on all configurations
    mv = 0
    for L in range(0, 3):
        for w in itertools.product(A, repeat=L):
            for pos in range(L + 1):
                for ci, (k, e) in enumerate(cfgs + ([("boot2", 1)] if PROBE_DRAWPARTICLES_CTOR else [])):
                    w2 = list(w[:pos]) + [MOVES[(mv + ci) % 3]] + list(w[pos:])
                    cases.append(word_case(rng, nid(), k, e, w2, "all", direct=(mv + ci) % 2 == 1))
                    if k == "boot2":
                        cases[-1].meta["attach"] = int(DRAWPARTICLES_CTOR_ATTACHES)
                mv += 1
    # every word of length 4 (packed), on all configurations
    for (k, e) in cfgs:
        cases.append(enum_case(rng, nid(), k, e, [], 4))
    if PROBE_DRAWPARTICLES_CTOR:
        # the two-argument DrawParticles constructor: every word of length <= 2 fully interleaved, every word of length 4 packed
        for L in range(0, 3):
            for w in itertools.product(A, repeat=L):
                cases.append(word_case(rng, nid(), "boot2", 1, list(w), "all"))
                cases[-1].meta["attach"] = int(DRAWPARTICLES_CTOR_ATTACHES)
        for e, w in [(1, ["exogenous:on", "prediction:on", "all:off"]), (1, ["state:on", "exogenous:off"]), (0, ["exogenous:on", "state:on"])]:
            cases.append(word_case(rng, nid(), "boot2", e, w, "all"))
            cases[-1].meta["attach"] = int(DRAWPARTICLES_CTOR_ATTACHES)
        cases.append(enum_case(rng, nid(), "boot2", 1, [], 4))
        cases[-1].meta["attach"] = int(DRAWPARTICLES_CTOR_ATTACHES)
    # random longer words with other bogus names and random interleaving
    nrand, maxlen = (1500, 8) if tier == "quick" else (20000, 30)
    random_words(rng, cases, cfgs, nrand, maxlen)
    if tier == "thorough":
        # every word of length 5 on all configurations; every word of length 6 on the four (family, exogenous) combinations
        for (k, e) in cfgs:
            for a in A:
                cases.append(enum_case(rng, nid(), k, e, [a], 4))
        for fam in (("kf", "ukf", "ukfg"), ("boot", "gpf")):
            for e in (0, 1):
                for i, (a, b) in enumerate(itertools.product(alphabet(freeze=False), repeat=2)):
                    cases.append(enum_case(rng, nid(), fam[i % len(fam)], e, [a, b], 4, freeze=False))
    return cases


def nontrivial(c):
    if c.meta["mode"] == "enum":
        return (c.kind, c.meta["exo"], "enum", " ".join(_w(c, "prefix")), c.meta["len"])
    cmds = [o for o in _w(c, "ops") if ":" in o]
    if len(cmds) >= 2 and any(o.endswith(":on") for o in cmds):
        return (c.kind, c.meta["exo"], " ".join(o for o in _w(c, "ops") if ":" in o or o in MOVES))
    return None


# ---------------------------------------------------------------- the rule, evaluated independently of the model

def rule_step(st, name, status, exo):
    """st = (S, E, C): last-command rule of the property; returns new st"""
    S, E, C = st
    if name in ("prediction", "state", "all"):
        S = status
    if exo and name in ("prediction", "exogenous", "all"):
        E = status
    if name in ("correction", "all"):
        C = status
    return (S, E, C)


def expected_answer(name, exo):
    if name in ("prediction", "state", "correction", "all"):
        return "true"
    if name == "exogenous":
        return "true" if exo else "false"
    return "false"


def norm_model_token(tok, exo):
    # without exogenous model the never-skipped step IS the state model alone
    if not exo and tok == "stateonly":
        return "full"
    return tok


def compare(c, impl, model):
    exo = bool(int(c.meta["exo"])) and (c.kind != "boot2" or str(c.meta.get("attach", "0")) == "1")
    key = "enum" if c.meta["mode"] == "enum" else "trace"
    a, b = impl.get(key), model.get(key)
    if a is None or b is None:
        return ["%s: missing (impl %s, model %s)" % (key, a is not None, b is not None)]
    if len(a) != len(b):
        return ["%s: %d tokens from the implementation, %d from the model" % (key, len(a), len(b))]
    d = []
    if key == "trace":
        ops = ["<init>"] + list(_w(c, "ops"))
        for i, (x, y) in enumerate(zip(a, b)):
            if x != norm_model_token(y, exo):
                d.append("op %d (%s): impl=%s model=%s" % (i, ops[i], x, y))
    else:
        if not exo:
            b = [y.replace(",stateonly,", ",full,") for y in b]
        if a != b:
            words = enum_words(c)
            for i, (x, y) in enumerate(zip(a, b)):
                if x != y:
                    d.append("word '%s': impl=%s model=%s" % (" ".join(words(i)), x, y))
                    if len(d) >= 5:
                        break
    return d[:8]


def enum_words(c):
    A, prefix, ext = c.get("alphabet"), list(_w(c, "prefix")), c.get("ext")
    a = len(A)

    def word(i):
        idx = []
        for _ in range(ext):
            idx.append(i % a); i //= a
        return prefix + [A[j] for j in reversed(idx)]
    return word


def parse_flags(tok):
    d = dict(kv.split("=") for kv in tok.split(",") if "=" in kv)
    return d


def check_ops(cfg, exo, ops, toks, init_flags=None):
    """The property clauses along one word of operations. ops: 'name:on|off' | 'freeze' | 'predict[!]' | 'correct[!]';
    toks: per op the implementation's observation: skip -> ('true'|'false'|'throw', flags dict or None); freeze -> dict with
    freeze, meas (, n); step -> token.  The expected values come from the last-command rule alone (not from the model)."""
    v = []
    st = (False, False, False)
    done = []                       # operations so far, for the messages
    nfreeze = 0
    stale = False                   # a freeze was issued while the correction was skipped
    any_skip = False

    def flags_ok(fl, what):
        S, E, C = st
        P = S and (E or not exo)
        exp = {"P": "1" if P else "0", "S": "1" if S else "0", "E": ("1" if E else "0") if exo else "-"}
        got = {k: fl.get(k) for k in ("P", "S", "E")}
        if got != exp:
            v.append(("C13:%s:%s:exo=%d" % (what, cfg, exo), "after %s is_skipping() reports %s, the commands imply %s" % (done, got, exp)))
            return False
        return True
    if init_flags is not None:
        flags_ok(init_flags, "reported-state-mismatch")
    flags_bad = False
    for op, tok in zip(ops, toks):
        if op == "freeze":
            nfreeze += 1
            S, E, C = st
            if C:
                stale = True
            if tok.get("freeze") != "true" or tok.get("meas") != "same" or tok.get("n", "-") not in ("-", str(nfreeze)):
                v.append(("C13:freeze-not-forwarded:%s:%s" % (cfg, "while-skipped" if (S or E or C) else "never-skipped"),
                          "after %s freeze_measurements() #%d: returned %s, measurement %s as the never-skipped twin's, sensor received %s freeze calls"
                          % (done, nfreeze, tok.get("freeze"), tok.get("meas"), tok.get("n"))))
        elif op in MOVES:
            # the step objects were replaced by the objects moved from them: they report what the commands so far imply
            done = done + [op]
            if not flags_bad:
                flags_bad = not flags_ok(tok, "moved-step-reports-other-state:" + {"move": "move-constructed", "move=": "move-assigned",
                                                                                   "move=!": "move-assigned-over-skipping"}[op])
            continue
        elif ":" in op:
            name, s_ = op.rsplit(":", 1)
            canon = name if name in NAMES else "<unknown>"
            ans, fl = tok
            if ans == "throw":
                v.append(("C13:skip-throws:%s:exo=%d:%s" % (cfg, exo, canon), "skip('%s', %s) threw after %s" % (name, s_, done)))
            elif ans != expected_answer(name, exo):
                v.append(("C13:wrong-answer:%s:exo=%d:%s" % (cfg, exo, canon), "skip('%s', %s) returned %s after %s" % (name, s_, ans, done)))
            st = rule_step(st, name, s_ == "on", exo)
            any_skip = True
            done = done + [op]
            if fl is not None and not flags_bad:
                flags_bad = not flags_ok(fl, "unknown-name-changed-flags" if canon == "<unknown>" else "reported-state-mismatch")
            continue
        else:
            S, E, C = st
            P = S and (E or not exo)
            kind = op
            if kind.endswith("!"):
                # generated only where the code assigns the whole output object: must be the input, shape included
                kind = kind[:-1]
                if tok != "identity":
                    v.append(("C13:skipped-%s-not-identity:%s:exo=%d:other-shape-output" % ("prediction" if kind == "predict" else "correction", cfg, exo),
                              "after %s %s() into an output object of another shape returned '%s'" % (done, kind, tok)))
                    done = done + [op]
                    continue
            if tok == "other" and not (kind == "correct" and not C and stale):
                v.append(("C13:step-unclassified:%s:exo=%d:%s" % (cfg, exo, kind), "after %s the %s step returned neither its input nor what a never-skipped filter returns" % (done, kind)))
            if kind == "predict":
                if P and tok != "identity":
                    v.append(("C13:skipped-prediction-not-identity:%s:exo=%d" % (cfg, exo), "after %s predict() returned '%s'" % (done, tok)))
                if not S and not (E and exo) and tok != "full":
                    v.append(("C13:not-restored-after-switch-off:%s:exo=%d:predict" % (cfg, exo), "after %s (prediction fully on) predict() behaved as '%s'" % (done, tok)))
            else:
                if C and tok != "identity":
                    v.append(("C13:skipped-correction-not-identity:%s:exo=%d" % (cfg, exo), "after %s correct() returned '%s'" % (done, tok)))
                if not C and tok != "run":
                    if stale:
                        v.append(("C13:not-restored-after-switch-off:stale-measurement:%s" % cfg,
                                  "after %s (correction on again; a freeze was issued while it was skipped) correct() does not return what the "
                                  "never-skipped twin that received the same %d freeze calls returns ('%s')" % (done, nfreeze, tok)))
                    else:
                        v.append(("C13:not-restored-after-switch-off:%s:exo=%d:correct" % (cfg, exo), "after %s (correction on) correct() behaved as '%s'" % (done, tok)))
        done = done + [op]
    return v


def word_tokens(ops, tr):
    toks = []
    for op, tok in zip(ops, tr):
        if op == "freeze" or op in MOVES:
            toks.append(parse_flags(tok))
        elif ":" in op:
            toks.append((tok.split(",")[0][2:], parse_flags(tok.split(",", 1)[1]) if "," in tok else None))
        else:
            toks.append(tok)
    return toks


def check_enum(c, tokens, cfg, exo):
    """The clauses on a packed enumeration (each word: one freeze, the prefix, the extension, one predict, one correct).
    The rule state is carried along the lexicographic order of the words (depth-first over the word tree), so a word costs
    O(1); a word whose token differs from what the rule determines is re-examined by check_ops to name the violated clause."""
    A, prefix, ext = c.get("alphabet"), list(_w(c, "prefix")), c.get("ext")

    def sym(x):
        if x == "freeze":
            return ("freeze", False, "z")
        name, s_ = x.rsplit(":", 1)
        return (name, s_ == "on", {"true": "t", "false": "f"}[expected_answer(name, exo)])
    parsed = [sym(x) for x in A]
    st, ans = (False, False, False), "z"
    for x in prefix:
        name, status, ch = sym(x)
        st = rule_step(st, name, status, exo); ans += ch
    a = len(A)
    L = 1 + len(prefix) + ext
    if len(tokens) != a ** ext:
        return [("C13:harness-trace-length", "%d tokens for %d words" % (len(tokens), a ** ext))]
    v = []
    words = enum_words(c)
    pos = [0]

    def leaf(st, ans):
        i = pos[0]; pos[0] += 1
        S, E, C = st
        P = S and (E or not exo)
        head = "%s,P=%d,S=%d,E=%s," % (ans, P, S, ("%d" % E) if exo else "-")
        tok = tokens[i]
        ok = tok.startswith(head)
        if ok:
            pt, ct = tok[len(head):].split(",")
            ok = (ct == ("identity" if C else "run")) and pt != "other"
            if ok and P:
                ok = pt == "identity"
            elif ok and not S and not (E and exo):
                ok = pt == "full"
        if not ok and len(v) < 20:
            parts = tok.split(",")
            w = ["freeze"] + words(i)
            if len(parts[0]) != L or len(parts) != 6:
                v.append(("C13:harness-trace-length", "word %s: %s" % (w, tok)))
            else:
                toks = []
                for op, ch in zip(w, parts[0]):
                    if op == "freeze":
                        toks.append({"freeze": "false" if ch == "n" else "true", "meas": "same" if ch == "z" else "differs"})
                    else:
                        toks.append(({"t": "true", "f": "false", "x": "throw"}.get(ch, "?"), None))
                # only the final flags are reported in the packed form
                toks[-1] = (toks[-1][0], parse_flags(",".join(parts[1:4]))) if w[-1] != "freeze" else toks[-1]
                v.extend(check_ops(cfg, exo, w + ["predict", "correct"], toks + [parts[4], parts[5]]))

    def rec(depth, st, ans):
        if depth == ext:
            leaf(st, ans); return
        for (name, status, ch) in parsed:
            rec(depth + 1, st if name == "freeze" else rule_step(st, name, status, exo), ans + ch)
    rec(0, st, ans)
    return v


def oracle(c, impl, model):
    exo = int(c.meta["exo"])
    cfg = c.kind
    v = []
    if impl.get("inputs_unchanged") != 1:
        v.append(("C13:input-modified:%s" % cfg, "a belief passed to predict()/correct() was modified"))
    eff = exo if (cfg != "boot2" or str(c.meta.get("attach", "0")) == "1") else 0
    if c.meta["mode"] == "word":
        ops, tr = list(_w(c, "ops")), impl.get("trace")
        if tr is None or len(tr) != len(ops) + 1:
            return v + [("C13:harness-trace-length", "trace has %s tokens for %d operations" % (None if tr is None else len(tr), len(ops)))]
        v += check_ops(cfg, eff, ops, word_tokens(ops, tr[1:]), parse_flags(tr[0]))
    else:
        v += check_enum(c, impl.get("enum") or [], cfg, eff)
    # one report per signature
    seen, out = set(), []
    for s, d in v:
        if s not in seen:
            seen.add(s); out.append((s, d))
    return out


def main(ctx, a):
    """The standard flow, except that in the thorough tier the packed enumerations of length 5 and 6 (14 million command
    words) run on the O1 build only; everything else also runs under ASan/UBSan."""
    from vlib import runner
    import sys
    me = sys.modules[__name__]
    if not a.skip_proofs:
        runner.prove(ctx)
    if a.replay:
        cases = caseio.read_cases(a.replay)
        ctx.log("replaying %d case(s) from %s" % (len(cases), a.replay))
    else:
        cases = generate(ctx.rng, a.tier)
    heavy = [c for c in cases if c.meta.get("mode") == "enum" and int(c.meta.get("len", 0)) > 4] if (a.tier == "thorough" and not a.replay) else []
    hid = set(id(c) for c in heavy)
    light = [c for c in cases if id(c) not in hid] if heavy else cases
    if light:
        runner.standard_cases(ctx, light)
    if heavy:
        saved = dict(VARIANTS)
        try:
            VARIANTS["thorough"] = ["O1"]
            runner.standard_cases(ctx, heavy)
        finally:
            VARIANTS.update(saved)
    ctx.extra["histogram"] = histogram(cases)
    runner.widen_if_needed(ctx, me, a)
    return runner.finish(ctx)


def histogram(cases):
    def count(f):
        d = {}
        for c in cases:
            d[str(f(c))] = d.get(str(f(c)), 0) + 1
        return d
    words = sum(len(c.get("alphabet")) ** c.get("ext") if c.meta["mode"] == "enum" else 1 for c in cases)
    return {"configuration": count(lambda c: "%s exo=%s" % (c.kind, c.meta["exo"])), "mode": count(lambda c: c.meta["mode"]),
            "word_length": count(lambda c: c.meta["len"]), "moves_in_word": count(lambda c: c.meta.get("moves", 0)), "intruder": count(lambda c: c.meta.get("intrude", 0)), "commands_given_to_the_steps": count(lambda c: c.meta.get("direct", 0)),
            "move_forms": {m: sum(1 for c in cases if c.meta["mode"] == "word" and m in _w(c, "ops")) for m in MOVES},
            "command_words_run": words}


LEVEL_TEXT = ("Proof: the four dispatch layers of the skip commands (filter -> prediction/correction -> state model -> exogenous model), the predict/correct "
              "wrappers, the predictStep tests of KF/UKF/GPF/DrawParticles and the branch of LinearStateModel::propagate are modelled as a state machine; "
              "for ALL command words, with and without exogenous model, it is proved that known names answer true and nothing ever throws, unknown names "
              "(and 'exogenous' without such a model) answer false and change nothing, the reported flags follow the last-command rule "
              "(prediction skipped = state skipped && (exogenous skipped or absent)), a skipped step is the identity, and once everything is switched off "
              "the flags and hence both step functions are those of a never-skipped filter; replacing the step objects by objects moved from them (move constructors / "
              "move assignments of the nine step classes) at any positions of any word changes no answer, no reported flag and no step outcome. The model is tied to the code by running the extracted machine "
              "and assembled filters on exhaustively enumerated and random command words interleaved with predict/correct on random beliefs.")
LEVEL_NOTE = ("Trusted: Coq kernel, extraction, harness (test models, classification of outputs by bitwise comparison with the input and with never-skipped twins). "
              "The numerical step bodies are abstract in this model. Words beyond the enumerated lengths are sampled.")
