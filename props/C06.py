"""C06 — SIS recursion keeps a normalised, fixed-size, correctly re-weighted particle set (DESIGN.md §5 C06)."""
import math
import numpy as np
from vlib import caseio, runner

ID = "C06"
COQ_PREFIXES = ["C06", "C07", "C13"]
COQ_TARGETS = ["C06_Extract.vo", "C06_Proofs.vo", "C06_CmdProofs.vo"]
EXTRACTED = "C06_model"
DRIVER = "drv_C06.ml"
HARNESS = "h_C06.cpp"
VARIANTS = {"quick": ["O1"], "thorough": ["O1", "asan"]}
AXIOMS_ALLOWED = runner.REAL_AXIOMS
MODEL_NEEDS_IMPL = True      # the mirrored random offsets of the resampling calls are printed by the harness
REQUIRED_THEOREMS = ["C06_inv", "C06_inv_every_step", "C06_ln_args_positive", "C06_reweight", "C06_no_measurement",
                     "C06_resample_iff", "C06_resample_keeps_layout", "C06_trace_full_bridge", "C06_no_usable_likelihood",
                     "C06_settled_after_step", "C06_no_measurement_end_of_step", "C06_step_sites_positive",
                     "C06_cmd_inv_every_step", "C06_cmd_inv_after_step", "C06_cmd_flags_by_rule", "C06_cmd_reweight", "C06_cmd_no_measurement",
                     "C06_cmd_no_usable_likelihood", "C06_cmd_prediction", "C06_cmd_resample_iff", "C06_cmd_resampled_uniform",
                     "C06_cmd_no_measurement_end_of_step", "C06_cmd_all_off_nothing_skipped", "C06_cmd_trace_full_bridge"]
RULE = ("histories from one seeded stream: 1..40 steps, N in 1..50, layouts (dl, dc) from 9 shapes incl. purely circular, per step: freeze ok/fails, "
        "RAW skip commands skip(name, on/off) (names prediction/state/exogenous/correction/all/unknown, 1-3 per burst, staying in force; flags are "
        "dispatched by the extracted model, not by the generator), FilteringAlgorithm::reset() in the middle of a pass (25% of the histories), "
        "filters without / with an exogenous model (attached through the state model or the DrawParticles constructor), likelihood valid/invalid, "
        "likelihood rows ordinary / vanishing (0, 1e-300) / one dominant / all zero / huge (up to DBL_MAX) / homogeneously scaled over 590 orders "
        "(scripted LikelihoodModel) or the library's GaussianLikelihood (30%) over a linear measurement model whose H_k, R_k, y_k and size m_k in 1..3 "
        "change per step (or are bit-identical), near / far measurements, scale factors 0, 1e-300..1e200, each of its four model calls failing; "
        "state and measurement coordinates in physical units over 12 orders (homogeneous and coordinate-wise), tolerances in unit-free coordinates; "
        "initial weights ordinary / uniform / degenerate / spread over 600 orders; parts obtained by move construction / vector growth / move "
        "assignment, fresh or after use; callback re-entrancy (a twin filter runs a complete step inside every model callback, 25%); "
        "non-trivial = the history contains a failed acquisition, a vanishing likelihood row or a reset; "
        "distinct by (N, layout, steps, #freeze failures, #vanishing rows, #resets, exogenous model)")
TRUSTED_BASE = ["Coq 8.16.1 kernel (coqc); the four real-number axioms of the standard library",
                "extraction (ExtrOcamlBasic only) and ocaml/float_ops.ml, ocaml/drv_C06.ml, ocaml/caseio.ml",
                "cpp/h_C06.cpp probe subclass of SIS run by the library's filtering thread, scripted models, mirrored RNG of the logging Resampling; "
                "the driver's translation of command tokens into the model's command type",
                "theorems over exact reals: rounding not modelled; resampling decisions with |neff - N/3| < 1e-9 and comb points within 1e-12 of a "
                "cumulative weight end the comparison of that history (counted)",
                "correspondence is sampled: agreement is established on the generated histories only"]
ASSUMPTIONS = ["the prediction moves states only and copies the weights (DrawParticles; premise of the model's predict); the state model's motion "
               "depends on the skip flags only through the branch of propagate they select (LinearStateModel::propagate)",
               "a valid likelihood vector has one non-negative entry per particle (GaussianLikelihood: scale_factor >= 0; a negative scale_factor "
               "makes ln(lik + tiny) NaN and every weight NaN for ever: outside the domain, not modelled)",
               "GaussianLikelihood itself is not modelled: on Gaussian histories the model receives the library's likelihood vector, which the oracle "
               "checks against the closed form scale*N(y - Hx; 0, R) (C15 owns the density model)",
               "the initialisation (also after FilteringAlgorithm::reset()) returns N particles with normalised finite log-weights and leaves the layout fields alone",
               "resampling is the base class Resampling (C07 model); 0 < u1 < 1/N is not needed for C06's clauses"]

COUNTS = {"quick": 420, "thorough": 3500}
SEARCH_CASES = 500
NEAR_NEFF = 1e-9
NEAR_COMB = 1e-12
TINY = 2.2250738585072014e-308
DBL_MAX = 1.7976931348623157e308

_stats = {"near_boundary_same_decision": 0, "near_boundary_skipped": 0, "steps_compared": 0, "resamplings": 0, "freeze_failures": 0,
          "resets": 0, "commands": 0, "intruder_calls": 0, "histories_with_intruder": 0, "concurrent_probes": 0,
          "steps_correction_skipped": 0, "steps_prediction_skipped": 0, "steps_exo_only": 0, "steps_state_only_with_exo": 0}


def lik_row(rng, N, kind):
    if kind == "ordinary":
        return [rng.random() for _ in range(N)]
    if kind == "vanishing":
        return [rng.choice([0.0, 1e-300, 1e-300, rng.random() * 1e-3, rng.random()]) for _ in range(N)]
    if kind == "dominant":
        r = [rng.random() * 1e-6 for _ in range(N)]; r[rng.randrange(N)] = 1.0
        return r
    if kind == "zero":
        return [0.0] * N
    if kind == "huge":
        # likelihoods are densities: in small units they are huge; their SUM overflows although each is finite
        return [min(DBL_MAX, 10.0 ** rng.uniform(300.0, 308.25)) if rng.random() < 0.8 else rng.random() for _ in range(N)]
    if kind == "scaled":
        # one homogeneous factor over ~600 orders of magnitude: the normalised weights do not depend on it (up to + tiny)
        f = 10.0 ** rng.uniform(-307.0, 290.0)
        return [rng.random() * f for _ in range(N)]
    return [1.0] * N


NAMES = ["prediction", "state", "exogenous", "correction", "all", "bogus"]


def cmd_token(rng, names, weights, nmax=3):
    toks = []
    for _ in range(rng.choice(list(range(1, nmax + 1)))):
        toks.append(rng.choices(names, weights)[0] + ("+" if rng.random() < 0.45 else "-"))
    return ",".join(toks)


def units(rng, n, span):
    """coordinate units: all one / one homogeneous factor / one factor per coordinate, over 2*span orders of magnitude"""
    r = rng.random()
    if r < 0.4:
        return np.ones(n)
    if r < 0.7:
        return np.full(n, 10.0 ** rng.uniform(-span, span))
    return np.array([10.0 ** rng.uniform(-span, span) for _ in range(n)])


def lse(x):
    m = np.max(x)
    return m + math.log(float(np.sum(np.exp(x - m))))


def one_case(rng, cid):
    N = rng.choice([1, 2, 3, 4, 5]) if rng.random() < 0.15 else rng.randint(6, 50)
    K = rng.randint(1, 40)
    dl, dc = rng.choice([(1, 0), (2, 0), (1, 1), (2, 1), (0, 1), (0, 2), (3, 2), (4, 0), (1, 3)])
    d = dl + dc
    u = units(rng, d, 6.0)                                   # state units (physical scale of every state coordinate)
    r0 = rng.random()
    if r0 < 0.45:
        lw = np.log(np.array([rng.random() + 0.05 for _ in range(N)]))
    elif r0 < 0.65:
        lw = np.zeros(N)
    elif r0 < 0.8:
        # weights spread over hundreds of orders of magnitude
        lw = np.array([rng.uniform(-600.0, 0.0) for _ in range(N)])
    else:
        # degenerate INITIAL weights: with a failed first acquisition the copied initial set itself is resampled at step 0
        w = np.array([rng.random() * 1e-4 for _ in range(N)]); w[rng.randrange(N)] = 1.0
        lw = np.log(w)
    lw = lw - lse(lw)
    pf = rng.choice([0.0, 0.1, 0.3])       # probability of a failed acquisition
    first_fails = r0 >= 0.8 and rng.random() < 0.6
    exo = rng.choices(["0", "sm", "ctor"], [0.5, 0.3, 0.2])[0]
    names_w = [3, 3, 3 if exo != "0" else 1, 3, 3, 0.6]
    busy = rng.random() < 0.5            # half of the histories issue commands at ~35% of the steps, the others rarely
    with_resets = rng.random() < 0.25
    gauss = rng.random() < 0.3
    varying = rng.random() < 0.7         # models change from step to step (otherwise bit-identical over the history)
    fr, lv, rows, kinds, cmds, resets, likfail, ms = [], [], [], [], [], [], [], []
    Fs, Gs, Hs, Rs, ys = [], [], [], [], []
    e = units(rng, 3, 6.0)                                   # measurement units
    m_const = rng.randint(1, 3)
    for k in range(K):
        fr.append(0 if (rng.random() < pf or (k == 0 and first_fails)) else 1)
        # skip commands are a HISTORY of raw commands skip(name, on/off): they stay in force until another command changes
        # the flag (not matched on/off pairs: skip(correction, on) ... skip(all, off) must leave nothing skipped).  What the
        # flags are is NOT computed here: the extracted model dispatches the commands (C06_Cmd.v / C13_Model.v).
        cmds.append(cmd_token(rng, NAMES, names_w) if rng.random() < (0.35 if busy else 0.08) else "none")
        resets.append(1 if (with_resets and rng.random() < 0.12) else 0)
        lv.append(0 if rng.random() < 0.1 else 1)
        likfail.append(rng.choice(["measure", "predicted", "innovation", "cov"]) if (gauss and rng.random() < 0.08) else "none")
        kind = rng.choice(["ordinary", "ordinary", "vanishing", "dominant", "zero", "flat", "huge", "scaled"])
        rep = k > 0 and rng.random() < 0.2       # this step repeats operands of the previous one bit for bit (each independently)
        kinds.append(kind)
        rows.append(rows[-1] if (rep and rng.random() < 0.5) else lik_row(rng, N, kind))
        if k > 0 and (not varying or (rep and rng.random() < 0.5)):
            Fs.append(Fs[-1]); Gs.append(Gs[-1])
        else:
            a = rng.choice([1.0, 0.9, -0.75, 0.5])
            E = np.array([[rng.uniform(-0.05, 0.05) for _ in range(d)] for _ in range(d)]) if rng.random() < 0.5 else np.zeros((d, d))
            Fs.append(a * np.eye(d) + E)
            Gs.append(np.array([[rng.uniform(-0.1, 0.1) for _ in range(d)] for _ in range(d)]))
        if gauss:
            m = m_const if (not varying or rng.random() < 0.6) else rng.randint(1, 3)
            ms.append(m)
            keepH = k > 0 and ms[-2] == m and (not varying or (rep and rng.random() < 0.5))
            keepR = k > 0 and ms[-2] == m and (not varying or (rep and rng.random() < 0.5))
            keepy = k > 0 and ms[-2] == m and rep and rng.random() < 0.5
            H = np.zeros((3, d)); R = np.zeros((3, 3)); y = np.zeros(3)
            H[:m, :] = Hs[-1][:m, :] if keepH else [[rng.uniform(-1, 1) for _ in range(d)] for _ in range(m)]
            if keepR:
                R[:m, :m] = Rs[-1][:m, :m]
            else:
                A = np.array([[rng.uniform(-1, 1) for _ in range(m)] for _ in range(m)])
                R[:m, :m] = A @ A.T + np.eye(m) * rng.choice([1e-6, 0.05, 0.5, 2.0])      # 1e-6: ill-conditioned for m >= 2
            y[:m] = ys[-1][:m] if keepy else [rng.uniform(-2, 2) * (1.0 if kind != "vanishing" else 60.0) for _ in range(m)]
            Hs.append(H); Rs.append(R); ys.append(y)
    life = lambda kinds_: rng.choices(kinds_, [0.55] + [0.45 / (len(kinds_) - 1)] * (len(kinds_) - 1))[0]
    meta = {"N": N, "K": K, "dl": dl, "dc": dc, "likmodel": "gauss" if gauss else "scripted", "exo": exo,
            "nfail": fr.count(0), "nvanish": sum(1 for q in kinds if q in ("vanishing", "zero")), "nreset": sum(resets[:-1]),
            "life_pred": life(["fresh", "moved", "vector", "assigned"]), "life_corr": life(["fresh", "moved", "vector", "assigned"]), "used_target": int(rng.random() < 0.5),
            "life_res": life(["fresh", "moved", "vector", "assigned"]),
            "used_pred": int(rng.random() < 0.4), "used_corr": int(rng.random() < 0.4), "used_res": int(rng.random() < 0.4),
            "intrude": int(rng.random() < 0.25), "conc": int(rng.random() < 0.04)}
    c = caseio.Case(cid, "sis", meta)
    U = u.reshape(-1, 1)
    c.mat_shape("ustate", 1, d, u)
    c.mat_shape("init_state", d, N, U * np.array([[rng.uniform(-3, 3) for _ in range(N)] for _ in range(d)]))
    c.mat_shape("init_lw", N, 1, lw)
    c.mat_shape("init_mean", d, N, U * np.array([[rng.uniform(-3, 3) for _ in range(N)] for _ in range(d)]))
    c.mat_shape("init_cov", d, d * N, U * np.array([[rng.uniform(-1, 1) for _ in range(d * N)] for _ in range(d)]) * np.tile(u, N).reshape(1, -1))
    c.mat_shape("lik", K, N, rows)
    c.mat_shape("shift", K, d, np.array([[rng.uniform(-0.5, 0.5) for _ in range(d)] for _ in range(K)]) * u.reshape(1, -1))
    c.mat_shape("off", 1, d, 0.01 * u)
    scale_mat = lambda M: U * M / u.reshape(1, -1)          # a d x d map between states, in the state units
    c.mat_shape("Fs", d, K * d, np.hstack([scale_mat(F) for F in Fs]))
    if exo != "0":
        c.mat_shape("Gs", d, K * d, np.hstack([scale_mat(G) for G in Gs]))
        c.mat_shape("shift2", K, d, np.array([[rng.uniform(-0.3, 0.3) for _ in range(d)] for _ in range(K)]) * u.reshape(1, -1))
    if gauss:
        # GaussianLikelihood over y = H_k x + v, v ~ N(0, R_k): measurements near the particle cloud, or far away (densities
        # underflow to 0); state and measurement coordinates in their units
        Ecol = e.reshape(-1, 1)
        c.mat_shape("umeas", 1, 3, e)
        c.mat_shape("Hs", 3 * K, d, np.vstack([Ecol * H / u.reshape(1, -1) for H in Hs]))
        c.mat_shape("Rs", 3 * K, 3, np.vstack([Ecol * R * e.reshape(1, -1) for R in Rs]))
        c.mat_shape("ys", K, 3, np.array(ys) * e.reshape(1, -1))
        c.word("ms", ms)
        # scale 0: every likelihood vanishes; tiny scales: a likelihood that underflows only as the product scale * density
        c.mat_shape("scale", 1, 1, [rng.choice([1.0, 2.5, 0.0, 1e-200, 1e-300, 1e200])])
    c.word("freeze", fr).word("likvalid", lv).word("cmd", cmds).word("reset", resets).word("likfail", likfail)
    c.word("precmd_pred", [cmd_token(rng, ["prediction", "state", "exogenous"], [1, 1, 1], 2)])
    c.word("precmd_corr", [rng.choice(["correction+", "correction-", "correction+,correction-"])])
    c.int("pre_draws", rng.randint(0, 3))
    c.int("seed", rng.randrange(0, 2 ** 32))
    return c


def generate(rng, tier):
    return [one_case(rng, cid) for cid in range(COUNTS[tier])]


_res_count = {}


def nontrivial(c):
    if int(c.meta["nfail"]) > 0 or int(c.meta["nvanish"]) > 0 or int(c.meta["nreset"]) > 0:
        return (c.meta["N"], c.meta["dl"], c.meta["dc"], c.meta["K"], c.meta["nfail"], c.meta["nvanish"], c.meta["nreset"], c.meta["exo"])
    return None


def col(rec, name):
    v = rec.get(name)
    return None if v is None else np.asarray(v, dtype=float).reshape(-1)


def same_bits(a, b):
    a, b = np.asarray(a, dtype=float), np.asarray(b, dtype=float)
    return a.shape == b.shape and bool(np.all((a == b) | (np.isnan(a) & np.isnan(b))))


def ustate(c):
    return c.get("ustate").reshape(-1, 1) if c.has("ustate") else np.ones((int(c.meta["dl"]) + int(c.meta["dc"]), 1))


def gauss_density(c, k, states):
    """scale * N(y_k - H_k x_i; 0, R_k) for every column x_i of states (GaussianLikelihood.cpp, closed form), evaluated in
    unit-free coordinates (the units enter through det R only); returns (values, condition number of the unit-free R_k)"""
    m = int(c.get("ms")[k])
    e = c.get("umeas").reshape(-1)[:m]
    H = c.get("Hs")[3 * k:3 * k + m, :]
    R = c.get("Rs")[3 * k:3 * k + m, :m] / e.reshape(-1, 1) / e.reshape(1, -1)
    y = c.get("ys")[k, :m].reshape(-1, 1)
    inn = (y - H @ states) / e.reshape(-1, 1)
    q = np.sum(inn * np.linalg.solve(R, inn), axis=0)
    logd = -0.5 * (m * math.log(2 * math.pi) + math.log(np.linalg.det(R)) + 2.0 * float(np.sum(np.log(e))) + q)
    sc = float(c.get("scale")[0, 0])
    with np.errstate(under="ignore", over="ignore", divide="ignore", invalid="ignore"):
        val = np.where(sc == 0.0, 0.0, np.exp(logd + (math.log(sc) if sc > 0 else 0.0)))
    return val, float(np.linalg.cond(R)), q


def rot_cols(a, r):
    a = np.asarray(a, dtype=float)
    return np.roll(a, -r, axis=1) if a.shape[1] else a


def init_of(c, r):
    """the r-th initialisation of the history: the initial matrices with columns rotated by r"""
    d = c.get("init_state").shape[0]
    return (rot_cols(c.get("init_state"), r), np.roll(c.get("init_lw").reshape(-1), -r), rot_cols(c.get("init_mean"), r), rot_cols(c.get("init_cov"), r * d))


def aux_diffs(c, impl, model, tag, sk):
    """mean and covariance blocks of every particle: exactly those of the initial particle the model says they come from"""
    aux = col(model, tag + "aux" + sk)
    mn, cv = impl.get(tag + "mn" + sk), impl.get(tag + "cv" + sk)
    im, ic = c.get("init_mean"), c.get("init_cov")
    d = im.shape[0]
    if mn is None or cv is None or mn.shape != (d, aux.size) or cv.shape != (d, d * aux.size):
        return ["%smn/%scv%s: missing or wrong shape" % (tag, tag, sk)]
    for j in range(aux.size):
        a = int(aux[j])
        if not (same_bits(mn[:, j], im[:, a]) and same_bits(cv[:, j * d:(j + 1) * d], ic[:, a * d:(a + 1) * d])):
            return ["%s set, particle %d: mean/covariance are not those of initial particle %d" % ("corrected" if tag == "c" else "predicted", j, a)]
    return []


def states_diff(c, impl, model, name):
    a, b = impl.get(name), model.get(name)
    if a is None or b is None or np.asarray(a).shape != np.asarray(b).shape:
        return ["%s: missing or shapes differ" % name]
    U = ustate(c)
    a, b = np.asarray(a, dtype=float) / U, np.asarray(b, dtype=float) / U       # back to unit-free coordinates
    mag = max(1.0, float(np.max(np.abs(b))) if b.size else 1.0)
    if not caseio.close(a, b, 1e-11 * mag, 0.0):
        return ["%s: max|impl-model| = %.3g in units of the state coordinates (tol %.3g)" % (name, caseio.maxdiff(a, b), 1e-11 * mag)]
    return []


def compare(c, impl, model):
    N, K = int(c.meta["N"]), int(c.meta["K"])
    diffs = []
    for k in range(K):
        sk = str(k)
        if not model.has("neff" + sk):
            diffs.append("step %d: no model record" % k); break
        nm = model.get("neff" + sk)
        if abs(nm - N / 3.0) < NEAR_NEFF and model.get("res" + sk) != impl.get("res" + sk):
            _stats["near_boundary_skipped"] += 1
            break                      # decision within rounding of the threshold AND the two float decisions differ: the histories diverge
        if abs(nm - N / 3.0) < NEAR_NEFF:
            _stats["near_boundary_same_decision"] += 1
        _stats["steps_compared"] += 1
        ints = ["cn", "cdl", "cdc", "pn", "pdl", "pdc", "res"]
        d = caseio.compare_fields(impl, model, [f + sk for f in ints], 0, 0)
        # the skip machinery: answers to the raw commands, and the flags the library objects report after them
        d += caseio.compare_fields(impl, model, ["ret" + sk], 0, 0)
        for fo, fm in (("obsP", "fP"), ("obsS", "fS"), ("obsE", "fE")):
            if impl.get(fo + sk) != model.get(fm + sk):
                d.append("%s: the library reports %s, the dispatched commands give %s" % (fo + sk, impl.get(fo + sk), model.get(fm + sk)))
        d += caseio.compare_fields(impl, model, ["plw" + sk], atol=1e-9, rtol=0)
        d += states_diff(c, impl, model, "pst" + sk)
        d += caseio.compare_fields(impl, model, ["neff" + sk], atol=0, rtol=1e-9)
        d += aux_diffs(c, impl, model, "p", sk)
        if impl.get("lstep" + sk) is None or impl.get("lstep" + sk) + 1 != model.get("step" + sk):
            d.append("step counter: library step_number() = %s during step %d, model counter after the step = %s" % (impl.get("lstep" + sk), k, model.get("step" + sk)))
        near = False
        if model.get("res" + sk) == 1 and impl.get("res" + sk) == 1:
            cs, cb = col(model, "csw" + sk), col(model, "comb" + sk)
            near = bool(np.min(np.abs(cb.reshape(-1, 1) - cs.reshape(1, -1))) < NEAR_COMB)
            if not near and not same_bits(col(impl, "par" + sk), col(model, "par" + sk)):
                d.append("par%s: impl=%s model=%s" % (sk, col(impl, "par" + sk)[:10], col(model, "par" + sk)[:10]))
        if near:
            _stats["near_boundary_skipped"] += 1
            diffs += ["step %d: %s" % (k, x) for x in d]
            break
        d += caseio.compare_fields(impl, model, ["clw" + sk], atol=1e-9, rtol=0)
        d += states_diff(c, impl, model, "cst" + sk)
        d += aux_diffs(c, impl, model, "c", sk)
        if d:
            diffs += ["step %d: %s" % (k, x) for x in d]
            break
    return diffs


def motion_spec(c, k, mode, X):
    """the state model's motion of step k on the columns of X, by the branch of LinearStateModel::propagate the flags select"""
    d = X.shape[0]
    F = c.get("Fs")[:, k * d:(k + 1) * d]
    if mode == "full" or mode == "exo":
        ex = c.get("Gs")[:, k * d:(k + 1) * d] @ X + c.get("shift2")[k, :].reshape(-1, 1)
    if mode == "full":
        P = F @ X + ex
    elif mode == "state":
        P = F @ X
    elif mode == "exo":
        P = ex
    else:
        return None
    return P + c.get("shift")[k, :].reshape(-1, 1) + c.get("off").reshape(-1, 1) * np.arange(1, X.shape[1] + 1).reshape(1, -1)


def oracle(c, impl, model):
    """The property clauses evaluated on the implementation's own trace.  Which steps are commanded to be skipped is taken
    from the extracted command-level model (fP / fC / mode of the model's record), not computed in Python."""
    v = []
    N, K, dl, dc = int(c.meta["N"]), int(c.meta["K"]), int(c.meta["dl"]), int(c.meta["dc"])
    fr, lv, resets, likfail = (c.get(n) for n in ("freeze", "likvalid", "reset", "likfail"))
    lik = c.get("lik")
    gauss = c.meta.get("likmodel") == "gauss"
    U = ustate(c)
    if impl.get("conc_ok") == 0:
        v.append(("C06:concurrent-evaluation", "GaussianLikelihood / Resampling / log_sum_exp evaluated from three threads on different data: "
                                               "a result differs from the sequential one (state shared between calls)"))
    if impl.get("init_ok") != 1:
        v.append(("C06:init-failed", "initialization_step returned false")); return v
    prev_clw, prev_cst, prev_cmc = None, None, None
    nres = 0
    ninit = 0                 # number of initialisations so far - 1
    exp_lstep = 0
    for k in range(K):
        sk = str(k)
        if not model.has("fC" + sk):
            break
        fP, fC, mode = model.get("fP" + sk) == 1, model.get("fC" + sk) == 1, model.get("mode" + sk)[0]
        where = "step %d (N=%d, layout %d+%d, exo=%s, commands %s)" % (k, N, dl, dc, c.meta.get("exo"), c.get("cmd")[k])
        for tag, nm in (("c", "corrected"), ("p", "predicted")):
            if impl.get(tag + "n" + sk) != N or impl.get(tag + "cols" + sk) != N or col(impl, tag + "lw" + sk).size != N:
                v.append(("C06:particle-count", "%s: %s set has %s components, %s columns, %d weights" % (where, nm, impl.get(tag + "n" + sk), impl.get(tag + "cols" + sk), col(impl, tag + "lw" + sk).size)))
                return v
            if (impl.get(tag + "dl" + sk), impl.get(tag + "dc" + sk)) != (dl, dc):
                v.append(("C06:layout", "%s: %s set has layout (%s,%s) instead of (%d,%d)" % (where, nm, impl.get(tag + "dl" + sk), impl.get(tag + "dc" + sk), dl, dc)))
                return v
        clw, plw = col(impl, "clw" + sk), col(impl, "plw" + sk)
        cst, pst = impl.get("cst" + sk), impl.get("pst" + sk)
        cmc = (impl.get("cmn" + sk), impl.get("ccv" + sk)); pmc = (impl.get("pmn" + sk), impl.get("pcv" + sk))
        dd = dl + dc
        if any(x is None for x in cmc + pmc) or cmc[0].shape != (dd, N) or cmc[1].shape != (dd, dd * N) or pmc[0].shape != (dd, N) or pmc[1].shape != (dd, dd * N):
            v.append(("C06:mean-cov-storage", "%s: mean/covariance storage does not have %d x %d / %d x %d entries" % (where, dd, N, dd, dd * N))); return v
        res = impl.get("res" + sk)
        nres += res
        if not np.all(np.isfinite(clw)):
            v.append(("C06:nonfinite-weight", "%s: corrected log-weights %s" % (where, clw[:6]))); return v
        if abs(lse(clw)) > 1e-9:
            v.append(("C06:not-normalised", "%s: log-sum-exp of the corrected weights is %.3g" % (where, lse(clw)))); return v
        if impl.get("lstep" + sk) != exp_lstep:
            v.append(("C06:step-counter", "%s: step_number() = %s, expected %d" % (where, impl.get("lstep" + sk), exp_lstep)))
        # prediction
        if exp_lstep == 0:
            i_st, i_lw, i_mn, i_cv = init_of(c, ninit)
            if not (same_bits(pst, i_st) and same_bits(plw, i_lw) and same_bits(pmc[0], i_mn) and same_bits(pmc[1], i_cv)):
                v.append(("C06:predicted-at-step0", "%s: the set delivered by initialisation %d was modified before the first correction" % (where, ninit)))
        else:
            if fP:
                _stats["steps_prediction_skipped"] += 1
                if not (same_bits(pst, prev_cst) and same_bits(plw, prev_clw) and same_bits(pmc[0], prev_cmc[0]) and same_bits(pmc[1], prev_cmc[1])):
                    v.append(("C06:skip-prediction-not-identity", "%s: prediction skipped but predicted set differs from the corrected one" % where))
            else:
                if not same_bits(plw, prev_clw):
                    v.append(("C06:prediction-changed-weights", "%s" % where))
                spec_st = motion_spec(c, k, mode, prev_cst)
                if mode == "exo": _stats["steps_exo_only"] += 1
                if mode == "state" and c.meta.get("exo") != "0": _stats["steps_state_only_with_exo"] += 1
                if spec_st is None:
                    v.append(("C06:prediction-branch", "%s: prediction not skipped but the state model is asked for branch '%s'" % (where, mode)))
                else:
                    mag = max(1.0, float(np.max(np.abs(spec_st / U))))
                    if not caseio.close(pst / U, spec_st / U, 1e-12 * mag, 0.0):
                        v.append(("C06:prediction-states", "%s: predicted states differ from the motion (branch '%s') of the corrected ones by %.3g state units"
                                  % (where, mode, caseio.maxdiff(pst / U, spec_st / U))))
        # calls
        exp_lik = 1 if (fr[k] == "1" and not fC) else 0
        if fC: _stats["steps_correction_skipped"] += 1
        if exp_lik == 0 and impl.get("likcalls" + sk) != 0:
            v.append(("C06:call-log", "%s: the likelihood was evaluated although the correction is skipped or the acquisition failed" % where))
        if exp_lik == 1 and impl.get("likcalls" + sk) < 1:
            v.append(("C06:call-log", "%s: the likelihood was not evaluated" % where))
        # the likelihood vector of this step
        lrow = lik[k, :]
        valid = lv[k] == "1" and (not gauss or likfail[k] == "none")
        if gauss and exp_lik == 1:
            if impl.get("lv" + sk) != (1 if valid else 0):
                v.append(("C06:likelihood-validity", "%s: GaussianLikelihood reported valid=%s, measurement usable=%s (failing call: %s)" % (where, impl.get("lv" + sk), valid, likfail[k])))
            if valid:
                lrow, cond, q = gauss_density(c, k, pst)
                li = col(impl, "lik" + sk)
                tol = 1e-10 + 1e-12 * max(1.0, cond) * (1.0 + np.abs(q))
                # a density below DBL_MIN is not representable (Eigen's vectorised exp returns 5.6e-309 for every argument below
                # -709.8 instead of 0): absolute error of one DBL_MIN on the density, carried by the scale factor
                atol = 1e-300 + abs(float(c.get("scale")[0, 0])) * 2.3e-308
                with np.errstate(invalid="ignore", over="ignore"):
                    okl = li is not None and li.size == N and bool(np.all(np.isfinite(li))) and bool(np.all(np.abs(li - lrow) <= atol + np.minimum(tol, 0.5) * np.maximum(np.abs(li), np.abs(lrow))))
                if not okl:
                    v.append(("C06:likelihood-value", "%s: likelihood %s, scale*N(y - Hx; 0, R) = %s" % (where, None if li is None else li[:4], lrow[:4])))
                else:
                    lrow = li
        # expected corrected weights before the resampling test
        if fr[k] == "1":
            spec = plw.copy()
            if not fC and valid:
                spec = spec + np.log(lrow + TINY)
            spec = spec - lse(spec)
        else:
            spec = plw.copy()
        w = np.exp(spec)
        neff_spec = 1.0 / float(np.sum(w * w))
        neff = impl.get("neff" + sk)
        near = abs(neff_spec - N / 3.0) < NEAR_NEFF or abs(neff - N / 3.0) < NEAR_NEFF
        if not caseio.close(neff, neff_spec, 0.0, 1e-9):
            v.append(("C06:neff-value", "%s: neff %r, from the re-weighting formula %r" % (where, neff, neff_spec)))
        # trigger
        if not near and (res == 1) != (neff_spec < N / 3.0):
            v.append(("C06:resampling-trigger", "%s: neff = %.6g, N/3 = %.6g, resampled = %s" % (where, neff_spec, N / 3.0, res)))
            return v
        if res == 0:
            if fr[k] != "1":
                if not (same_bits(clw, plw) and same_bits(cst, pst) and same_bits(cmc[0], pmc[0]) and same_bits(cmc[1], pmc[1])):
                    v.append(("C06:no-measurement-not-predicted", "%s: acquisition failed but the corrected set differs from the predicted set" % where))
            else:
                if not caseio.close(clw, spec, 1e-9, 0.0):
                    v.append(("C06:reweight", "%s: corrected log-weights differ from lw + log(lik + tiny) - lse by %.3g" % (where, caseio.maxdiff(clw, spec))))
                if not (same_bits(cst, pst) and same_bits(cmc[0], pmc[0]) and same_bits(cmc[1], pmc[1])):
                    v.append(("C06:correction-moved-states", "%s: states, means or covariances differ between predicted and corrected set" % where))
                if (fC or not valid) and not caseio.close(clw, plw, 1e-9, 0.0):
                    v.append(("C06:unusable-measurement-not-predicted", "%s: correction skipped or likelihood invalid but corrected weights differ from the predicted ones by %.3g" % (where, caseio.maxdiff(clw, plw))))
        elif res == 1:
            if not np.all(np.abs(clw + math.log(N)) <= 1e-15):
                v.append(("C06:resampled-weights-not-uniform", "%s: %s" % (where, clw[:6])))
            par = col(impl, "par" + sk)
            if par is None or par.size != N or np.any(par < 0) or np.any(par >= N):
                v.append(("C06:resampled-parents", "%s: parents %s" % (where, par)))
            else:
                bad = [j for j in range(N) if not (same_bits(cst[:, j], pst[:, int(par[j])]) and same_bits(cmc[0][:, j], pmc[0][:, int(par[j])])
                                                   and same_bits(cmc[1][:, j * dd:(j + 1) * dd], pmc[1][:, int(par[j]) * dd:(int(par[j]) + 1) * dd]))]
                if bad:
                    v.append(("C06:resampled-not-copy", "%s: particle %d is not a copy of its parent %d" % (where, bad[0], int(par[bad[0]]))))
                # the selection: the offset is the next draw of the generator the filter was built with (mirrored by the harness from
                # the seed, across moves of the Resampling object), the parents are those of the comb u1 + j/N on the prescribed weights
                u1 = impl.get("u1_" + sk)
                csw = np.cumsum(np.exp(spec))
                comb = u1 + np.arange(N) / float(N)
                if u1 is not None and float(np.min(np.abs(comb.reshape(-1, 1) - csw.reshape(1, -1)))) > 1e-9:
                    exp_par = np.minimum(np.searchsorted(csw, comb, side="left"), N - 1)
                    if not np.array_equal(exp_par, par.astype(int)):
                        v.append(("C06:resampling-selection", "%s: parents %s, the comb at the generator's offset %.6g selects %s" % (where, par[:8], u1, exp_par[:8])))
        else:
            v.append(("C06:resampling-trigger", "%s: %d resample calls in one step" % (where, res)))
        prev_clw, prev_cst, prev_cmc = clw, cst, cmc
        exp_lstep += 1
        if resets[k] == "1" and k < K - 1:
            ninit += 1; exp_lstep = 0
            _stats["resets"] += 1
        if near:
            break
    _res_count[c.id] = nres
    _stats["resamplings"] += nres
    _stats["freeze_failures"] += int(c.meta["nfail"])
    _stats["commands"] += sum(len(t.split(",")) for t in c.get("cmd") if t != "none")
    if impl.get("intruder_calls") is not None:
        _stats["histories_with_intruder"] += 1
        _stats["intruder_calls"] += impl.get("intruder_calls")
    if impl.get("conc_ok") is not None:
        _stats["concurrent_probes"] += 1
    return v


def histogram(cases):
    h = {"N": {}, "layout": {}, "exo": {}, "lifetimes": {}, "likmodel": {}}
    for c in cases:
        b = "1-5" if int(c.meta["N"]) <= 5 else ("6-20" if int(c.meta["N"]) <= 20 else "21-50")
        h["N"][b] = h["N"].get(b, 0) + 1
        l = "%s+%s" % (c.meta["dl"], c.meta["dc"])
        h["layout"][l] = h["layout"].get(l, 0) + 1
        h["exo"][c.meta.get("exo", "0")] = h["exo"].get(c.meta.get("exo", "0"), 0) + 1
        h["likmodel"][c.meta.get("likmodel")] = h["likmodel"].get(c.meta.get("likmodel"), 0) + 1
        for part in ("pred", "corr", "res"):
            key = "%s:%s%s" % (part, c.meta.get("life_" + part, "fresh"), "+used" if str(c.meta.get("used_" + part, 0)) == "1" else "")
            if part == "corr" and c.meta.get("life_corr") == "assigned" and str(c.meta.get("used_target", 0)) == "1":
                key += "+used-target"
            h["lifetimes"][key] = h["lifetimes"].get(key, 0) + 1
    h.update(_stats)
    return h


LEVEL_TEXT = ("Proof: the model of SIS::filtering_step (prediction skipped at step 0, freeze, bootstrap re-weighting lw += ln(lik + tiny), log-sum-exp "
              "normalisation, fall-back to the predicted set, resampling iff neff < N/3 with the C07 resampling model and the layout of the corrected set) "
              "is proved over the reals, by induction over all event lists, to keep N particles, the layout and lse(lw) = 0 after every step; every argument of ln "
              "is positive; the re-weighting formula, the no-measurement clause and the resampling trigger hold. A command-level layer (raw skip(name, status) "
              "commands dispatched by the C13 model with or without exogenous model, steps, FilteringAlgorithm::reset()) carries the invariant and every "
              "per-step clause to EVERY history of raw commands, with the premises stated on the commands themselves (status of the last command touching "
              "the flag). The model is tied to the code by running the extracted command-level model and a probe subclass of SIS, run by the library's own "
              "filtering thread, on the same generated histories; the flags of a step are computed by the extracted dispatch only.")
LEVEL_NOTE = ("Trusted: Coq kernel + the 4 real-number axioms, extraction + float driver (incl. the token -> command translation), harness (probe subclass, "
              "scripted models, RNG mirror); rounding is not modelled; near-boundary decisions end the comparison of a history; the tie to the code is sampled. "
              "Resampling implementations other than the base class, and PFPrediction implementations that change weights (GPFPrediction belongs to C08), are "
              "outside the model.")
