"""C06 — SIS recursion keeps a normalised, fixed-size, correctly re-weighted particle set (DESIGN.md §5 C06)."""
import math
import numpy as np
from vlib import caseio, runner

ID = "C06"
COQ_PREFIXES = ["C06", "C07"]
COQ_TARGETS = ["C06_Extract.vo", "C06_Proofs.vo"]
EXTRACTED = "C06_model"
DRIVER = "drv_C06.ml"
HARNESS = "h_C06.cpp"
VARIANTS = {"quick": ["O1"], "thorough": ["O1", "asan"]}
AXIOMS_ALLOWED = runner.REAL_AXIOMS
MODEL_NEEDS_IMPL = True      # the mirrored random offsets of the resampling calls are printed by the harness
REQUIRED_THEOREMS = ["C06_inv", "C06_inv_every_step", "C06_ln_args_positive", "C06_reweight", "C06_no_measurement",
                     "C06_resample_iff", "C06_resample_keeps_layout", "C06_trace_full_bridge", "C06_no_usable_likelihood",
                     "C06_settled_after_step", "C06_no_measurement_end_of_step", "C06_step_sites_positive"]
RULE = ("histories from one seeded stream: 1..40 steps, N in 1..50, layouts (dl in 1..2, dc in 0..1), per step: freeze ok/fails, "
        "skip prediction / correction flags, likelihood valid/invalid, likelihood rows ordinary / vanishing (0, 1e-300) / one dominant / all zero "
        "(scripted LikelihoodModel) or the library's GaussianLikelihood over a linear measurement model with near / far measurements (30%); "
        "non-trivial = the history contains a failed acquisition or a vanishing likelihood row (resamplings are counted in the histogram); "
        "distinct by (N, layout, steps, #freeze failures, #vanishing rows)")
TRUSTED_BASE = ["Coq 8.16.1 kernel (coqc); the four real-number axioms of the standard library",
                "extraction (ExtrOcamlBasic only) and ocaml/float_ops.ml, ocaml/drv_C06.ml, ocaml/caseio.ml",
                "cpp/h_C06.cpp probe subclass of SIS driven synchronously (no thread), scripted models, mirrored RNG of the logging Resampling",
                "theorems over exact reals: rounding not modelled; resampling decisions with |neff - N/3| < 1e-9 and comb points within 1e-12 of a "
                "cumulative weight end the comparison of that history (counted)",
                "correspondence is sampled: agreement is established on the generated histories only"]
ASSUMPTIONS = ["the prediction moves states only and copies the weights (DrawParticles; premise of the model's predict)",
               "a valid likelihood vector has one non-negative entry per particle (GaussianLikelihood: scale_factor >= 0; a negative scale_factor "
               "makes ln(lik + tiny) NaN and every weight NaN for ever: outside the domain, not modelled)",
               "GaussianLikelihood itself is not modelled: on Gaussian histories the model receives the library's likelihood vector, which the oracle "
               "checks against the closed form scale*N(y - Hx; 0, R) (C15 owns the density model)",
               "the initialisation returns N particles with normalised log-weights",
               "resampling is the base class Resampling (C07 model); 0 < u1 < 1/N is not needed for C06's clauses"]

COUNTS = {"quick": 200, "thorough": 3000}
NEAR_NEFF = 1e-9
NEAR_COMB = 1e-12
TINY = 2.2250738585072014e-308

_stats = {"near_boundary_same_decision": 0, "near_boundary_skipped": 0, "steps_compared": 0, "resamplings": 0, "freeze_failures": 0}


def lik_row(rng, N, kind):
    if kind == "ordinary":
        return [rng.random() for _ in range(N)]
    if kind == "vanishing":
        return [rng.choice([0.0, 1e-300, 1e-300, rng.random() * 1e-3, rng.random()]) for _ in range(N)]
    if kind == "dominant":
        r = [rng.random() * 1e-6 for _ in range(N)]; r[rng.randrange(N)] = 1.0
        return r
    if kind == "zero":
        return [0.0] * N
    return [1.0] * N


def generate(rng, tier):
    cases = []
    for cid in range(COUNTS[tier]):
        N = rng.choice([1, 2, 3, 4, 5]) if rng.random() < 0.15 else rng.randint(6, 50)
        K = rng.randint(1, 40)
        dl, dc = rng.randint(1, 2), rng.randint(0, 1)
        d = dl + dc
        r0 = rng.random()
        if r0 < 0.55:
            w = np.array([rng.random() + 0.05 for _ in range(N)])
        elif r0 < 0.8:
            w = np.ones(N)
        else:
            # degenerate INITIAL weights: with a failed first acquisition the copied initial set itself is resampled at step 0
            w = np.array([rng.random() * 1e-4 for _ in range(N)]); w[rng.randrange(N)] = 1.0
        lw = np.log(w / w.sum())
        pf = rng.choice([0.0, 0.1, 0.3])       # probability of a failed acquisition
        first_fails = r0 >= 0.8 and rng.random() < 0.6
        fr, sp, sc, lv, rows, kinds, cmds = [], [], [], [], [], [], []
        # skip commands are a HISTORY: before a step zero, one or two raw commands skip(name, on/off) are issued and
        # stay in force until another command changes them (not only matched on/off pairs of the same name:
        # skip(correction, on) ... skip(all, off) must leave nothing skipped).  Flags as the dispatch sets them
        # (ParticleFilter::skip -> PFPrediction::skip / PFCorrection::skip -> StateModel::skip; proved in C13):
        # P prediction step, S state model, C correction step.
        P = S = C = 0
        busy = rng.random() < 0.5            # half of the histories issue commands at ~35% of the steps, the others rarely
        for k in range(K):
            fr.append(0 if (rng.random() < pf or (k == 0 and first_fails)) else 1)
            toks = []
            if rng.random() < (0.35 if busy else 0.08):
                for _ in range(rng.choice([1, 1, 2])):
                    name = rng.choice(["prediction", "state", "correction", "all"]); on = rng.random() < 0.55
                    toks.append(name + ("+" if on else "-"))
                    b = 1 if on else 0
                    if name == "prediction": P = S = b
                    elif name == "state": S = b; P = b   # PFPrediction::skip("state"): skip_ = state skipped & (no exogenous model | it is skipped); the harness attaches none
                    elif name == "correction": C = b
                    else: P = S = C = b
            cmds.append(",".join(toks) if toks else "none")
            sp.append(1 if (P or S) else 0)
            sc.append(C)
            lv.append(0 if rng.random() < 0.1 else 1)
            kind = rng.choice(["ordinary", "ordinary", "vanishing", "dominant", "zero", "flat"])
            kinds.append(kind)
            rows.append(lik_row(rng, N, kind))
        gauss = rng.random() < 0.3
        c = caseio.Case(cid, "sis", {"N": N, "K": K, "dl": dl, "dc": dc, "likmodel": "gauss" if gauss else "scripted",
                                     "nfail": fr.count(0), "nvanish": sum(1 for q in kinds if q in ("vanishing", "zero"))})
        c.mat_shape("init_state", d, N, [[rng.uniform(-3, 3) for _ in range(N)] for _ in range(d)])
        c.mat_shape("init_lw", N, 1, lw)
        c.mat_shape("init_mean", d, N, [[rng.uniform(-3, 3) for _ in range(N)] for _ in range(d)])
        c.mat_shape("init_cov", d, d * N, [[rng.uniform(-1, 1) for _ in range(d * N)] for _ in range(d)])
        c.mat_shape("lik", K, N, rows)
        c.mat_shape("shift", K, d, [[rng.uniform(-0.5, 0.5) for _ in range(d)] for _ in range(K)])
        c.mat_shape("a", 1, 1, [rng.choice([1.0, 0.9, -0.75])])
        if gauss:
            # GaussianLikelihood over y = H x + v: measurements near the particle cloud, or far away (densities underflow to 0)
            m = rng.randint(1, 2)
            A = np.array([[rng.uniform(-1, 1) for _ in range(m)] for _ in range(m)])
            c.mat_shape("H", m, d, [[rng.uniform(-1, 1) for _ in range(d)] for _ in range(m)])
            c.mat_shape("Rm", m, m, A @ A.T + np.eye(m) * rng.choice([1e-6, 0.05, 0.5, 2.0]))     # 1e-6: ill-conditioned for m = 2
            c.mat_shape("ys", K, m, [[rng.uniform(-2, 2) * (1.0 if kinds[k] != "vanishing" else 60.0) for _ in range(m)] for k in range(K)])
            c.mat_shape("scale", 1, 1, [rng.choice([1.0, 2.5, 0.0])])     # scale 0: every likelihood vanishes
        c.word("freeze", fr).word("skipp", sp).word("skipc", sc).word("likvalid", lv).word("cmd", cmds)
        c.int("seed", rng.randrange(0, 2 ** 32))
        cases.append(c)
    return cases


_res_count = {}


def nontrivial(c):
    if int(c.meta["nfail"]) > 0 or int(c.meta["nvanish"]) > 0:
        return (c.meta["N"], c.meta["dl"], c.meta["dc"], c.meta["K"], c.meta["nfail"], c.meta["nvanish"])
    return None


def col(rec, name):
    v = rec.get(name)
    return None if v is None else np.asarray(v, dtype=float).reshape(-1)


def same_bits(a, b):
    a, b = np.asarray(a, dtype=float), np.asarray(b, dtype=float)
    return a.shape == b.shape and bool(np.all((a == b) | (np.isnan(a) & np.isnan(b))))


def lse(x):
    m = np.max(x)
    return m + math.log(float(np.sum(np.exp(x - m))))


def gauss_density(c, k, states):
    """scale * N(y_k - H x_i; 0, Rm) for every column x_i of states (GaussianLikelihood.cpp, closed form)"""
    H, Rm, y = c.get("H"), c.get("Rm"), c.get("ys")[k, :].reshape(-1, 1)
    inn = y - H @ states
    m = H.shape[0]
    q = np.sum(inn * np.linalg.solve(Rm, inn), axis=0)
    with np.errstate(under="ignore"):
        return float(c.get("scale")[0, 0]) * np.exp(-0.5 * (m * math.log(2 * math.pi) + math.log(np.linalg.det(Rm)) + q))


def aux_diffs(c, impl, model, tag, sk):
    """mean and covariance blocks of every particle: exactly those of the initial particle the model says they come from"""
    aux = col(model, tag + "aux" + sk)
    mn, cv = impl.get(tag + "mn" + sk), impl.get(tag + "cv" + sk)
    im, ic = c.get("init_mean"), c.get("init_cov")
    d = im.shape[0]
    if mn is None or cv is None or mn.shape != (d, aux.size) or cv.shape != (d, d * aux.size):
        return ["%smn/%scv%s: missing or wrong shape" % (tag, tag, sk)]
    for j in range(aux.size):
        a = int(aux[j])
        if not (same_bits(mn[:, j], im[:, a]) and same_bits(cv[:, j * d:(j + 1) * d], ic[:, a * d:(a + 1) * d])):
            return ["%s set, particle %d: mean/covariance are not those of initial particle %d" % ("corrected" if tag == "c" else "predicted", j, a)]
    return []


def compare(c, impl, model):
    N, K = int(c.meta["N"]), int(c.meta["K"])
    diffs = []
    for k in range(K):
        sk = str(k)
        if not model.has("neff" + sk):
            diffs.append("step %d: no model record" % k); break
        nm = model.get("neff" + sk)
        if abs(nm - N / 3.0) < NEAR_NEFF and model.get("res" + sk) != impl.get("res" + sk):
            _stats["near_boundary_skipped"] += 1
            break                      # decision within rounding of the threshold AND the two float decisions differ: the histories diverge
        if abs(nm - N / 3.0) < NEAR_NEFF:
            _stats["near_boundary_same_decision"] += 1
        _stats["steps_compared"] += 1
        ints = ["cn", "cdl", "cdc", "pn", "pdl", "pdc", "res"]
        d = caseio.compare_fields(impl, model, [f + sk for f in ints], 0, 0)
        d += caseio.compare_fields(impl, model, ["plw" + sk], atol=1e-9, rtol=0)
        d += caseio.compare_fields(impl, model, ["pst" + sk], atol=1e-12, rtol=1e-12)
        d += caseio.compare_fields(impl, model, ["neff" + sk], atol=0, rtol=1e-9)
        d += aux_diffs(c, impl, model, "p", sk)
        if impl.get("lstep" + sk) is None or impl.get("lstep" + sk) + 1 != model.get("step" + sk):
            d.append("step counter: library step_number() = %s during step %d, model counter after the step = %s" % (impl.get("lstep" + sk), k, model.get("step" + sk)))
        near = False
        if model.get("res" + sk) == 1 and impl.get("res" + sk) == 1:
            cs, cb = col(model, "csw" + sk), col(model, "comb" + sk)
            near = bool(np.min(np.abs(cb.reshape(-1, 1) - cs.reshape(1, -1))) < NEAR_COMB)
            if not near and not same_bits(col(impl, "par" + sk), col(model, "par" + sk)):
                d.append("par%s: impl=%s model=%s" % (sk, col(impl, "par" + sk)[:10], col(model, "par" + sk)[:10]))
        if near:
            _stats["near_boundary_skipped"] += 1
            diffs += ["step %d: %s" % (k, x) for x in d]
            break
        d += caseio.compare_fields(impl, model, ["clw" + sk], atol=1e-9, rtol=0)
        d += caseio.compare_fields(impl, model, ["cst" + sk], atol=1e-12, rtol=1e-12)
        d += aux_diffs(c, impl, model, "c", sk)
        if d:
            diffs += ["step %d: %s" % (k, x) for x in d]
            break
    return diffs


def oracle(c, impl, model):
    """The property clauses evaluated on the implementation's own trace."""
    v = []
    N, K, dl, dc = int(c.meta["N"]), int(c.meta["K"]), int(c.meta["dl"]), int(c.meta["dc"])
    fr, sp, sc, lv = (c.get(n) for n in ("freeze", "skipp", "skipc", "likvalid"))
    lik = c.get("lik")
    gauss = c.meta.get("likmodel") == "gauss"
    if impl.get("init_ok") != 1:
        v.append(("C06:init-failed", "initialization_step returned false")); return v
    prev_clw, prev_cst = None, None
    prev_c = None
    nres = 0
    for k in range(K):
        sk = str(k)
        where = "step %d (N=%d, layout %d+%d)" % (k, N, dl, dc)
        for tag, nm in (("c", "corrected"), ("p", "predicted")):
            if impl.get(tag + "n" + sk) != N or impl.get(tag + "cols" + sk) != N or col(impl, tag + "lw" + sk).size != N:
                v.append(("C06:particle-count", "%s: %s set has %s components, %s columns, %d weights" % (where, nm, impl.get(tag + "n" + sk), impl.get(tag + "cols" + sk), col(impl, tag + "lw" + sk).size)))
                return v
            if (impl.get(tag + "dl" + sk), impl.get(tag + "dc" + sk)) != (dl, dc):
                v.append(("C06:layout", "%s: %s set has layout (%s,%s) instead of (%d,%d)" % (where, nm, impl.get(tag + "dl" + sk), impl.get(tag + "dc" + sk), dl, dc)))
                return v
        clw, plw = col(impl, "clw" + sk), col(impl, "plw" + sk)
        cst, pst = impl.get("cst" + sk), impl.get("pst" + sk)
        cmc = (impl.get("cmn" + sk), impl.get("ccv" + sk)); pmc = (impl.get("pmn" + sk), impl.get("pcv" + sk))
        dd = dl + dc
        if any(x is None for x in cmc + pmc) or cmc[0].shape != (dd, N) or cmc[1].shape != (dd, dd * N) or pmc[0].shape != (dd, N) or pmc[1].shape != (dd, dd * N):
            v.append(("C06:mean-cov-storage", "%s: mean/covariance storage does not have %d x %d / %d x %d entries" % (where, dd, N, dd, dd * N))); return v
        res = impl.get("res" + sk)
        nres += res
        if not np.all(np.isfinite(clw)):
            v.append(("C06:nonfinite-weight", "%s: corrected log-weights %s" % (where, clw[:6]))); return v
        if abs(lse(clw)) > 1e-9:
            v.append(("C06:not-normalised", "%s: log-sum-exp of the corrected weights is %.3g" % (where, lse(clw)))); return v
        # prediction
        if k == 0:
            if not (same_bits(pst, c.get("init_state")) and same_bits(plw, c.get("init_lw").reshape(-1))):
                v.append(("C06:predicted-at-step0", "%s: the initial set was modified before the first correction" % where))
        else:
            if sp[k] == "1":
                if not (same_bits(pst, prev_cst) and same_bits(plw, prev_clw)):
                    v.append(("C06:skip-prediction-not-identity", "%s: prediction skipped but predicted set differs from the corrected one" % where))
            elif not same_bits(plw, prev_clw):
                v.append(("C06:prediction-changed-weights", "%s" % where))
        # calls
        exp_lik = 1 if (fr[k] == "1" and sc[k] != "1") else 0
        if exp_lik == 0 and impl.get("likcalls" + sk) != 0:
            v.append(("C06:call-log", "%s: the likelihood was evaluated although the correction is skipped or the acquisition failed" % where))
        if exp_lik == 1 and impl.get("likcalls" + sk) < 1:
            v.append(("C06:call-log", "%s: the likelihood was not evaluated" % where))
        if impl.get("lstep" + sk) != k:
            v.append(("C06:step-counter", "%s: step_number() = %s" % (where, impl.get("lstep" + sk))))
        # the likelihood vector of this step
        lrow = lik[k, :]
        if gauss and exp_lik == 1:
            if impl.get("lv" + sk) != (1 if lv[k] == "1" else 0):
                v.append(("C06:likelihood-validity", "%s: GaussianLikelihood reported valid=%s, measurement available=%s" % (where, impl.get("lv" + sk), lv[k])))
            if lv[k] == "1":
                lrow = gauss_density(c, k, pst)
                li = col(impl, "lik" + sk)
                if li is None or li.size != N or not caseio.close(li, lrow, 1e-300, 1e-7 * max(1.0, float(np.linalg.cond(c.get("Rm"))))):
                    v.append(("C06:likelihood-value", "%s: likelihood %s, scale*N(y - Hx; 0, R) = %s" % (where, None if li is None else li[:4], lrow[:4])))
                else:
                    lrow = li
        # expected corrected weights before the resampling test
        if fr[k] == "1":
            spec = plw.copy()
            if sc[k] != "1" and lv[k] == "1":
                spec = spec + np.log(lrow + TINY)
            spec = spec - lse(spec)
        else:
            spec = plw.copy()
        w = np.exp(spec)
        neff_spec = 1.0 / float(np.sum(w * w))
        neff = impl.get("neff" + sk)
        near = abs(neff_spec - N / 3.0) < NEAR_NEFF or abs(neff - N / 3.0) < NEAR_NEFF
        if not caseio.close(neff, neff_spec, 0.0, 1e-9):
            v.append(("C06:neff-value", "%s: neff %r, from the re-weighting formula %r" % (where, neff, neff_spec)))
        # trigger
        if not near and (res == 1) != (neff_spec < N / 3.0):
            v.append(("C06:resampling-trigger", "%s: neff = %.6g, N/3 = %.6g, resampled = %s" % (where, neff_spec, N / 3.0, res)))
            return v
        if res == 0:
            if fr[k] != "1":
                if not (same_bits(clw, plw) and same_bits(cst, pst) and same_bits(cmc[0], pmc[0]) and same_bits(cmc[1], pmc[1])):
                    v.append(("C06:no-measurement-not-predicted", "%s: acquisition failed but the corrected set differs from the predicted set" % where))
            else:
                if not caseio.close(clw, spec, 1e-9, 0.0):
                    v.append(("C06:reweight", "%s: corrected log-weights differ from lw + log(lik + tiny) - lse by %.3g" % (where, caseio.maxdiff(clw, spec))))
                if not (same_bits(cst, pst) and same_bits(cmc[0], pmc[0]) and same_bits(cmc[1], pmc[1])):
                    v.append(("C06:correction-moved-states", "%s: states, means or covariances differ between predicted and corrected set" % where))
                if (sc[k] == "1" or lv[k] != "1") and not caseio.close(clw, plw, 1e-9, 0.0):
                    v.append(("C06:unusable-measurement-not-predicted", "%s: correction skipped or likelihood invalid but corrected weights differ from the predicted ones by %.3g" % (where, caseio.maxdiff(clw, plw))))
        elif res == 1:
            if not np.all(np.abs(clw + math.log(N)) <= 1e-15):
                v.append(("C06:resampled-weights-not-uniform", "%s: %s" % (where, clw[:6])))
            par = col(impl, "par" + sk)
            if par is None or par.size != N or np.any(par < 0) or np.any(par >= N):
                v.append(("C06:resampled-parents", "%s: parents %s" % (where, par)))
            else:
                bad = [j for j in range(N) if not (same_bits(cst[:, j], pst[:, int(par[j])]) and same_bits(cmc[0][:, j], pmc[0][:, int(par[j])])
                                                   and same_bits(cmc[1][:, j * dd:(j + 1) * dd], pmc[1][:, int(par[j]) * dd:(int(par[j]) + 1) * dd]))]
                if bad:
                    v.append(("C06:resampled-not-copy", "%s: particle %d is not a copy of its parent %d" % (where, bad[0], int(par[bad[0]]))))
        else:
            v.append(("C06:resampling-trigger", "%s: %d resample calls in one step" % (where, res)))
        prev_clw, prev_cst = clw, cst
        if near:
            break
    _res_count[c.id] = nres
    _stats["resamplings"] += nres
    _stats["freeze_failures"] += int(c.meta["nfail"])
    return v


def histogram(cases):
    h = {"N": {}, "layout": {}}
    for c in cases:
        b = "1-5" if int(c.meta["N"]) <= 5 else ("6-20" if int(c.meta["N"]) <= 20 else "21-50")
        h["N"][b] = h["N"].get(b, 0) + 1
        l = "%s+%s" % (c.meta["dl"], c.meta["dc"])
        h["layout"][l] = h["layout"].get(l, 0) + 1
    h.update(_stats)
    return h


LEVEL_TEXT = ("Proof: the model of SIS::filtering_step (prediction skipped at step 0, freeze, bootstrap re-weighting lw += ln(lik + tiny), log-sum-exp "
              "normalisation, fall-back to the predicted set, resampling iff neff < N/3 with the C07 resampling model and the layout of the corrected set) "
              "is proved over the reals, by induction over all event lists, to keep N particles, the layout and lse(lw) = 0 after every step; every argument of ln "
              "is positive; the re-weighting formula, the no-measurement clause and the resampling trigger hold. The model is tied to the code by running the "
              "extracted model and a synchronously driven probe subclass of SIS on the same generated histories.")
LEVEL_NOTE = ("Trusted: Coq kernel + the 4 real-number axioms, extraction + float driver, harness (probe subclass, scripted models, RNG mirror); rounding is not "
              "modelled; near-boundary decisions end the comparison of a history; the tie to the code is sampled. Resampling implementations other than the base "
              "class, and PFPrediction implementations that change weights (GPFPrediction belongs to C08), are outside the model.")
