"""C01 — Kalman correction = conjugate posterior (DESIGN.md §5 C01)."""
import numpy as np
from vlib import caseio, gen

ID = "C01"
COQ_TARGETS = ["C01_Extract.vo", "C01_Transport.vo"]
EXTRA_PROPERTIES = ["Gauss"]   # Properties_Gauss.v: the executed list instance (Gauss-Jordan inverse/determinant, density, whole Kalman correction) = the MathComp objects of the theorems
EXTRACTED = "C01_model"
DRIVER = "drv_C01.ml"
HARNESS = "h_C01.cpp"
VARIANTS = {"quick": ["O1"], "thorough": ["O1", "asan"]}
AXIOMS_ALLOWED = []          # MathComp only: closed under the global context
REQUIRED_THEOREMS = ["C01_cov_information_form", "C01_mean_gain_form", "C01_is_conjugate_posterior", "C01_cov_sym",
                     "C01_cov_psd", "C01_cov_le_prior", "C01_componentwise", "C01_likelihood",
                     "Gauss_linv_correct", "Gauss_ldet_correct", "C01_executed_model_is_theorem_model",
                     "C01_executed_likelihood_is_theorem_likelihood", "C01_executed_info_posterior_is_theorem_info_posterior"]
RULE = ("one KFCorrection object per case driven through 1..4 successive corrections (45% multi-step: later steps change y / H / R / prior with the same or different sizes), getLikelihood queried twice after each; cases drawn from one seeded stream: n in 1..6, m in 1..4 (also m > n), components 1..4, P_i = Q diag(s) Q^T with "
        "chosen condition number <= 1e6, H random / rank-deficient / zero row / selector / zero, R SPD, y arbitrary; "
        "non-trivial = components >= 2 or H not of full rank; distinct by (n, m, comps, H kind, cond decade)")
TRUSTED_BASE = ["Coq 8.16.1 kernel (coqc); no axioms (Print Assumptions: closed under the global context)",
                "MathComp 1.15 matrix theory",
                "extraction (ExtrOcamlBasic only) and ocaml/float_ops.ml, ocaml/drv_C01.ml, ocaml/caseio.ml",
                "ListOps list instance of MatOps: proved to compute the MathComp operations on well-formed inputs over any realFieldType, incl. the Gauss-Jordan inverse/determinant on invertible inputs (ListOpsCorrect.v, ListGauss.v, C01_Transport.v; theorems of Properties_Gauss.v are obligations of this check); what remains between executed model and theorem model is IEEE rounding",
                "cpp/h_C01.cpp harness, comparison tolerances rtol 1e-9*cond (model) / 1e-7*cond (information form)",
                "correspondence is sampled: agreement is established on the generated cases only",
                "IEEE rounding is not modelled (theorems over an exact real field)"]
ASSUMPTIONS = ["Eigen inverse()/determinant() behave as matrix inverse/determinant up to rounding (checked against the model's Gauss-Jordan on every case)"]

COUNTS = {"quick": 1000, "thorough": 20000}


def one_step(rng, n, comps, m=None):
    m = m if m is not None else rng.randint(1, 4)
    H, hkind = gen.measurement_matrix(rng, m, n)
    R, condR = gen.spd(rng, m, 10 ** rng.uniform(0, 4))
    means = gen.matrix(rng, n, comps, 3.0)
    covs, cond = [], 1.0
    for i in range(comps):
        P, c = gen.spd(rng, n)
        covs.append(P); cond = max(cond, c)
    y = gen.matrix(rng, m, 1, 5.0)
    w = np.array([rng.random() + 0.1 for _ in range(comps)]); w = np.log(w / w.sum())
    condS = max(np.linalg.cond(H @ P @ H.T + R) for P in covs)
    # physical units. The problem is homogeneous: with the state measured in units of L (x -> L x: means L, P L^2, y L,
    # R L^2) the posterior mean scales by L and the covariance by L^2; with the measurement in units of e (y -> e y,
    # H -> e H, R -> e^2 R) the posterior does not change; the likelihood scales by (L e)^-m.  Conditioning is unchanged,
    # so the calibrated tolerances are carried over by the same factors (L for means, L^2 for covariances).
    L = 10.0 ** rng.uniform(-5, 4) if rng.random() < 0.4 else 1.0
    e = 10.0 ** rng.uniform(-3, 3) if rng.random() < 0.3 else 1.0
    H = H * e; R = R * (e * L) ** 2; y = y * (e * L); means = means * L; covs = [P * L * L for P in covs]
    return dict(H=H, R=R, y=y, means=means, covs=np.hstack(covs), weights=w.reshape(-1, 1), hkind=hkind,
                cond=max(cond, condR, condS), rankH=int(np.linalg.matrix_rank(H)), n=n, m=m, comps=comps, L=L, e=e)


def generate(rng, tier):
    """One KFCorrection object per case, driven through 1..4 corrections. In a multi-step case the
    later steps change the measurement, H, R and the prior while keeping (mostly) the same sizes and
    component count - the configuration in which state left behind by an earlier call would show."""
    cases = []
    for k in range(COUNTS[tier]):
        n = rng.randint(1, 6); comps = rng.randint(1, 4)
        steps = 1 if rng.random() < 0.55 else rng.randint(2, 4)
        st = [one_step(rng, n, comps)]
        for t in range(1, steps):
            r = rng.random()
            if r < 0.6:      # same shapes, everything else different
                st.append(one_step(rng, n, comps, st[0]["m"]))
            elif r < 0.75:   # only the measurement changes
                d = dict(st[-1]); d["y"] = gen.matrix(rng, d["m"], 1, 5.0) * (d["e"] * d["L"]); st.append(d)
            elif r < 0.9:    # other measurement size
                st.append(one_step(rng, n, comps))
            else:            # other component count and state size
                st.append(one_step(rng, rng.randint(1, 6), rng.randint(1, 4)))
        extra = rng.choice([0, 0, 1, 2])
        alias = 1 if (extra == 0 and rng.random() < 0.1) else 0
        intrude = 1 if rng.random() < 0.3 else 0     # callback re-entrancy: a twin filter runs inside every model callback
        lifetime = rng.choice(["fresh", "fresh", "fresh", "moved", "moved_after_use"])
        c = caseio.Case(k, "kf_correct", {"steps": steps, "extra": extra, "alias": alias, "intrude": intrude, "lifetime": lifetime, "n": st[0]["n"], "m": st[0]["m"], "comps": st[0]["comps"], "hkind": st[0]["hkind"],
                                          "cond": "%.3g" % max(x["cond"] for x in st), "rankH": st[0]["rankH"],
                                          "shapes": ",".join("%d:%d:%d" % (x["n"], x["m"], x["comps"]) for x in st),
                                          "conds": ",".join("%.3g" % x["cond"] for x in st),
                                          "units": ",".join("%r:%r" % (x["L"], x["e"]) for x in st)})
        for t, x in enumerate(st):
            s = "_s%d" % t
            c.mat("H" + s, x["H"]).mat("R" + s, x["R"]).mat("y" + s, x["y"]).mat("means" + s, x["means"]).mat("covs" + s, x["covs"]).mat("weights" + s, x["weights"])
        cases.append(c)
    return cases


def nontrivial(c):
    n, m, comps = int(c.meta["n"]), int(c.meta["m"]), int(c.meta["comps"])
    if comps >= 2 or int(c.meta["rankH"]) < min(n, m) or int(c.meta["steps"]) > 1:
        return (n, m, comps, c.meta["hkind"], gen.decade(float(c.meta["cond"])), c.meta["steps"], c.meta["shapes"])
    return None


def step_units(c):
    """(L, e) per step: unit of the state and of the measurement (1, 1 for cases written before units were drawn)."""
    if "units" not in c.meta:
        return [(1.0, 1.0)] * len(c.meta["shapes"].split(","))
    return [tuple(float(v) for v in x.split(":")) for x in c.meta["units"].split(",")]


def step_shapes(c):
    return [tuple(int(v) for v in x.split(":")) for x in c.meta["shapes"].split(",")]


def compare(c, impl, model):
    """impl vs model. Tolerances calibrated on 6000 cases (conditions up to 6e7): the largest observed
    |impl - model| is 2.2 * eps * cond * max|P_prior| for means/covariances and 106 * eps * cond relative for
    likelihoods (the two sides use different inverse routines); the tolerances below keep a margin of
    about 200x / 400x over that and are 4 orders tighter than a blanket 1e-9*cond."""
    d = []
    conds = [float(x) for x in c.meta["conds"].split(",")]
    units = step_units(c)
    for t, (n, m, comps) in enumerate(step_shapes(c)):
        s = "_s%d" % t
        if impl.get("components" + s) != model.get("components" + s):
            d.append("components%s: impl=%s model=%s" % (s, impl.get("components" + s), model.get("components" + s)))
        L = units[t][0]
        pmag = max(1.0, float(np.max(np.abs(c.get("covs" + s)))) / (L * L), float(np.max(np.abs(c.get("means" + s)))) / L)
        tol1 = 1e-13 + 5e-14 * conds[t] * pmag          # in units of the state
        for i in range(comps):
            for f, tol in (("mean%d%s" % (i, s), tol1 * L), ("cov%d%s" % (i, s), tol1 * L * L)):
                a, b = impl.get(f), model.get(f)
                if a is None or b is None or not caseio.close(a, b, tol, 0):
                    d.append("%s: max|impl-model|=%.3g (tol %.3g)" % (f, caseio.maxdiff(a, b) if a is not None and b is not None else float("nan"), tol))
            a, b = impl.get("lik%d%s" % (i, s)), model.get("lik%d%s" % (i, s))
            if not caseio.close(a, b, 1e-300, 5e-12 * conds[t]):
                d.append("lik%d%s: impl=%r model=%r (rtol %.3g)" % (i, s, a, b, 5e-12 * conds[t]))
    return d


def oracle(c, impl, model):
    """The property clauses evaluated on the implementation's output, for every step of the sequence."""
    v = []
    conds = [float(x) for x in c.meta["conds"].split(",")]
    units = step_units(c)
    for t, (n, m, comps) in enumerate(step_shapes(c)):
        s = "_s%d" % t
        L = units[t][0]
        tag = "" if t == 0 else ":later-call-on-same-object"
        cond = conds[t]
        covs = c.get("covs" + s)
        if impl.get("components" + s) != comps:
            v.append(("C01:component-count" + tag, "step %d: reported %s components for %d" % (t, impl.get("components" + s), comps)))
        if impl.get("pred_unchanged" + s) != 1:
            v.append(("C01:prior-modified" + tag, "step %d: the predicted belief passed in was modified" % t))
        if impl.get("lik_valid" + s) != 1 or impl.get("lik_size" + s) != comps:
            v.append(("C01:likelihood-missing" + tag, "step %d: likelihood not reported for every component" % t))
        if impl.get("frame_kept" + s) != 1:
            v.append(("C01:output-object-written-outside-corrected-components" + tag, "step %d: weights, shape or components beyond the predicted ones of the output object changed" % t))
        if impl.get("lik_requery_same" + s) != 1:
            v.append(("C01:likelihood-changes-on-requery" + tag, "step %d: a second getLikelihood() returned something else" % t))
        for i in range(comps):
            P = covs[:, i * n:(i + 1) * n]
            Pc, mc, lik = impl.get("cov%d%s" % (i, s)), impl.get("mean%d%s" % (i, s)), impl.get("lik%d%s" % (i, s))
            scale = max(L * L, float(np.max(np.abs(P))))
            tol = 1e-7 * cond * scale
            if model is not None:
                sm, sc_, sl = model.get("spec_mean%d%s" % (i, s)), model.get("spec_cov%d%s" % (i, s)), model.get("spec_lik%d%s" % (i, s))
                if not caseio.close(Pc, sc_, tol, 0):
                    v.append(("C01:cov-not-information-form" + tag, "step %d component %d: max diff %.3g > %.3g" % (t, i, caseio.maxdiff(Pc, sc_), tol)))
                mt = 1e-7 * cond * max(L, float(np.max(np.abs(sm))))
                if not caseio.close(mc, sm, mt, 0):
                    v.append(("C01:mean-not-conjugate" + tag, "step %d component %d: max diff %.3g > %.3g" % (t, i, caseio.maxdiff(mc, sm), mt)))
                if not caseio.close(lik, sl, 1e-300, 1e-7 * cond):
                    v.append(("C01:likelihood-not-density" + tag, "step %d component %d: %r vs %r" % (t, i, lik, sl)))
            if not caseio.close(Pc, Pc.T, 1e-9 * cond * scale, 0):
                v.append(("C01:cov-not-symmetric" + tag, "step %d component %d" % (t, i)))
            S = (Pc + Pc.T) / 2
            if np.all(np.isfinite(S)):
                if np.linalg.eigvalsh(S).min() < -tol:
                    v.append(("C01:cov-not-psd" + tag, "step %d component %d: lambda_min %.3g" % (t, i, np.linalg.eigvalsh(S).min())))
                if np.linalg.eigvalsh((P + P.T) / 2 - S).min() < -tol:
                    v.append(("C01:cov-larger-than-prior" + tag, "step %d component %d" % (t, i)))
            else:
                v.append(("C01:cov-not-finite" + tag, "step %d component %d" % (t, i)))
    return v


def histogram(cases):
    h = {}
    for c in cases:
        k = "n=%s m=%s comps=%s" % (c.meta["n"], c.meta["m"], c.meta["comps"])
        h[k] = h.get(k, 0) + 1
    hk = {}
    for c in cases:
        hk[c.meta["hkind"]] = hk.get(c.meta["hkind"], 0) + 1
    return {"H_kind": hk, "cond_decade": _count(cases, lambda c: gen.decade(float(c.meta["cond"]))), "shapes": len(h),
            "steps_per_object": _count(cases, lambda c: c.meta["steps"])}


def _count(cases, f):
    d = {}
    for c in cases:
        d[str(f(c))] = d.get(str(f(c)), 0) + 1
    return d

LEVEL_TEXT = ("Proof: the Kalman correction model (per-component loop of KFCorrection::correctStep over a linear measurement model, and getLikelihood) "
              "is proved, for every real field, dimension, mixture size, H of any rank and SPD P_i, R, to return the information-form posterior "
              "(P^-1+H^T R^-1 H)^-1 and mean m+K(y-Hm), symmetric, PSD, below the prior in the Loewner order, component-wise, with likelihood N(y;Hm,HPH^T+R). "
              "The model is tied to the code by running the extracted model and the library on the same generated cases.")
LEVEL_NOTE = ("Trusted: Coq kernel, MathComp, extraction + float driver, list instance of the matrix interface, harness and tolerances; rounding is not modelled; "
              "the tie to the code is sampled (300 quick / 20000 thorough cases). 'Prior left unmodified' is checked on the implementation only.")
