"""C01 — Kalman correction = conjugate posterior (DESIGN.md §5 C01)."""
import numpy as np
from vlib import caseio, gen

ID = "C01"
COQ_TARGETS = ["C01_Extract.vo"]
EXTRACTED = "C01_model"
DRIVER = "drv_C01.ml"
HARNESS = "h_C01.cpp"
VARIANTS = {"quick": ["O1"], "thorough": ["O1", "asan"]}
AXIOMS_ALLOWED = []          # MathComp only: closed under the global context
REQUIRED_THEOREMS = ["C01_cov_information_form", "C01_mean_gain_form", "C01_is_conjugate_posterior", "C01_cov_sym",
                     "C01_cov_psd", "C01_cov_le_prior", "C01_componentwise", "C01_likelihood"]
RULE = ("cases drawn from one seeded stream: n in 1..6, m in 1..4 (also m > n), components 1..4, P_i = Q diag(s) Q^T with "
        "chosen condition number <= 1e6, H random / rank-deficient / zero row / selector / zero, R SPD, y arbitrary; "
        "non-trivial = components >= 2 or H not of full rank; distinct by (n, m, comps, H kind, cond decade)")
TRUSTED_BASE = ["Coq 8.16.1 kernel (coqc); no axioms (Print Assumptions: closed under the global context)",
                "MathComp 1.15 matrix theory",
                "extraction (ExtrOcamlBasic only) and ocaml/float_ops.ml, ocaml/drv_C01.ml, ocaml/caseio.ml",
                "ListOps list instance of MatOps (structural operations and Gauss-Jordan inverse/determinant, unproved)",
                "cpp/h_C01.cpp harness, comparison tolerances rtol 1e-9*cond (model) / 1e-7*cond (information form)",
                "correspondence is sampled: agreement is established on the generated cases only",
                "IEEE rounding is not modelled (theorems over an exact real field)"]
ASSUMPTIONS = ["Eigen inverse()/determinant() behave as matrix inverse/determinant up to rounding (checked against the model's Gauss-Jordan on every case)"]

COUNTS = {"quick": 300, "thorough": 20000}


def generate(rng, tier):
    cases = []
    for k in range(COUNTS[tier]):
        n = rng.randint(1, 6); m = rng.randint(1, 4); comps = rng.randint(1, 4)
        H, hkind = gen.measurement_matrix(rng, m, n)
        R, condR = gen.spd(rng, m, 10 ** rng.uniform(0, 4))
        means = gen.matrix(rng, n, comps, 3.0)
        covs, cond = [], 1.0
        for i in range(comps):
            P, c = gen.spd(rng, n)
            covs.append(P); cond = max(cond, c)
        y = gen.matrix(rng, m, 1, 5.0)
        w = np.array([rng.random() + 0.1 for _ in range(comps)]); w = np.log(w / w.sum())
        # conditioning of S = HPH^T + R as well
        condS = max(np.linalg.cond(H @ P @ H.T + R) for P in covs)
        c = caseio.Case(k, "kf_correct", {"n": n, "m": m, "comps": comps, "hkind": hkind,
                                          "cond": "%.3g" % max(cond, condR, condS), "rankH": int(np.linalg.matrix_rank(H))})
        c.mat("H", H).mat("R", R).mat("y", y).mat("means", means).mat("covs", np.hstack(covs)).mat("weights", w.reshape(-1, 1))
        cases.append(c)
    return cases


def nontrivial(c):
    n, m, comps = int(c.meta["n"]), int(c.meta["m"]), int(c.meta["comps"])
    if comps >= 2 or int(c.meta["rankH"]) < min(n, m):
        return (n, m, comps, c.meta["hkind"], gen.decade(float(c.meta["cond"])))
    return None


def fields(c):
    out = ["components"]
    for i in range(int(c.meta["comps"])):
        out += ["mean%d" % i, "cov%d" % i, "lik%d" % i]
    return out


def compare(c, impl, model):
    cond = float(c.meta["cond"])
    return caseio.compare_fields(impl, model, fields(c), atol=1e-12, rtol=1e-9, scale=cond)


def oracle(c, impl, model):
    """The property clauses evaluated on the implementation's output."""
    v = []
    cond = float(c.meta["cond"])
    n, comps = int(c.meta["n"]), int(c.meta["comps"])
    covs = c.get("covs")
    if impl.get("components") != comps:
        v.append(("C01:component-count", "reported %s components for %d" % (impl.get("components"), comps)))
    if impl.get("pred_unchanged") != 1:
        v.append(("C01:prior-modified", "the predicted belief passed in was modified"))
    if impl.get("lik_valid") != 1 or impl.get("lik_size") != comps:
        v.append(("C01:likelihood-missing", "likelihood not reported for every component"))
    for i in range(comps):
        P = covs[:, i * n:(i + 1) * n]
        Pc, mc, lik = impl.get("cov%d" % i), impl.get("mean%d" % i), impl.get("lik%d" % i)
        scale = max(1.0, float(np.max(np.abs(P))))
        tol = 1e-7 * cond * scale
        if model is not None:
            sm, sc_, sl = model.get("spec_mean%d" % i), model.get("spec_cov%d" % i), model.get("spec_lik%d" % i)
            if not caseio.close(Pc, sc_, tol, 0):
                v.append(("C01:cov-not-information-form", "component %d: max diff %.3g > %.3g" % (i, caseio.maxdiff(Pc, sc_), tol)))
            mt = 1e-7 * cond * max(1.0, float(np.max(np.abs(sm))))
            if not caseio.close(mc, sm, mt, 0):
                v.append(("C01:mean-not-conjugate", "component %d: max diff %.3g > %.3g" % (i, caseio.maxdiff(mc, sm), mt)))
            if not caseio.close(lik, sl, 1e-300, 1e-7 * cond):
                v.append(("C01:likelihood-not-density", "component %d: %r vs %r" % (i, lik, sl)))
        if not caseio.close(Pc, Pc.T, 1e-9 * cond * scale, 0):
            v.append(("C01:cov-not-symmetric", "component %d" % i))
        S = (Pc + Pc.T) / 2
        if np.all(np.isfinite(S)):
            if np.linalg.eigvalsh(S).min() < -tol:
                v.append(("C01:cov-not-psd", "component %d: lambda_min %.3g" % (i, np.linalg.eigvalsh(S).min())))
            if np.linalg.eigvalsh((P + P.T) / 2 - S).min() < -tol:
                v.append(("C01:cov-larger-than-prior", "component %d" % i))
        else:
            v.append(("C01:cov-not-finite", "component %d" % i))
    return v


def histogram(cases):
    h = {}
    for c in cases:
        k = "n=%s m=%s comps=%s" % (c.meta["n"], c.meta["m"], c.meta["comps"])
        h[k] = h.get(k, 0) + 1
    hk = {}
    for c in cases:
        hk[c.meta["hkind"]] = hk.get(c.meta["hkind"], 0) + 1
    return {"H_kind": hk, "cond_decade": _count(cases, lambda c: gen.decade(float(c.meta["cond"]))), "shapes": len(h)}


def _count(cases, f):
    d = {}
    for c in cases:
        d[str(f(c))] = d.get(str(f(c)), 0) + 1
    return d

LEVEL_TEXT = ("Proof: the Kalman correction model (per-component loop of KFCorrection::correctStep over a linear measurement model, and getLikelihood) "
              "is proved, for every real field, dimension, mixture size, H of any rank and SPD P_i, R, to return the information-form posterior "
              "(P^-1+H^T R^-1 H)^-1 and mean m+K(y-Hm), symmetric, PSD, below the prior in the Loewner order, component-wise, with likelihood N(y;Hm,HPH^T+R). "
              "The model is tied to the code by running the extracted model and the library on the same generated cases.")
LEVEL_NOTE = ("Trusted: Coq kernel, MathComp, extraction + float driver, list instance of the matrix interface, harness and tolerances; rounding is not modelled; "
              "the tie to the code is sampled (300 quick / 20000 thorough cases). 'Prior left unmodified' is checked on the implementation only.")
