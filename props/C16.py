"""C16 — shipped models and initialisers match their documented closed form (DESIGN.md §5 C16)."""
import math, os
import numpy as np
from vlib import caseio, gen

ID = "C16"
COQ_TARGETS = ["C16_Extract.vo", "C16_ProofsSM.vo", "C16_Proofs.vo", "C16_Regress.vo"]
EXTRACTED = "C16_model"
DRIVER = "drv_C16.ml"
HARNESS = "h_C16.cpp"
# Eigen assertions on: a size mismatch is reported (exit 42 + entry point), not undefined behaviour
VARIANTS = {"quick": ["assert"], "thorough": ["assert", "asan"]}
MODEL_NEEDS_IMPL = True      # the mirrored standard-normal draws and the observed LDLT factors are inputs of the model
AXIOMS_ALLOWED = []          # MathComp / lists only: closed under the global context
REQUIRED_THEOREMS = ["C16_state_dimension", "C16_F_closed_form", "C16_Q_closed_form", "C16_Q_block_minors", "C16_Q_spd", "C16_Q_invertible",
                     "C16_noise_dim", "C16_noise_cov", "C16_motion", "C16_transition_density", "C16_trajectory_wna",
                     "C16_lti_state_ctor_validation", "C16_lti_meas_ctor_validation", "C16_selector_ctor_validation",
                     "C16_selector_matrix", "C16_selector_rejects_out_of_range", "C16_sensor_freeze", "C16_sensor_serving",
                     "C16_sensor_draws", "C16_trajectory", "C16_trajectory_recurrence", "C16_serving_state", "C16_serving",
                     "C16_reset_restarts", "C16_call_output", "C16_zero_length_has_no_state",
                     "C16_grid_refusal", "C16_grid_positions", "C16_grid_spans", "C16_grid_weights", "C16_grid_overwrites",
                     "C16_sensor_noise_cov", "C16_sensor_descriptions", "C16_factor_exists"]
RULE = ("corpus props/C16_corpus/*.case first, then cases drawn from one seeded stream; kinds: wna (Dim in {1,2,3}, T in [0.001,10] i.e. cond(Q) up to ~1e7, q in [0.01,100], seed or the default-seed constructor, a script of 3-7 calls "
        "among getNoiseSample(0..5), motion (0..4 columns), getTransitionProbability (0..6 pairs)); wna_stat / lin_stat (empirical moments of 1e4 .. 2e4 samples, motions and sensor residuals); lti_state / lti_meas (all shape "
        "classes: 0 x k, k x 0, non-square, mismatched, valid); linmodel (state size 0..6, 0..6 indices incl. out-of-range and repeated, "
        "R valid / empty / non-square / mismatched); sim (trajectory length 1..50, call sequences with calls past the end and resets); "
        "sensor (same over a component-selecting sensor); grid (2..6 x 2..6 and a few degenerate 1 x k, right and wrong particle counts, both constructors). "
        "non-trivial = every case except a valid-shape constructor call; distinct by (kind, Dim or shape class or outcome, size bucket)")
TRUSTED_BASE = ["Coq 8.16.1 kernel (coqc); no axioms (Print Assumptions: closed under the global context)",
                "MathComp 1.15 matrix theory",
                "extraction (ExtrOcamlBasic only) and ocaml/float_ops.ml, ocaml/drv_C16.ml, ocaml/caseio.ml",
                "ListOps list instance of MatOps (structural operations and Gauss-Jordan inverse/determinant, unproved)",
                "cpp/h_C16.cpp harness incl. its mirror of std::mt19937_64(seed) + std::normal_distribution<double>(0,1) and the "
                "observation of the private factor sqrt_Q_ as getNoiseSample(d) * Z^-1 on the instance under test (first call; probes with cond(Z) > 1e6 are rejected and counted)",
                "comparison tolerances: closed forms rtol 1e-12, samples / trajectories rtol 1e-9, densities 1e-13*cond(Q) on the log scale (1e-11*cond(Q) against numpy), empirical moments %.1f sigma" % 5.5,
                "correspondence is sampled: agreement is established on the generated cases only",
                "IEEE rounding is not modelled (theorems over an exact real field); std::pow(T,3.0), std::pow(T,2.0) are transcribed as T*T*T, T*T"]
ASSUMPTIONS = ["RNG: the draws of std::normal_distribution<double>(0,1) over std::mt19937_64(seed) are independent standard normal, "
               "E[Z Z^T] = I; the theorem C16_noise_cov is the algebraic identity L (Z Z^T) L^T = Q under Z Z^T = I, L L^T = Q",
               "LDLT factor contract, local form: sqrt_Q_ sqrt_Q_^T = Q_ and sqrt_R_ sqrt_R_^T = R_ for the matrices at hand (premise of "
               "C16_noise_cov / C16_sensor_noise_cov; Q proved SPD for T, q > 0; a factor proved to exist in every real closed field; "
               "checked at run time on every case on the factor observed on the implementation)",
               "Eigen inverse()/determinant() behave as matrix inverse/determinant up to rounding (Gaussian density)",
               "WhiteNoiseAcceleration is used without an exogenous model and not skipping (the skip branches of LinearStateModel::propagate are C13's)",
               "InitSurveillanceAreaGrid::initialize is applied to a particle set with 4 state rows"]

COUNTS = {"quick": {"wna": 90, "lti_state": 60, "lti_meas": 50, "linmodel": 70, "sim": 40, "sensor": 40, "grid": 50, "wna_stat": 8, "lin_stat": 6},
          "thorough": {"wna": 2500, "lti_state": 1500, "lti_meas": 1200, "linmodel": 2000, "sim": 900, "sensor": 900, "grid": 1000, "wna_stat": 100, "lin_stat": 60}}
DIMNAME = {1: "OneD", 2: "TwoD", 3: "ThreeD"}


# ---------------------------------------------------------------- closed forms (spec level, numpy)

def F_closed(dim, T):
    return np.kron(np.eye(dim), np.array([[1.0, T], [0.0, 1.0]]))


def Q_closed(dim, T, q):
    return q * np.kron(np.eye(dim), np.array([[T ** 3 / 3.0, T ** 2 / 2.0], [T ** 2 / 2.0, T]]))


def colmajor(z, rows, cols):
    return np.array(z[:rows * cols], dtype=float).reshape(cols, rows).T


def log_gauss(x, mean, S):
    d = len(x)
    delta = x - mean
    sign, ld = np.linalg.slogdet(S)
    return -0.5 * (d * math.log(2 * math.pi) + ld + float(delta @ np.linalg.solve(S, delta)))


# ---------------------------------------------------------------- generators

def _wna_params(rng):
    dim = rng.choice([1, 2, 3])
    T = float("%.6g" % (10 ** rng.uniform(-3.0, 1.0)))        # cond(Q) ~ 12/T^2 up to ~1e7
    q = float("%.6g" % (10 ** rng.uniform(-2.0, 2.0)))
    return dim, T, q, rng.getrandbits(31)


def gen_wna(rng, k):
    dim, T, q, seed = _wna_params(rng)
    d = 2 * dim
    F, Q = F_closed(dim, T), Q_closed(dim, T, q)
    c = caseio.Case(k, "wna", {"dim": dim, "T": T, "q": q, "cond": "%.3g" % np.linalg.cond(Q)})
    defseed = int(rng.random() < 0.12)         # the constructor without a seed argument (documented default: 1)
    c.int("dim", dim).mat("Tq", [[T, q]]).int("seed", 1 if defseed else seed).int("defseed", defseed)
    c.meta["defseed"] = defseed
    script, mats = [], []
    for i in range(rng.randint(3, 7)):
        op = rng.choice("nnmtt")
        if op == "n":
            script.append("n%d" % rng.choice([0, 1, 1, 2, 3, 4, 5]))
        elif op == "m":
            cols = rng.choice([0, 1, 1, 2, 3, 4])
            script.append("m%d" % i); mats.append(("X%d" % i, gen.matrix(rng, d, cols, 3.0)))
        else:
            cols = rng.choice([0, 1, 2, 3, 4, 5, 6])
            prev = gen.matrix(rng, d, cols, 2.0)
            Lc = np.linalg.cholesky(Q)
            spread = rng.choice([0.0, 0.5, 1.0, 2.0, 6.0])
            cur = F @ prev + spread * (Lc @ gen.matrix(rng, d, cols))
            if rng.random() < 0.15:
                cur = gen.matrix(rng, d, cols, 2.0)          # unrelated pair: tiny or vanishing density
            script.append("t%d" % i); mats.append(("P%d" % i, prev)); mats.append(("C%d" % i, cur))
    c.word("script", script)
    for name, a in mats:
        c.mat_shape(name, a.shape[0], a.shape[1], a)
    c.meta["ops"] = "".join(s[0] for s in script)
    return c


def _dims(rng):
    """four dimensions around a base size, each perturbed with probability 1/4 (0 included)"""
    n = rng.randint(1, 5)
    return [n if rng.random() < 0.75 else rng.randint(0, 5) for _ in range(4)]


def _other(rng, n, lo=1, hi=6):
    return rng.choice([k for k in range(lo, hi + 1) if k != n])


def _shape_class(rng, square_first):
    """(r1, c1, r2, c2) aimed at one branch of the constructor's if / else-if chain; the first matrix is
    square in the valid class iff square_first"""
    n = rng.randint(1, 5)
    c1 = n if square_first else rng.randint(1, 6)
    cls = rng.choice(["valid", "valid", "first_empty", "second_empty", "first_nonsquare", "second_nonsquare",
                      "second_smaller", "second_larger", "random", "random"])
    if cls == "valid":
        return n, c1, n, n
    if cls == "first_empty":
        r, c = rng.choice([(0, c1), (n, 0), (0, 0)])
        return (r, c) + tuple(rng.choice([(n, n), (0, n), (n, n + 1), (n + 1, n + 1)]))
    if cls == "second_empty":
        r, c = rng.choice([(0, n), (n, 0), (0, 0)])
        return (n, c1 if rng.random() < 0.7 else _other(rng, n)) + (r, c)
    if cls == "first_nonsquare":
        return (n, _other(rng, n)) + tuple(rng.choice([(n, n), (n, n + 1), (n + 1, n + 1)]))
    if cls == "second_nonsquare":
        return (n, c1) + tuple(rng.choice([(n, _other(rng, n)), (_other(rng, n), n)]))
    if cls == "second_smaller":
        k = rng.randint(1, n - 1) if n > 1 else 2
        return n, c1, k, k
    if cls == "second_larger":
        k = n + rng.randint(1, 2)
        return n, c1, k, k
    return tuple(_dims(rng))


def gen_lti_state(rng, k):
    fr, fc, qr, qc = _shape_class(rng, True)
    c = caseio.Case(k, "lti_state", {"fr": fr, "fc": fc, "qr": qr, "qc": qc})
    c.mat_shape("F", fr, fc, gen.matrix(rng, fr, fc)).mat_shape("Q", qr, qc, gen.matrix(rng, qr, qc))
    return c


def gen_lti_meas(rng, k):
    hr, hc, rr, rc = _shape_class(rng, False)
    c = caseio.Case(k, "lti_meas", {"hr": hr, "hc": hc, "rr": rr, "rc": rc})
    c.mat_shape("H", hr, hc, gen.matrix(rng, hr, hc)).mat_shape("R", rr, rc, gen.matrix(rng, rr, rc))
    return c


def _indices(rng, n, valid):
    m = rng.randint(1, 6) if valid else rng.randint(0, 6)
    if valid:
        return [rng.randrange(n) for _ in range(m)]
    kind = rng.choice(["in", "in", "oob", "oob_first", "edge"])
    idxs = [rng.randrange(n) if n > 0 else 0 for _ in range(m)]
    if m and kind == "oob":
        for _ in range(rng.randint(1, 2)):
            idxs[rng.randrange(m)] = n + rng.randint(0, 3)
    elif m and kind == "oob_first":
        idxs[0] = n + rng.randint(0, 2)
    elif m and kind == "edge":
        idxs[-1] = n                    # exactly the bound
    return idxs


def _noise_cov(rng, m, valid):
    if valid or rng.random() < 0.65:
        if m == 0:
            return np.zeros((0, 0)), 0, 0
        R, _ = gen.spd(rng, m, 10 ** rng.uniform(0, 3))
        return R, m, m
    cls = rng.choice(["smaller", "larger", "nonsquare", "empty", "random"])
    if cls == "smaller" and m > 1:
        rr = rc = rng.randint(1, m - 1)
    elif cls == "larger" or cls == "smaller":
        rr = rc = m + rng.randint(1, 2)
    elif cls == "nonsquare":
        rr, rc = rng.choice([(m, m + 1), (m + 1, m), (max(m, 1), max(m, 1) + 2)])
    elif cls == "empty":
        rr, rc = rng.choice([(0, m), (m, 0), (0, 0)])
    else:
        rr, rc = rng.randint(0, 5), rng.randint(0, 5)
    if rr == rc and rr > 0:
        R, _ = gen.spd(rng, rr, 10 ** rng.uniform(0, 3))
        return R, rr, rc
    return gen.matrix(rng, rr, rc), rr, rc


def gen_linmodel(rng, k):
    n = rng.randint(0, 6) if rng.random() < 0.15 else rng.randint(1, 6)
    idxs = _indices(rng, n, False)
    R, rr, rc = _noise_cov(rng, len(idxs), False)
    defseed = int(rng.random() < 0.12)
    c = caseio.Case(k, "linmodel", {"n": n, "m": len(idxs), "rr": rr, "rc": rc, "defseed": defseed})
    c.int("n", n).word("idxs", idxs).mat_shape("R", rr, rc, R).int("seed", 1 if defseed else rng.getrandbits(31)).int("defseed", defseed)
    c.word("nums", [rng.choice([0, 1, 2, 3, 4, 5]) for _ in range(rng.randint(1, 3))])
    return c


def _ops(rng, len_, a):
    """a call sequence that runs past the end and restarts"""
    ops = []
    total = rng.randint(1, len_ + 12)
    for _ in range(total):
        u = rng.random()
        ops.append(a if u < 0.82 else ("r" if u < 0.92 else "o"))
    if rng.random() < 0.6:
        ops += [a] * rng.randint(1, len_ + 3)        # certainly past the end
    if rng.random() < 0.5:
        ops += ["r"] + [a] * rng.randint(1, 4)
    return ops


def gen_sim(rng, k, sensor=False):
    dim, T, q, seed = _wna_params(rng)
    d = 2 * dim
    len_ = rng.choice([1, 2, 3, 50]) if rng.random() < 0.3 else rng.randint(1, 50)
    c = caseio.Case(k, "sensor" if sensor else "sim", {"dim": dim, "T": T, "q": q, "len": len_})
    defseed = int(rng.random() < 0.1)
    c.int("dim", dim).mat("Tq", [[T, q]]).int("seed", 1 if defseed else seed).int("defseed", defseed)
    c.mat_shape("x0", d, 1, gen.matrix(rng, d, 1, 5.0)).int("len", len_)
    if sensor:
        idxs = _indices(rng, d, True)
        R, rr, rc = _noise_cov(rng, len(idxs), True)
        defseed2 = int(rng.random() < 0.15)
        c.word("idxs", idxs).mat_shape("R", rr, rc, R).int("seed2", 1 if defseed2 else rng.getrandbits(31)).int("defseed2", defseed2)
        c.meta.update({"m": len(idxs), "rr": rr, "rc": rc})
    ops = _ops(rng, len_, "f" if sensor else "b")
    c.word("ops", ops)
    c.meta["nops"] = len(ops)
    return c


def gen_wna_stat(rng, k, tier="quick"):
    """empirical moments of many samples: the mirror-free form of 'covariance Q'"""
    dim = rng.choice([1, 2, 3])
    T = float("%.6g" % (10 ** rng.uniform(-1.0, 1.0))); q = float("%.6g" % (10 ** rng.uniform(-2.0, 2.0)))
    N = 10000 if tier == "quick" else 20000
    c = caseio.Case(k, "wna_stat", {"dim": dim, "T": T, "q": q, "N": N})
    c.int("dim", dim).mat("Tq", [[T, q]]).int("seed", rng.getrandbits(31)).int("N", N).mat_shape("x", 2 * dim, 1, gen.matrix(rng, 2 * dim, 1, 3.0))
    return c


def gen_lin_stat(rng, k, tier="quick"):
    n = rng.choice([2, 4, 6])            # also run as a sensor over a WhiteNoiseAcceleration of that size
    idxs = _indices(rng, n, True)
    R, rr, rc = _noise_cov(rng, len(idxs), True)
    N = 10000 if tier == "quick" else 20000
    c = caseio.Case(k, "lin_stat", {"n": n, "m": len(idxs), "rr": rr, "rc": rc, "N": N})
    c.int("n", n).word("idxs", idxs).mat_shape("R", rr, rc, R).int("seed", rng.getrandbits(31)).int("N", N)
    return c


def gen_grid(rng, k):
    nx, ny = rng.randint(2, 6), rng.randint(2, 6)
    if rng.random() < 0.08:
        # outside the property's domain (>= 2 per axis): 0/0 * 0 = NaN coordinates; correspondence only
        if rng.random() < 0.5: nx = 1
        else: ny = 1
    np_ = nx * ny if rng.random() < 0.7 else max(1, rng.choice([nx * ny - 1, nx * ny + 1, nx + ny, nx, (nx - 1) * (ny - 1), nx * ny + ny]))
    area = sorted([rng.uniform(-20, 20), rng.uniform(-20, 20)]) + sorted([rng.uniform(-20, 20), rng.uniform(-20, 20)])
    if rng.random() < 0.15:
        area[0], area[1] = area[1], area[0]            # inverted interval: still the documented formula
    c = caseio.Case(k, "grid", {"nx": nx, "ny": ny, "np": np_, "ok": int(np_ == nx * ny)})
    c.mat("area", [area]).int("nx", nx).int("ny", ny).int("np", np_).int("ctor4", int(rng.random() < 0.3))
    c.mat_shape("st0", 4, np_, gen.matrix(rng, 4, np_, 9.0)).mat_shape("w0", np_, 1, gen.matrix(rng, np_, 1))
    return c


ZERO_LENGTH_SIG = "C16:trajectory-zero-length:ctor-writes-outside-target"
CORPUS_DIR = os.path.join(os.path.dirname(os.path.abspath(__file__)), "C16_corpus")


def corpus_cases():
    """hand-picked boundary cases and past failures (props/C16_corpus/*.case), run first on every run"""
    out = []
    if os.path.isdir(CORPUS_DIR):
        for fn in sorted(os.listdir(CORPUS_DIR)):
            if fn.endswith(".case"):
                for c in caseio.read_cases(os.path.join(CORPUS_DIR, fn)):
                    c.id = "corpus-%s-%s" % (fn[:-5], c.id)
                    out.append(c)
    return out


def zero_length_case(rng, cid, sensor):
    """simulation_time = 0: the constructor must throw (commit 56b3d39); before it, it wrote column 0 of an empty matrix"""
    c = gen_sim(rng, cid, sensor)
    c.ops = [("int", "len", 0) if n == "len" else (t, n, v) for t, n, v in c.ops]
    c.meta["len"] = 0
    return c


def generate(rng, tier):
    makers = {"wna": gen_wna, "lti_state": gen_lti_state, "lti_meas": gen_lti_meas, "linmodel": gen_linmodel,
              "sim": gen_sim, "sensor": lambda r, i: gen_sim(r, i, True), "grid": gen_grid,
              "wna_stat": lambda r, i: gen_wna_stat(r, i, tier), "lin_stat": lambda r, i: gen_lin_stat(r, i, tier)}
    kinds = [kind for kind, n in COUNTS[tier].items() for _ in range(n)]
    rng.shuffle(kinds)           # interleaved, so that any prefix of the list covers every kind
    cases = [makers[kind](rng, k) for k, kind in enumerate(kinds)]
    for sensor in (False, True):                      # the rejected boundary input, always
        for _ in range(2 if tier == "quick" else 30):
            cases.append(zero_length_case(rng, len(cases), sensor))
    return corpus_cases() + cases


# ---------------------------------------------------------------- classification helpers

def lti_state_outcome(fr, fc, qr, qc):
    if fr == 0 or fc == 0: return "FEmpty"
    if qr == 0 or qc == 0: return "QEmpty"
    if fr != fc: return "FNotSquare"
    if qr != qc: return "QNotSquare"
    if fr != qr: return "FQMismatch"
    return "ok"


def lti_meas_outcome(hr, hc, rr, rc):
    if hr == 0 or hc == 0: return "HEmpty"
    if rr == 0 or rc == 0: return "REmpty"
    if rr != rc: return "RNotSquare"
    if hr != rr: return "HRMismatch"
    return "ok"


def linmodel_outcome(c):
    n, idxs = c.get("n"), [int(s) for s in c.get("idxs")]
    o = lti_meas_outcome(len(idxs), n, int(c.meta["rr"]), int(c.meta["rc"]))
    if o != "ok":
        return o, None
    for i, v in enumerate(idxs):
        if v >= n:
            return "Index", (i, v)
    return "ok", None


def expected_outcome(c):
    m = c.meta
    if c.kind == "lti_state":
        return lti_state_outcome(int(m["fr"]), int(m["fc"]), int(m["qr"]), int(m["qc"]))
    if c.kind == "lti_meas":
        return lti_meas_outcome(int(m["hr"]), int(m["hc"]), int(m["rr"]), int(m["rc"]))
    if c.kind == "linmodel":
        return linmodel_outcome(c)[0]
    return None


def nontrivial(c):
    m = c.meta
    if c.kind == "wna":
        return ("wna", m["dim"], m["ops"], gen.decade(float(m["T"])), gen.decade(float(m["q"])))
    if c.kind in ("lti_state", "lti_meas"):
        o = expected_outcome(c)
        return (c.kind, o, tuple(sorted(m.items()))) if o != "ok" else None
    if c.kind == "linmodel":
        o, bad = linmodel_outcome(c)
        idxs = [int(s) for s in c.get("idxs")]
        return ("linmodel", o, m["n"], len(idxs), len(set(idxs)) < len(idxs), bad)
    if c.kind in ("sim", "sensor"):
        ops = c.get("ops")
        return (c.kind, m["dim"], m["len"], "r" in ops, len(ops) > int(m["len"]), m.get("m"))
    if c.kind == "grid":
        return ("grid", m["nx"], m["ny"], m["np"], c.get("ctor4"))
    if c.kind in ("wna_stat", "lin_stat"):
        return (c.kind, m.get("dim"), m.get("m"), c.id)
    return None


# ---------------------------------------------------------------- correspondence

def _log_close(a, b, cond):
    """densities compared on the log scale (they range over hundreds of decades)"""
    a, b = np.asarray(a, float).reshape(-1), np.asarray(b, float).reshape(-1)
    if a.shape != b.shape:
        return "shape %s vs %s" % (a.shape, b.shape)
    for i, (x, y) in enumerate(zip(a, b)):
        if x == y or (math.isnan(x) and math.isnan(y)):
            continue
        if 0 <= x < 1e-290 and 0 <= y < 1e-290:
            continue            # underflow region: Eigen's vectorised exp clamps its argument (5.56e-309), libm goes subnormal / 0
        if x > 0 and y > 0:
            lx, ly = math.log(x), math.log(y)
            if abs(lx - ly) <= 1e-12 + 1e-13 * cond * (1.0 + abs(lx)):      # ~ 500 eps * cond
                continue
        return "entry %d: %r vs %r" % (i, x, y)
    return None


STATS = {"probe_ill_conditioned_skipped": 0, "probes": 0}
PROBE_COND_MAX = 1e6


def probe_ok(c, impl, count=False):
    """The factor is observed as probeS * probeZ^-1; a badly conditioned probeZ is rejected and counted."""
    Z = impl.get("probeZ")
    if Z is None or Z.shape[0] != Z.shape[1] or Z.size == 0:
        return True
    ok = np.linalg.cond(Z) <= PROBE_COND_MAX
    if count:
        STATS["probes"] += 1
        STATS["probe_ill_conditioned_skipped"] += 0 if ok else 1
    return bool(ok)


def compare(c, impl, model):
    if c.kind in ("wna_stat", "lin_stat"):
        return []                       # no model output: these cases serve the property oracle only
    if c.kind in ("wna", "sim", "sensor") and not probe_ok(c, impl, count=True):
        return caseio.compare_fields(impl, model, [n for n in ("F", "Q", "state_size", "ctor") if model.has(n)], atol=0.0, rtol=1e-12)
    skip_prefix = ("spec_", "LLt", "draws_left", "traj_len", "err_pos", "no_factor")
    names = [n for n in model.names() if not n.startswith(skip_prefix) and n != "L" and not (n.startswith("x") and n[1:].isdigit())]
    diffs = []
    if c.kind == "wna":
        script = c.get("script")
        tps = {"r%d" % i for i, s in enumerate(script) if s[0] == "t"}
        plain = [n for n in names if n not in tps]
        closed = [n for n in plain if n in ("F", "Q", "state_size")]
        diffs += caseio.compare_fields(impl, model, closed, atol=0.0, rtol=1e-12)
        diffs += caseio.compare_fields(impl, model, [n for n in plain if n not in closed], atol=1e-12, rtol=1e-9)
        cond = float(c.meta["cond"])
        for n in sorted(tps):
            if not impl.has(n) or not model.has(n):
                diffs.append("%s: missing (impl %s, model %s)" % (n, impl.has(n), model.has(n))); continue
            e = _log_close(impl.get(n), model.get(n), cond)
            if e:
                diffs.append("%s: %s" % (n, e))
        if model.has("no_factor"):
            diffs.append("the factor could not be observed on the implementation (probe shapes)")
        return diffs
    if model.has("no_factor") or model.has("no_state"):
        diffs.append("model could not be run: %s" % [n for n in model.names() if n.startswith("no_")])
    if c.kind == "sensor":
        names = [n for n in names if n not in ("result", "R")]
    rtol = 1e-9 if c.kind in ("sim", "sensor", "linmodel") else 1e-12
    diffs += caseio.compare_fields(impl, model, names, atol=1e-12 if rtol > 1e-10 else 0.0, rtol=rtol)
    return diffs


# ---------------------------------------------------------------- property oracle (on the implementation's output)

def _close(a, b, rtol, atol=0.0):
    a, b = np.asarray(a, float), np.asarray(b, float)
    if a.shape != b.shape:
        return False
    scale = max(1.0, float(np.max(np.abs(b)))) if b.size else 1.0
    return caseio.close(a, b, atol + rtol * scale, 0.0)


def _observed_L(impl, d):
    S, Z = impl.get("probeS"), impl.get("probeZ")
    if S is None or Z is None or S.shape != (d, d) or Z.shape != (d, d):
        return None
    return S @ np.linalg.inv(Z)


SIGMAS = 5.5


def _wna_common(c, impl, v):
    """closed forms at spec level, observed factor, reproducibility from the seed (mirror-free)"""
    dim = c.get("dim"); T, q = c.get("Tq")[0]
    d, dn = 2 * dim, DIMNAME[dim]
    F, Q = F_closed(dim, T), Q_closed(dim, T, q)
    S = impl.get("probeS")
    if S is None or S.shape != (d, d):
        v.append(("C16:noise-sample-rows:Dim=%s" % dn, "getNoiseSample(%d) returned shape %s, state dimension %d" % (d, None if S is None else S.shape, d)))
        return F, Q, None
    if impl.get("reproducible") != 1:
        v.append(("C16:noise-not-reproducible:Dim=%s" % dn, "two instances with the same seed drew different samples"))
    if impl.get("seed_sensitive") != 1:
        v.append(("C16:noise-ignores-seed:Dim=%s" % dn, "instances with different seeds drew the same sample"))
    L = _observed_L(impl, d) if probe_ok(c, impl) else None
    return F, Q, L


def oracle_wna(c, impl, model):
    """Property clauses only.  'sample = L * (mirrored draws)' is a correspondence matter (compare): a change of the
    draw order is not a violation of the property.  The factor observed through the mirror is judged (L L^T = Q)
    only when the mirror is validated by this very case (every sample equals L Z)."""
    v = []
    dim = c.get("dim"); T, q = c.get("Tq")[0]
    d, dn = 2 * dim, DIMNAME[dim]
    F, Q, L = _wna_common(c, impl, v)
    if not _close(impl.get("F"), F, 1e-15):
        v.append(("C16:F-not-closed-form:Dim=%s" % dn, "F differs from blockdiag([1 T; 0 1]) by %.3g" % caseio.maxdiff(impl.get("F"), F)))
    if not _close(impl.get("Q"), Q, 1e-12, 0) or not caseio.close(impl.get("Q"), Q, 0.0, 1e-12):
        v.append(("C16:Q-not-closed-form:Dim=%s" % dn, "Q differs from q blockdiag([T^3/3 T^2/2; T^2/2 T]) by %.3g" % caseio.maxdiff(impl.get("Q"), Q)))
    if impl.get("state_size") != d:
        v.append(("C16:state-size:Dim=%s" % dn, "state description has size %s" % impl.get("state_size")))
    z = list(impl.get("draws").reshape(-1)) if impl.has("draws") else []
    pos = 0
    cond = float(c.meta["cond"])
    mirror_ok, mirror_used = L is not None, False
    for k, op in enumerate(c.get("script")):
        r = impl.get("r%d" % k)
        arg = int(op[1:])
        if op[0] == "n":
            if r is None or r.shape != (d, arg):
                v.append(("C16:noise-sample-rows:Dim=%s" % dn, "getNoiseSample(%d) returned shape %s" % (arg, None if r is None else r.shape)))
                mirror_ok = False
            elif L is not None and arg > 0:
                mirror_used = True
                mirror_ok = mirror_ok and _close(r, L @ colmajor(z[pos:], d, arg), 1e-8)
            pos += d * arg
        elif op[0] == "m":
            X = c.get("X%d" % arg); cols = X.shape[1]
            if impl.get("r%d_input_kept" % k) != 1:
                v.append(("C16:motion-modifies-input", "call %d" % k))
            if r is None or r.shape != X.shape:
                v.append(("C16:motion-shape:Dim=%s" % dn, "call %d returned shape %s" % (k, None if r is None else r.shape)))
                mirror_ok = False
            elif L is not None and cols > 0:
                mirror_used = True
                mirror_ok = mirror_ok and _close(r, F @ X + L @ colmajor(z[pos:], d, cols), 1e-8)
            pos += d * cols
        else:
            P, C = c.get("P%d" % arg), c.get("C%d" % arg)
            if r is None or r.shape != (P.shape[1], 1):
                v.append(("C16:transition-density-shape:Dim=%s" % dn, "call %d returned shape %s for %d pairs" % (k, None if r is None else r.shape, P.shape[1])))
                continue
            want = [log_gauss(C[:, j], F @ P[:, j], Q) for j in range(P.shape[1])]
            for j, lw in enumerate(want):
                got = float(r[j, 0])
                okv = (got > 0 and abs(math.log(got) - lw) <= 1e-9 + 1e-11 * cond * (1.0 + abs(lw))) or (got == 0.0 and lw < -700) or (0 <= got < 1e-290 and lw < -660)
                if not okv:
                    v.append(("C16:transition-density-not-N(cur;F.prev,Q):Dim=%s" % dn,
                              "call %d pair %d: returned %r, N(cur; F prev, Q) = exp(%.17g)" % (k, j, got, lw)))
                    break
            if model is not None and model.has("spec_r%d" % k):
                e = _log_close(r, model.get("spec_r%d" % k), cond * 100)
                if e:
                    v.append(("C16:transition-density-not-N(cur;F.prev,Q):Dim=%s" % dn, "call %d vs the extracted density: %s" % (k, e)))
    if L is not None and mirror_ok and mirror_used and not _close(L @ L.T, Q, 1e-8):
        v.append(("C16:noise-cov-not-Q:Dim=%s" % dn, "every sample is L*Z for the observed factor L, but max|L L^T - Q| = %.3g (max|Q| %.3g)" % (caseio.maxdiff(L @ L.T, Q), np.max(np.abs(Q)))))
    return v


def _moment_check(v, sig, what, got, want, var_diag, N, second=True):
    """entry-wise test of an empirical moment against its expectation, SIGMAS standard deviations"""
    got = np.asarray(got, float)
    if got.shape != want.shape:
        v.append((sig, "%s has shape %s, expected %s" % (what, got.shape, want.shape))); return
    if second:
        sd = np.sqrt((np.outer(var_diag, var_diag) + want ** 2) / N)
    else:
        sd = np.sqrt(var_diag / N).reshape(want.shape)
    bad = np.abs(got - want) > SIGMAS * sd + 1e-12 * np.max(np.abs(want) + 1e-300)
    if np.any(bad):
        i = np.argwhere(bad)[0]
        v.append((sig, "%s entry %s: %.6g, expected %.6g +- %.3g (%d samples, %.1f sigma allowed)" % (what, tuple(i), got[tuple(i)], want[tuple(i)], sd[tuple(i)], N, SIGMAS)))


def oracle_wna_stat(c, impl, model):
    v = []
    dim = c.get("dim"); T, q = c.get("Tq")[0]
    d, dn, N = 2 * dim, DIMNAME[dim], c.get("N")
    F, Q = F_closed(dim, T), Q_closed(dim, T, q)
    if impl.get("noise_rows") != d or impl.get("noise_cols") != N:
        v.append(("C16:noise-sample-rows:Dim=%s" % dn, "getNoiseSample(%d) returned %s x %s" % (N, impl.get("noise_rows"), impl.get("noise_cols"))))
        return v
    dq = np.diag(Q)
    _moment_check(v, "C16:noise-empirical-cov-not-Q:Dim=%s" % dn, "second moment of the noise samples", impl.get("noise_second_moment"), Q, dq, N)
    _moment_check(v, "C16:noise-empirical-mean-not-0:Dim=%s" % dn, "mean of the noise samples", impl.get("noise_mean"), np.zeros((d, 1)), dq, N, second=False)
    x = c.get("x")
    _moment_check(v, "C16:motion-empirical-mean-not-Fx:Dim=%s" % dn, "mean of motion(x)", impl.get("motion_mean"), F @ x, dq, N, second=False)
    _moment_check(v, "C16:motion-empirical-cov-not-Q:Dim=%s" % dn, "covariance of motion(x)", impl.get("motion_cov"), Q, dq, N)
    return v


def oracle_lin_stat(c, impl, model):
    v = []
    R, N, m = c.get("R"), c.get("N"), len(c.get("idxs"))
    if impl.get("noise_rows") != m or impl.get("noise_cols") != N:
        v.append(("C16:sensor-noise-sample-rows:m=%d" % m, "getNoiseSample(%d) returned %s x %s" % (N, impl.get("noise_rows"), impl.get("noise_cols"))))
        return v
    L = impl.get("sqrtR")
    if L is None or L.shape != (m, m) or not _close(L @ L.T, R, 1e-9):
        v.append(("C16:sensor-noise-cov-not-R", "sqrt_R sqrt_R^T differs from R"))
    _moment_check(v, "C16:sensor-noise-empirical-cov-not-R", "second moment of the sensor noise", impl.get("noise_second_moment"), R, np.diag(R), N)
    _moment_check(v, "C16:sensor-noise-empirical-mean-not-0", "mean of the sensor noise", impl.get("noise_mean"), np.zeros((m, 1)), np.diag(R), N, second=False)
    if impl.has("resid_second_moment"):
        Ns = impl.get("resid_count")
        if impl.get("freeze_failures") != 0 or impl.get("freeze_past_end") != 0:
            v.append(("C16:sensor-freeze-forwarding", "%s of %d freezes inside the trajectory failed; the freeze past its end returned %s" % (impl.get("freeze_failures"), Ns, impl.get("freeze_past_end"))))
        _moment_check(v, "C16:sensor-measurement-not-Hx-plus-noise:cov", "second moment of measure() - H x_k", impl.get("resid_second_moment"), R, np.diag(R), Ns)
        _moment_check(v, "C16:sensor-measurement-not-Hx-plus-noise:mean", "mean of measure() - H x_k", impl.get("resid_mean"), np.zeros((m, 1)), np.diag(R), Ns, second=False)
    return v


def oracle_ctor(c, impl, model):
    v = []
    want = expected_outcome(c)
    got = impl.get("result")
    got = got[0] if got else None
    if (got == "ok") != (want == "ok"):
        v.append(("C16:ctor-validation:%s:%s" % (c.kind, want), "constructor outcome %s, the documented checks give %s (shapes %s)" % (got, want, c.meta)))
        return v
    # which of several applicable checks fires first is compared by the correspondence check only
    if want == "ok":
        pairs = [("F", "F"), ("Q", "Q"), ("J", "F")] if c.kind == "lti_state" else [("H", "H"), ("R", "R")]
        for out, inp in pairs:
            a = impl.get(out)
            if a is None or a.shape != c.get(inp).shape or not np.array_equal(a, c.get(inp)):
                v.append(("C16:ctor-exposes-other-matrix:%s:%s" % (c.kind, out), "accessor returns a matrix different from the one passed in"))
        if c.kind == "lti_state" and impl.get("moved_same") != 1:
            v.append(("C16:ctor-exposes-other-matrix:lti_state:move", "moved-to object exposes other matrices"))
        if c.kind == "lti_meas" and impl.get("R_valid") != 1:
            v.append(("C16:ctor-exposes-other-matrix:lti_meas:R_valid", "getNoiseCovarianceMatrix reports invalid"))
    return v


def _selector(n, idxs):
    H = np.zeros((len(idxs), n))
    for i, j in enumerate(idxs):
        H[i, j] = 1.0
    return H


def oracle_linmodel(c, impl, model):
    v = []
    want, bad = linmodel_outcome(c)
    got = impl.get("result"); got = got[0] if got else None
    n, idxs = c.get("n"), [int(s) for s in c.get("idxs")]
    if (got == "ok") != (want == "ok"):
        v.append(("C16:selector-validation:%s" % want, "LinearModel({%d, %s}, R %sx%s): outcome %s, documented %s" % (n, idxs, c.meta["rr"], c.meta["rc"], got, want)))
        return v
    if want == "Index" and got == "Index":
        if impl.get("err_value") != bad[1] or impl.get("err_bound") != n:
            v.append(("C16:selector-validation:Index-report", "reported index %s bound %s, first out-of-range index is %s (position %d), bound %d" % (impl.get("err_value"), impl.get("err_bound"), bad[1], bad[0], n)))
    if want != "ok":
        return v
    m = len(idxs)
    H = impl.get("H")
    if H is None or H.shape != (m, n) or not np.array_equal(H, _selector(n, idxs)):
        v.append(("C16:selector-matrix", "H is not the 0/1 selector of components %s out of %d" % (idxs, n)))
    R = c.get("R")
    if not np.array_equal(impl.get("R"), R):
        v.append(("C16:ctor-exposes-other-matrix:linmodel:R", "getNoiseCovarianceMatrix differs from the matrix passed in"))
    L = impl.get("sqrtR")
    if L is None or L.shape != (m, m) or not _close(L @ L.T, R, 1e-9):
        v.append(("C16:sensor-noise-cov-not-R", "sqrt_R sqrt_R^T differs from R by %.3g" % (caseio.maxdiff(L @ L.T, R) if L is not None and L.shape == (m, m) else float("nan"))))
        return v
    if impl.get("reproducible") != 1:
        v.append(("C16:sensor-noise-not-reproducible", "two sensors with the same seed drew different samples"))
    if impl.get("seed_sensitive") != 1:
        v.append(("C16:sensor-noise-ignores-seed", "sensors with different seeds drew the same sample"))
    for k, s_ in enumerate(c.get("nums")):
        num = int(s_); r = impl.get("r%d" % k)
        if r is None or r.shape != (m, num):
            v.append(("C16:sensor-noise-sample-rows:m=%d" % m, "getNoiseSample(%d) returned shape %s for measurement size %d" % (num, None if r is None else r.shape, m)))
    # 'sample = sqrt_R * (mirrored draws)' is compared against the model (correspondence), not judged here
    return v


def oracle_sim(c, impl, model):
    v = []
    dn = DIMNAME[c.get("dim")]
    ctor = impl.get("ctor"); ctor = ctor[0] if ctor else None
    if c.get("len") == 0:
        if ctor != "throws_empty":
            v.append((ZERO_LENGTH_SIG, "simulation_time = 0: constructor outcome %s, it must throw ERROR::SIMULATEDSTATEMODEL::CTOR" % ctor))
        return v
    if ctor != "ok":
        v.append(("C16:trajectory-ctor-rejects-valid-length", "simulation_time = %d: constructor outcome %s" % (c.get("len"), ctor)))
        return v
    _wna_common(c, impl, v)
    n = c.get("len")
    x0 = c.get("x0").reshape(-1)
    seen = {}            # trajectory as served by the implementation itself: index -> state
    # x_{k+1} = F x_k + L z_k against the mirrored draws is compared with the model (correspondence); here:
    # x_0 is the given state, the states are served in order, identically after every reset, the end is reported
    if c.kind == "sim":
        if impl.get("data_init_empty") != 1:
            v.append(("C16:trajectory-data-before-first-call", "getData() holds a value before the first bufferData()"))
        cur, last = 0, None
        for k, op in enumerate(c.get("ops")):
            ret = impl.get("ret%d" % k)
            got = impl.get("data%d" % k)
            if op == "b":
                want = 1 if cur < n else 0
                if ret != want:
                    v.append(("C16:trajectory-end-not-reported" if want == 0 else "C16:trajectory-serving-refused",
                              "call %d (bufferData, %d served since reset, length %d) returned %s" % (k, cur, n, ret)))
                    return v
                if want:
                    if got is None or got.shape != (len(x0), 1):
                        v.append(("C16:trajectory-not-served-in-order:Dim=%s" % dn, "after call %d getData() has shape %s" % (k, None if got is None else got.shape))); return v
                    if cur == 0 and not np.array_equal(got.reshape(-1), x0):
                        v.append(("C16:trajectory-not-served-in-order:Dim=%s" % dn, "the first state served after call %d is not the initial state" % k)); return v
                    if cur in seen and not np.array_equal(got, seen[cur]):
                        v.append(("C16:trajectory-not-served-in-order:Dim=%s" % dn, "call %d serves index %d with a state different from the one served for it before the reset" % (k, cur))); return v
                    seen.setdefault(cur, got)
                    last = got; cur += 1
            elif op == "r":
                if ret != 1:
                    v.append(("C16:trajectory-reset-refused", "setProperty(reset) returned %s" % ret))
                cur = 0
            elif ret != 0:
                v.append(("C16:trajectory-unknown-property-accepted", "setProperty(other) returned %s" % ret))
            if last is not None:
                if got is None or not np.array_equal(got, last):
                    v.append(("C16:trajectory-not-served-in-order:Dim=%s" % dn, "after call %d (%s) getData() is not the state served last" % (k, op)))
                    return v
            elif impl.get("data%d_empty" % k) != 1:
                v.append(("C16:trajectory-data-before-first-call", "getData() holds a value before the first successful bufferData()"))
        return v
    # sensor
    idxs = [int(s) for s in c.get("idxs")]
    m, d = len(idxs), 2 * c.get("dim")
    H = impl.get("H")
    if H is None or not np.array_equal(H, _selector(d, idxs)):
        v.append(("C16:selector-matrix", "sensor H is not the 0/1 selector of %s" % idxs)); return v
    LR = impl.get("sqrtR"); R = c.get("R")
    if LR is None or LR.shape != (m, m) or not _close(LR @ LR.T, R, 1e-9):
        v.append(("C16:sensor-noise-cov-not-R", "sqrt_R sqrt_R^T != R")); return v
    desc = (impl.get("meas_size"), impl.get("meas_lin"), impl.get("meas_circ"), impl.get("input_size"), impl.get("input_noise"))
    if desc != (m, m, 0, d + m, m):
        v.append(("C16:sensor-descriptions", "measurement (size, linear, circular) and input (size, noise) descriptions %s, documented %s for %d measured components of a %d-state linear model" % (desc, (m, m, 0, d + m, m), m, d)))
    cur, last = 0, None
    for k, op in enumerate(c.get("ops")):
        ret = impl.get("ret%d" % k)
        got = impl.get("meas%d" % k)
        if op == "f":
            want = 1 if cur < n else 0
            if ret != want:
                v.append(("C16:sensor-freeze-forwarding", "call %d (freeze, %d served since reset, length %d) returned %s" % (k, cur, n, ret)))
                return v
            if want:
                if got is None or got.shape != (m, 1) or not np.all(np.isfinite(got)):
                    v.append(("C16:sensor-measurement-shape:m=%d" % m, "after call %d measure() has shape %s" % (k, None if got is None else got.shape))); return v
                last = got; cur += 1
        elif op == "r":
            cur = 0
        if last is None:
            if got is not None and got.size:
                v.append(("C16:sensor-measurement-before-freeze", "measure() holds a value before the first successful freeze"))
        elif got is None or not np.array_equal(got, last):
            v.append(("C16:sensor-measurement-not-kept", "after call %d (%s) measure() differs from the measurement of the last successful freeze" % (k, op)))
            return v
        if impl.get("meas%d_valid" % k) != 1:
            v.append(("C16:sensor-measure-invalid", "measure() reported invalid"))
    # measurement = H x_k + sqrt_R * (mirrored draws) is compared with the model; its distribution in lin_stat cases
    return v


def oracle_grid(c, impl, model):
    v = []
    nx, ny, np_ = c.get("nx"), c.get("ny"), c.get("np")
    a = c.get("area")[0]
    xi, xs, yi, ys = (0.0, a[1], 0.0, a[3]) if c.get("ctor4") else a
    ok = np_ == nx * ny
    if impl.get("ret") != int(ok):
        v.append(("C16:grid-refusal", "%d particles for a %d x %d grid: initialize returned %s" % (np_, nx, ny, impl.get("ret"))))
        return v
    st, w = impl.get("state"), impl.get("weight")
    if not ok:
        if not np.array_equal(st, c.get("st0")) or not np.array_equal(w, c.get("w0")):
            v.append(("C16:grid-refusal-modifies", "a refused initialisation changed the particle set"))
        return v
    if min(nx, ny) < 2:
        # outside the property's domain: the code divides 0 by 0; only the correspondence check speaks about it
        if w is None or w.shape != (np_, 1) or not _close(w, np.full((np_, 1), -math.log(np_)), 1e-14):
            v.append(("C16:grid-weights", "weights are not -ln(%d)" % np_))
        return v
    want = np.zeros((4, np_))
    for i in range(nx):
        for j in range(ny):
            want[:, i * ny + j] = [xi + i * (xs - xi) / (nx - 1), 0.0, yi + j * (ys - yi) / (ny - 1), 0.0]
    if st is None or st.shape != want.shape or not _close(st, want, 1e-13):
        v.append(("C16:grid-positions", "particles are not on the %d x %d regular grid spanning [%g,%g] x [%g,%g] (max diff %.3g)" % (nx, ny, xi, xs, yi, ys, caseio.maxdiff(st, want))))
    if w is None or w.shape != (np_, 1) or not _close(w, np.full((np_, 1), -math.log(np_)), 1e-14):
        v.append(("C16:grid-weights", "weights are not -ln(%d)" % np_))
    if impl.get("components") != np_:
        v.append(("C16:grid-particle-count", "components = %s" % impl.get("components")))
    return v


def oracle(c, impl, model):
    if c.kind == "wna":
        return oracle_wna(c, impl, model)
    if c.kind == "wna_stat":
        return oracle_wna_stat(c, impl, model)
    if c.kind == "lin_stat":
        return oracle_lin_stat(c, impl, model)
    if c.kind in ("lti_state", "lti_meas"):
        return oracle_ctor(c, impl, model)
    if c.kind == "linmodel":
        return oracle_linmodel(c, impl, model)
    if c.kind in ("sim", "sensor"):
        return oracle_sim(c, impl, model)
    if c.kind == "grid":
        return oracle_grid(c, impl, model)
    return []


def on_crash(c, info, model):
    """An Eigen assertion (size mismatch / index out of range) inside a library call."""
    import re
    if info.get("kind") not in ("eigen-assert", "asan", "ubsan"):
        return None
    m = re.search(r"entry=(\S+)", info.get("stderr", ""))
    entry = m.group(1) if m else "unknown"
    dn = DIMNAME.get(c.get("dim")) if c.has("dim") else None
    detail = "%s inside %s: %s" % (info["kind"], entry, info.get("stderr", "")[-300:].replace("\n", " "))
    se = info.get("stderr", "")
    product = "Product.h" in se or "invalid matrix product" in se or "CwiseBinaryOp.h" in se
    block = "Block.h" in se or "DenseCoeffsBase.h" in se or "MapBase.h" in se
    if entry == "SimulatedStateModel::SimulatedStateModel" and c.has("len") and c.get("len") == 0:
        return [(ZERO_LENGTH_SIG, "simulation_time = 0: " + detail)]
    if entry in ("WhiteNoiseAcceleration::getNoiseSample", "WhiteNoiseAcceleration::motion", "SimulatedStateModel::SimulatedStateModel"):
        return [("C16:noise-sample-rows:Dim=%s" % dn, detail)]
    if entry == "LinearModel::getNoiseSample" or (entry == "SimulatedLinearSensor::freeze" and product):
        return [("C16:sensor-noise-sample-rows:m=%s" % c.meta.get("m"), detail)]
    if entry in ("SimulatedStateModel::bufferData", "SimulatedLinearSensor::freeze") and (block or info.get("kind") == "asan"):
        return [("C16:trajectory-read-past-end", detail)]
    if entry in ("LinearModel::LinearModel", "SimulatedLinearSensor::SimulatedLinearSensor") and block:
        return [("C16:selector-validation:Index-accepted", detail)]
    if entry == "WhiteNoiseAcceleration::getTransitionProbability":
        return [("C16:transition-density-shape:Dim=%s" % dn, detail)]
    return None


def histogram(cases):
    h = {}
    for c in cases:
        if c.kind == "wna":
            key = "wna Dim=%s" % c.meta["dim"]
        elif c.kind in ("lti_state", "lti_meas", "linmodel"):
            key = "%s %s" % (c.kind, expected_outcome(c))
        elif c.kind in ("sim", "sensor"):
            key = "%s len<=%d" % (c.kind, 10 * ((int(c.meta["len"]) + 9) // 10))
        elif c.kind == "grid":
            key = "grid ok=%s" % c.meta["ok"] + (" degenerate" if min(int(c.meta["nx"]), int(c.meta["ny"])) < 2 else "")
        else:
            key = c.kind
        h[key] = h.get(key, 0) + 1
    h.update(STATS)          # factor probes run / rejected for an ill-conditioned probe matrix (cond > 1e6)
    return h


LEVEL_TEXT = ("Proof: the models of WhiteNoiseAcceleration (F, Q, LDLT-based sampling, motion, transition density), of the LTI / LinearModel "
              "constructors, of SimulatedStateModel / SimulatedLinearSensor and of InitSurveillanceAreaGrid are proved, for every real field and "
              "all sizes, call sequences and trajectory lengths, to have the documented closed forms (block-diagonal F and Q, Q SPD, samples L Z of "
              "the state dimension with L Z Z^T L^T = Q, N(cur; F prev, Q), exact constructor rejection classes, 0/1 selector, H x_k + L_R z, "
              "in-order serving with the end reported, regular grid with uniform weights). The models are tied to the code by running the "
              "extracted model and the library on the same generated cases.")
LEVEL_NOTE = ("Trusted: Coq kernel, MathComp, extraction + float driver, list instance of the matrix interface, harness (RNG mirror, factor "
              "observation) and tolerances; rounding is not modelled; the tie to the code is sampled. Distributional claims reduce to the "
              "algebraic identity plus the stated RNG assumption.")
