"""C16 — shipped models and initialisers match their documented closed form (DESIGN.md §5 C16)."""
import math, os
import numpy as np
from vlib import caseio, gen

ID = "C16"
COQ_TARGETS = ["C16_Extract.vo", "C16_ProofsSM.vo", "C16_Proofs.vo", "C16_Regress.vo", "C16_Transport.vo"]
COQ_PREFIXES = ["C16", "C01", "C02"]      # C16_Transport imports UT_Transport (shared), C01_Transport (density), C02_Transport (repr)
EXTRACTED = "C16_model"
DRIVER = "drv_C16.ml"
HARNESS = "h_C16.cpp"
# Eigen assertions on: a size mismatch is reported (exit 42 + entry point), not undefined behaviour
VARIANTS = {"quick": ["assert"], "thorough": ["assert", "asan"]}
MODEL_NEEDS_IMPL = True      # the mirrored standard-normal draws and the observed LDLT factors are inputs of the model
AXIOMS_ALLOWED = []          # MathComp / lists only: closed under the global context
REQUIRED_THEOREMS = ["C16_state_dimension", "C16_F_closed_form", "C16_Q_closed_form", "C16_Q_block_minors", "C16_Q_spd", "C16_Q_invertible",
                     "C16_noise_dim", "C16_noise_cov", "C16_motion", "C16_transition_density", "C16_trajectory_wna",
                     "C16_lti_state_ctor_validation", "C16_lti_meas_ctor_validation", "C16_selector_ctor_validation",
                     "C16_selector_matrix", "C16_selector_rejects_out_of_range", "C16_sensor_freeze", "C16_sensor_serving",
                     "C16_sensor_draws", "C16_trajectory", "C16_trajectory_recurrence", "C16_serving_state", "C16_serving",
                     "C16_reset_restarts", "C16_call_output", "C16_zero_length_has_no_state",
                     "C16_grid_refusal", "C16_grid_positions", "C16_grid_spans", "C16_grid_weights", "C16_grid_overwrites",
                     "C16_sensor_noise_cov", "C16_sensor_descriptions", "C16_factor_exists",
                     "C16_grid_rows_refusal", "C16_grid_rows_four",
                     "C16_executed_F_is_theorem_model", "C16_executed_Q_is_theorem_model", "C16_executed_sqrtQ_is_theorem_model",
                     "C16_executed_noise_sample_is_theorem_model", "C16_executed_motion_is_theorem_model",
                     "C16_executed_transition_density_is_theorem_model", "C16_executed_spec_density_is_theorem_model",
                     "C16_executed_factor_contract_is_theorem_model", "C16_executed_lti_state_ctor_is_theorem_model",
                     "C16_executed_lti_meas_ctor_is_theorem_model", "C16_executed_selector_is_theorem_model",
                     "C16_executed_sensor_noise_is_theorem_model", "C16_executed_trajectory_is_theorem_model",
                     "C16_executed_trajectory_columns_is_theorem_model", "C16_executed_serving_is_theorem_model",
                     "C16_executed_sensor_output_is_theorem_model", "C16_executed_sensor_descriptions_is_theorem_model",
                     "C16_executed_grid_is_theorem_model"]
RULE = ("corpus props/C16_corpus/*.case first, then cases drawn from one seeded stream; kinds: wna (Dim in {1,2,3}; T and q log-uniform over 1e-6 .. 1e6 (three quarters of the cases) or "
        "T in [0.001,10], q in [0.01,100]; states in the model's own units: position sigma sqrt(q T^3/3), velocity sigma sqrt(q T), times 10^[0,4]; seed or the default-seed "
        "constructor; a script of 3-8 operations on ONE object among getNoiseSample(0..5), motion (0..4 columns; plain or through strided blocks of larger matrices), "
        "getTransitionProbability (0..6 pairs; plain or strided), setSamplingTime(other T), and replacement of the subject by the object obtained from it by move construction / "
        "move assignment onto a used model of other Dim, T, q / growth of a std::vector, each followed by the getters; optionally an independent twin model run inside every virtual "
        "callback and between the calls (intrude), and three models used from three threads (conc)); wna_stat / lin_stat (empirical moments of 1e4 .. 2e4 samples, motions and sensor "
        "residuals, same magnitudes, coordinate-wise units for R); lti_state / lti_meas (all shape classes: 0 x k, k x 0, non-square, mismatched, valid; valid LTIStateModel objects "
        "obtained fresh / by move construction / move assignment onto a model of another size / self-move-assignment / vector growth / a chain of these, then setSamplingTime); "
        "linmodel (state size 0..6, 0..6 indices incl. out-of-range and repeated, R valid (coordinate-wise units over 12 orders) / empty / non-square / mismatched; optionally a twin "
        "model drawing between the calls); sim (trajectory length 1..50, state model optionally used and then move-constructed, random and structured call histories: partial pass, "
        "reset, full pass, calls past the end, reset again, resets in a row, unknown properties; optionally a twin trajectory / sensor used inside the callbacks); sensor (same over a "
        "component-selecting sensor); grid (2..6 x 2..6 and a few degenerate 1 x k, right and wrong particle counts, both constructors, areas from 1e-6 to 1e6 wide with offsets up to "
        "1e6 widths); gridseq (two initialisers alive at once, one of them a copy, applied 3-8 times in any order to a pool of particle sets of several sizes, 2..6 state rows and "
        "linear / circular / quaternion / noise-row layouts, refilled or left as the previous call left them). "
        "non-trivial = every case except a valid-shape constructor call on a fresh object; distinct by (kind, Dim or shape class or outcome, size bucket, magnitudes, operations)")
TRUSTED_BASE = ["Coq 8.16.1 kernel (coqc); no axioms (Print Assumptions: closed under the global context)",
                "MathComp 1.15 matrix theory",
                "extraction (ExtrOcamlBasic only) and ocaml/float_ops.ml, ocaml/drv_C16.ml, ocaml/caseio.ml",
                "the list instance of the matrix interface is NOT trusted for the functions that are run: C16_Transport.v (theorems C16_executed_*) proves that every extracted entry point, "
                "over the scalars of any real field and for any list-level square-root oracle corresponding on the matrix factored, represents the MathComp model of the theorems "
                "(Gauss-Jordan inverse/determinant via ListGauss.v, Q proved invertible); what remains between executed model and theorem model is IEEE rounding",
                "cpp/h_C16.cpp harness incl. its mirror of std::mt19937_64(seed) + std::normal_distribution<double>(0,1) and the "
                "observation of the private factor sqrt_Q_ as getNoiseSample(d) * Z^-1 on the instance under test (first call; probes with cond(Z) > 1e6 are rejected and counted)",
                "comparison tolerances, all relative to the case and component-wise (units): closed forms 16 eps per entry; samples / motions / trajectories / measurements the forward-error "
                "bound of the products, c eps (|F||x| + |L_i||z|) with the probe's conditioning, accumulated along a trajectory; densities on the log scale "
                "c eps (cond of the equilibrated Q) (d + Mahalanobis) plus the cancellation in cur - F prev measured in sigmas (pairs whose bound exceeds 0.05 are excluded and counted); "
                "grid 8 eps (|inf| + |sup|); empirical moments %.1f sigma" % 5.5,
                "correspondence is sampled: agreement is established on the generated cases only",
                "IEEE rounding is not modelled (theorems over an exact real field); std::pow(T,3.0), std::pow(T,2.0) are transcribed as T*T*T, T*T"]
ASSUMPTIONS = ["RNG: the draws of std::normal_distribution<double>(0,1) over std::mt19937_64(seed) are independent standard normal, "
               "E[Z Z^T] = I; the theorem C16_noise_cov is the algebraic identity L (Z Z^T) L^T = Q under Z Z^T = I, L L^T = Q",
               "LDLT factor contract, local form: sqrt_Q_ sqrt_Q_^T = Q_ and sqrt_R_ sqrt_R_^T = R_ for the matrices at hand (premise of "
               "C16_noise_cov / C16_sensor_noise_cov; Q proved SPD for T, q > 0; a factor proved to exist in every real closed field; "
               "checked at run time on every case on the factor observed on the implementation, entry (i,j) relative to sqrt(Q_ii Q_jj))",
               "Eigen inverse()/determinant() behave as matrix inverse/determinant up to rounding (Gaussian density)",
               "WhiteNoiseAcceleration is used without an exogenous model and not skipping (the skip branches of LinearStateModel::propagate are C13's)",
               "setSamplingTime is the base-class no-op for every shipped model: the sampling interval of the closed forms is the constructor's",
               "distinct objects may be used from distinct threads; one object is used from one thread"]

COUNTS = {"quick": {"wna": 900, "lti_state": 200, "lti_meas": 100, "linmodel": 200, "sim": 250, "sensor": 250, "grid": 200, "gridseq": 200, "ltisim": 250, "wna_stat": 20, "lin_stat": 12},
          "thorough": {"wna": 4000, "lti_state": 1800, "lti_meas": 1200, "linmodel": 2200, "sim": 1400, "sensor": 1400, "grid": 1200, "gridseq": 900, "ltisim": 1400, "wna_stat": 120, "lin_stat": 70}}
EPS = 2.220446049250313e-16
DIMNAME = {1: "OneD", 2: "TwoD", 3: "ThreeD"}


# ---------------------------------------------------------------- closed forms (spec level, numpy)

def _geti(c, name, default=0):
    return c.get(name) if c.has(name) else default


def F_closed(dim, T):
    return np.kron(np.eye(dim), np.array([[1.0, T], [0.0, 1.0]]))


def Q_closed(dim, T, q):
    return q * np.kron(np.eye(dim), np.array([[T ** 3 / 3.0, T ** 2 / 2.0], [T ** 2 / 2.0, T]]))


def colmajor(z, rows, cols):
    return np.array(z[:rows * cols], dtype=float).reshape(cols, rows).T


def log_gauss(x, mean, S):
    d = len(x)
    delta = x - mean
    sign, ld = np.linalg.slogdet(S)
    return -0.5 * (d * math.log(2 * math.pi) + ld + float(delta @ np.linalg.solve(S, delta)))


# ---------------------------------------------------------------- generators

def _mag(rng, lo, hi):
    return float("%.6g" % (10 ** rng.uniform(lo, hi)))


def _wna_params(rng):
    """T and q over twelve orders of magnitude for every Dim (three quarters of the cases), else the moderate range"""
    dim = rng.choice([1, 2, 3])
    if rng.random() < 0.75:
        T, q = _mag(rng, -6.0, 6.0), _mag(rng, -6.0, 6.0)
        if rng.random() < 0.15:
            T = rng.choice([1e-6, 1e6, 1.0, 1.5, 2.0 ** -10, 2.0 ** 12])      # ends of the range, the pivoting threshold T = 1.5, powers of two
        if rng.random() < 0.1:
            q = rng.choice([1e-6, 1e6, 1.0])
    else:
        T, q = _mag(rng, -3.0, 1.0), _mag(rng, -2.0, 2.0)
    return dim, T, q, rng.getrandbits(31)


def sigmas(dim, T, q):
    """the model's own units: standard deviations of the position / velocity noise"""
    return np.array([math.sqrt(q * T ** 3 / 3.0), math.sqrt(q * T)] * dim)


def chol_Q(dim, T, q):
    """lower Cholesky factor of Q, computed on the equilibrated 2x2 block (exact scaling by the units)"""
    L0 = np.linalg.cholesky(np.array([[1.0, math.sqrt(3.0) / 2.0], [math.sqrt(3.0) / 2.0, 1.0]]))
    return np.kron(np.eye(dim), np.diag(sigmas(1, T, q)) @ L0)


def _states(rng, dim, T, q, cols, hi=4.0):
    """state columns in the model's units times 10^[0, hi], per case or per coordinate"""
    sig = sigmas(dim, T, q)
    d = 2 * dim
    u = rng.random()
    if u < 0.1:
        return np.zeros((d, cols))
    if u < 0.6:
        scale = np.full(d, 10 ** rng.uniform(0.0, hi))
    else:
        scale = np.array([10 ** rng.uniform(0.0, hi) for _ in range(d)])
    return (sig * scale)[:, None] * gen.matrix(rng, d, cols)


def gen_wna(rng, k):
    dim, T, q, seed = _wna_params(rng)
    d = 2 * dim
    F, Q = F_closed(dim, T), Q_closed(dim, T, q)
    c = caseio.Case(k, "wna", {"dim": dim, "T": T, "q": q})
    defseed = int(rng.random() < 0.12)         # the constructor without a seed argument (documented default: 1)
    c.int("dim", dim).mat("Tq", [[T, q]]).int("seed", 1 if defseed else seed).int("defseed", defseed)
    c.meta["defseed"] = defseed
    intrude, conc = int(rng.random() < 0.35), int(rng.random() < 0.12)
    dim2 = rng.choice([1, 2, 3])
    c.int("intrude", intrude).int("conc", conc)
    c.mat("Tq2", [[_mag(rng, -6.0, 6.0), _mag(rng, -6.0, 6.0)]]).int("seed2", rng.getrandbits(31)).int("pre2", rng.choice([0, 1, 3])).int("dim2", dim2)
    script, mats = [], []
    nops = rng.randint(3, 8)
    moves = rng.random() < 0.45
    Lc = chol_Q(dim, T, q)
    for i in range(nops):
        op = rng.choice("nnmbttus") if not (moves and (i == 0 and rng.random() < 0.5 or rng.random() < 0.2)) else rng.choice("ccaav")
        if op == "n":
            script.append("n%d" % rng.choice([0, 1, 1, 2, 3, 4, 5]))
        elif op in "mb":
            cols = rng.choice([0, 1, 1, 2, 3, 4])
            script.append("%s%d" % (op, i)); mats.append(("X%d" % i, _states(rng, dim, T, q, cols)))
        elif op in "tu":
            cols = rng.choice([0, 1, 2, 3, 4, 5, 6])
            prev = _states(rng, dim, T, q, cols, hi=rng.choice([2.0, 4.0, 6.0]))
            spread = rng.choice([0.0, 0.5, 1.0, 2.0, 6.0, 25.0])
            cur = F @ prev + spread * (Lc @ gen.matrix(rng, d, cols))
            if rng.random() < 0.12:
                cur = _states(rng, dim, T, q, cols)          # unrelated pair: tiny or vanishing density
            script.append("%s%d" % (op, i)); mats.append(("P%d" % i, prev)); mats.append(("C%d" % i, cur))
        elif op == "s":
            script.append("s%d" % i); mats.append(("S%d" % i, np.array([[_mag(rng, -6.0, 6.0)]])))
        else:
            script.append("%s%d" % (op, i))
    c.word("script", script)
    for name, a in mats:
        c.mat_shape(name, a.shape[0], a.shape[1], a)
    c.meta["ops"] = "".join(s[0] for s in script)
    c.meta["intrude"], c.meta["conc"] = intrude, conc
    return c


def _dims(rng):
    """four dimensions around a base size, each perturbed with probability 1/4 (0 included)"""
    n = rng.randint(1, 5)
    return [n if rng.random() < 0.75 else rng.randint(0, 5) for _ in range(4)]


def _other(rng, n, lo=1, hi=6):
    return rng.choice([k for k in range(lo, hi + 1) if k != n])


def _shape_class(rng, square_first):
    """(r1, c1, r2, c2) aimed at one branch of the constructor's if / else-if chain; the first matrix is
    square in the valid class iff square_first"""
    n = rng.randint(1, 5)
    c1 = n if square_first else rng.randint(1, 6)
    cls = rng.choice(["valid", "valid", "first_empty", "second_empty", "first_nonsquare", "second_nonsquare",
                      "second_smaller", "second_larger", "random", "random"])
    if cls == "valid":
        return n, c1, n, n
    if cls == "first_empty":
        r, c = rng.choice([(0, c1), (n, 0), (0, 0)])
        return (r, c) + tuple(rng.choice([(n, n), (0, n), (n, n + 1), (n + 1, n + 1)]))
    if cls == "second_empty":
        r, c = rng.choice([(0, n), (n, 0), (0, 0)])
        return (n, c1 if rng.random() < 0.7 else _other(rng, n)) + (r, c)
    if cls == "first_nonsquare":
        return (n, _other(rng, n)) + tuple(rng.choice([(n, n), (n, n + 1), (n + 1, n + 1)]))
    if cls == "second_nonsquare":
        return (n, c1) + tuple(rng.choice([(n, _other(rng, n)), (_other(rng, n), n)]))
    if cls == "second_smaller":
        k = rng.randint(1, n - 1) if n > 1 else 2
        return n, c1, k, k
    if cls == "second_larger":
        k = n + rng.randint(1, 2)
        return n, c1, k, k
    return tuple(_dims(rng))


def gen_lti_state(rng, k):
    fr, fc, qr, qc = _shape_class(rng, True)
    how = rng.choice(["fresh", "move_ctor", "move_assign", "move_assign", "self_assign", "vector", "chain"])
    c = caseio.Case(k, "lti_state", {"fr": fr, "fc": fc, "qr": qr, "qc": qc, "how": how})
    unit = 10 ** rng.uniform(-6, 6) if rng.random() < 0.5 else 1.0
    c.mat_shape("F", fr, fc, gen.matrix(rng, fr, fc)).mat_shape("Q", qr, qc, unit * gen.matrix(rng, qr, qc))
    n2 = rng.choice([x for x in range(1, 7) if x != fr] + ([fr] if fr >= 1 else []))      # the other object: mostly another size
    c.word("how", [how]).mat_shape("F2", n2, n2, gen.matrix(rng, n2, n2)).mat_shape("Q2", n2, n2, gen.matrix(rng, n2, n2))
    return c


def gen_lti_meas(rng, k):
    hr, hc, rr, rc = _shape_class(rng, False)
    c = caseio.Case(k, "lti_meas", {"hr": hr, "hc": hc, "rr": rr, "rc": rc})
    c.mat_shape("H", hr, hc, gen.matrix(rng, hr, hc)).mat_shape("R", rr, rc, gen.matrix(rng, rr, rc))
    return c


def _indices(rng, n, valid):
    m = rng.randint(1, 6) if valid else rng.randint(0, 6)
    if valid:
        return [rng.randrange(n) for _ in range(m)]
    kind = rng.choice(["in", "in", "oob", "oob_first", "edge"])
    idxs = [rng.randrange(n) if n > 0 else 0 for _ in range(m)]
    if m and kind == "oob":
        for _ in range(rng.randint(1, 2)):
            idxs[rng.randrange(m)] = n + rng.randint(0, 3)
    elif m and kind == "oob_first":
        idxs[0] = n + rng.randint(0, 2)
    elif m and kind == "edge":
        idxs[-1] = n                    # exactly the bound
    return idxs


def _units(rng, m):
    """coordinate-wise units over twelve orders (half of the cases), one common unit, or none"""
    u = rng.random()
    if u < 0.5:
        return np.array([10 ** rng.uniform(-6, 6) for _ in range(m)])
    if u < 0.75:
        return np.full(m, 10 ** rng.uniform(-6, 6))
    return np.ones(m)


def _spd_units(rng, m):
    R0, _ = gen.spd(rng, m, 10 ** rng.uniform(0, 3))
    D = _units(rng, m)
    R = R0 * np.outer(D, D)
    return (R + R.T) / 2


def _noise_cov(rng, m, valid):
    if valid or rng.random() < 0.65:
        if m == 0:
            return np.zeros((0, 0)), 0, 0
        return _spd_units(rng, m), m, m
    cls = rng.choice(["smaller", "larger", "nonsquare", "empty", "random"])
    if cls == "smaller" and m > 1:
        rr = rc = rng.randint(1, m - 1)
    elif cls == "larger" or cls == "smaller":
        rr = rc = m + rng.randint(1, 2)
    elif cls == "nonsquare":
        rr, rc = rng.choice([(m, m + 1), (m + 1, m), (max(m, 1), max(m, 1) + 2)])
    elif cls == "empty":
        rr, rc = rng.choice([(0, m), (m, 0), (0, 0)])
    else:
        rr, rc = rng.randint(0, 5), rng.randint(0, 5)
    if rr == rc and rr > 0:
        return _spd_units(rng, rr), rr, rc
    return gen.matrix(rng, rr, rc), rr, rc


def gen_linmodel(rng, k):
    n = rng.randint(0, 6) if rng.random() < 0.15 else rng.randint(1, 6)
    idxs = _indices(rng, n, False)
    R, rr, rc = _noise_cov(rng, len(idxs), False)
    defseed = int(rng.random() < 0.12)
    c = caseio.Case(k, "linmodel", {"n": n, "m": len(idxs), "rr": rr, "rc": rc, "defseed": defseed})
    c.int("n", n).word("idxs", idxs).mat_shape("R", rr, rc, R).int("seed", 1 if defseed else rng.getrandbits(31)).int("defseed", defseed)
    c.word("nums", [rng.choice([0, 1, 2, 3, 4, 5]) for _ in range(rng.randint(1, 4))])
    c.int("interleave", int(rng.random() < 0.4)).int("conc", int(rng.random() < 0.15))
    return c


def _ops(rng, len_, a):
    """a call sequence that runs past the end and restarts"""
    ops = []
    total = rng.randint(1, len_ + 12)
    for _ in range(total):
        u = rng.random()
        ops.append(a if u < 0.82 else ("r" if u < 0.92 else "o"))
    if rng.random() < 0.6:
        ops += [a] * rng.randint(1, len_ + 3)        # certainly past the end
    if rng.random() < 0.5:
        ops += ["r"] + [a] * rng.randint(1, 4)
    return ops


def _history(rng, len_, a):
    """structured histories: partial pass, reset, full pass, calls past the end, reset again, resets in a row, unknown
    properties in the middle, nothing but resets"""
    part = rng.randint(0, max(0, len_ - 1))
    kind = rng.choice(["partial_reset_full", "full_past_reset_past", "reset_first", "resets_in_a_row", "partial_twice", "other_in_the_middle", "exhaust_twice"])
    if kind == "partial_reset_full":
        ops = [a] * part + ["r"] + [a] * len_ + [a, a] + ["r"] + [a] * rng.randint(1, 3)
    elif kind == "full_past_reset_past":
        ops = [a] * (len_ + rng.randint(1, 3)) + ["r"] + [a] * (len_ + 2)
    elif kind == "reset_first":
        ops = ["r"] + [a] * rng.randint(1, len_ + 1) + ["r", "r"] + [a] * rng.randint(1, 2)
    elif kind == "resets_in_a_row":
        ops = [a] * part + ["r", "r", "r"] + [a] * rng.randint(1, len_ + 1)
    elif kind == "partial_twice":
        p2 = rng.randint(0, max(0, len_ - 1))
        ops = [a] * part + ["r"] + [a] * p2 + ["r"] + [a] * (len_ + 1)
    elif kind == "other_in_the_middle":
        ops = [a] * part + ["o"] + [a] * rng.randint(0, 2) + ["o", "r", "o"] + [a] * rng.randint(1, len_ + 1)
    else:
        ops = [a] * (len_ + 1) + ["r"] + [a] * (len_ + 1) + ["r"] + [a]
    return ops[:140], kind


def gen_sim(rng, k, sensor=False):
    dim, T, q, seed = _wna_params(rng)
    d = 2 * dim
    len_ = rng.choice([1, 2, 3, 50]) if rng.random() < 0.3 else rng.randint(1, 50)
    c = caseio.Case(k, "sensor" if sensor else "sim", {"dim": dim, "T": T, "q": q, "len": len_})
    defseed = int(rng.random() < 0.1)
    c.int("dim", dim).mat("Tq", [[T, q]]).int("seed", 1 if defseed else seed).int("defseed", defseed)
    x0 = _states(rng, dim, T, q, 1) if rng.random() < 0.8 else gen.matrix(rng, d, 1, 5.0)
    c.mat_shape("x0", d, 1, x0).int("len", len_)
    premove, intrude = rng.choice([-1, -1, 0, 1, 3]), int(rng.random() < 0.35)
    c.int("premove", premove).int("intrude", intrude).int("conc", int(rng.random() < 0.12))
    c.meta["premove"], c.meta["intrude"] = premove, intrude
    if sensor:
        idxs = _indices(rng, d, True)
        R, rr, rc = _noise_cov(rng, len(idxs), True)
        defseed2 = int(rng.random() < 0.15)
        c.word("idxs", idxs).mat_shape("R", rr, rc, R).int("seed2", 1 if defseed2 else rng.getrandbits(31)).int("defseed2", defseed2)
        c.meta.update({"m": len(idxs), "rr": rr, "rc": rc})
    if rng.random() < 0.5:
        ops, hist = _history(rng, len_, "f" if sensor else "b")
    else:
        ops, hist = _ops(rng, len_, "f" if sensor else "b"), "random"
    c.word("ops", ops)
    c.meta["nops"] = len(ops); c.meta["hist"] = hist
    return c


def gen_wna_stat(rng, k, tier="quick"):
    """empirical moments of many samples: the mirror-free form of 'covariance Q'"""
    dim = rng.choice([1, 2, 3])
    T, q = _mag(rng, -6.0, 6.0), _mag(rng, -6.0, 6.0)
    N = 10000 if tier == "quick" else 20000
    c = caseio.Case(k, "wna_stat", {"dim": dim, "T": T, "q": q, "N": N})
    x = _states(rng, dim, T, q, 1, hi=3.0)
    c.int("dim", dim).mat("Tq", [[T, q]]).int("seed", rng.getrandbits(31)).int("N", N).mat_shape("x", 2 * dim, 1, x)
    return c


def gen_lin_stat(rng, k, tier="quick"):
    n = rng.choice([2, 4, 6])            # also run as a sensor over a WhiteNoiseAcceleration of that size
    idxs = _indices(rng, n, True)
    R, rr, rc = _noise_cov(rng, len(idxs), True)
    N = 10000 if tier == "quick" else 20000
    c = caseio.Case(k, "lin_stat", {"n": n, "m": len(idxs), "rr": rr, "rc": rc, "N": N})
    c.int("n", n).word("idxs", idxs).mat_shape("R", rr, rc, R).int("seed", rng.getrandbits(31)).int("N", N)
    return c


def gen_ltisim(rng, k):
    """SimulatedStateModel (and a linear sensor) over a USER-DEFINED additive linear model: an LTIStateModel with linear and
    circular state components, coordinate-wise units, whose noise samples are given columns (no random numbers)"""
    lin, circ = rng.randint(0, 4), rng.randint(0, 3)
    if lin + circ == 0:
        lin = 1
    n = lin + circ
    D = _units(rng, n)
    F0 = gen.matrix(rng, n, n, rng.choice([0.3, 1.0, 1.0, 3.0])) if rng.random() < 0.8 else np.eye(n)
    F = F0 * np.outer(D, 1.0 / D)
    len_ = rng.randint(1, 12)
    x0 = D[:, None] * gen.matrix(rng, n, 1, 3.0)
    W = D[:, None] * gen.matrix(rng, n, len_ - 1, 10 ** rng.uniform(-3, 1))
    sensor = int(rng.random() < 0.6)
    how = rng.choice(["fresh", "move_ctor", "move_assign"])
    c = caseio.Case(k, "ltisim", {"lin": lin, "circ": circ, "len": len_, "sensor": sensor, "how": how})
    c.int("lin", lin).int("circ", circ).mat_shape("F", n, n, F).mat_shape("Q", n, n, _spd_units(rng, n)).mat_shape("W", n, len_ - 1, W)
    c.mat_shape("x0", n, 1, x0).int("len", len_).word("how", [how]).int("sensor", sensor)
    n2 = rng.randint(1, 5)
    c.mat_shape("F2", n2, n2, gen.matrix(rng, n2, n2)).mat_shape("Q2", n2, n2, gen.matrix(rng, n2, n2))
    idxs = _indices(rng, n, True)
    R, rr, rc = _noise_cov(rng, len(idxs), True)
    c.word("idxs", idxs).mat_shape("R", rr, rc, R).int("seed2", rng.getrandbits(31))
    c.meta.update({"m": len(idxs), "rr": rr, "rc": rc})
    a = "f" if sensor else "b"
    ops, hist = _history(rng, len_, a) if rng.random() < 0.6 else (_ops(rng, len_, a), "random")
    c.word("ops", ops)
    c.meta["hist"] = hist
    return c


def _interval(rng):
    """an interval of width 10^[-6, 6] whose lower end is offset by up to 1e6 widths (half of the cases), or one of order ten"""
    if rng.random() < 0.5:
        return sorted([rng.uniform(-20, 20), rng.uniform(-20, 20)])
    w = 10 ** rng.uniform(-6, 6)
    off = rng.choice([0.0, rng.uniform(-1, 1) * w, rng.uniform(-1, 1) * w * 10 ** rng.uniform(0, 6)])
    return [off, off + w]


def _area(rng):
    area = _interval(rng) + _interval(rng)
    if rng.random() < 0.15:
        area[0], area[1] = area[1], area[0]            # inverted interval: still the documented formula
    return area


LAYOUT_MIN_ROWS = {"lin": 1, "lincirc": 1, "quat": 4, "linnoise": 3}


def gen_gridseq(rng, k):
    """two initialisers alive at once, a pool of particle sets, 3-8 calls in any order; most sets have 4 rows and
    the right size for one of the initialisers (so that most calls do initialise)"""
    c = caseio.Case(k, "gridseq", {})
    dims = []
    for i in range(2):
        nx, ny = rng.randint(2, 5), rng.randint(2, 5)
        dims.append((nx, ny))
        c.mat("area%d" % i, [_area(rng)]).int("nx%d" % i, nx).int("ny%d" % i, ny).int("ctor4_%d" % i, int(rng.random() < 0.3))
    if rng.random() < 0.3:                     # equal particle counts, different shapes / areas: a cached grid would be reused wrongly
        nx, ny = dims[0]
        dims[1] = (ny, nx) if rng.random() < 0.5 else (nx, ny)
        c.ops = [(t, n, (dims[1][0] if n == "nx1" else dims[1][1] if n == "ny1" else v)) for t, n, v in c.ops]
    c.int("copy1", int(rng.random() < 0.5)).int("conc", int(rng.random() < 0.15))
    nsets = rng.randint(1, 3)
    c.int("nsets", nsets)
    sets = []
    for s_ in range(nsets):
        u = rng.random()
        rows = 4 if u < 0.75 else rng.choice([2, 3, 5, 6])
        layout = rng.choice([l for l, m in LAYOUT_MIN_ROWS.items() if rows >= m and not (l == "lincirc" and rows < 2)])
        nx, ny = dims[rng.randrange(2)]
        np_ = nx * ny if rng.random() < 0.8 else max(1, rng.choice([nx * ny - 1, nx * ny + 1, nx + ny]))
        sets.append((rows, np_))
        c.int("rows%d" % s_, rows).int("np%d" % s_, np_).word("layout%d" % s_, [layout])
    steps = rng.randint(3, 8)
    c.int("steps", steps)
    for t in range(steps):
        si = rng.randrange(nsets)
        rows, np_ = sets[si]
        fill = int(t == 0 or rng.random() < 0.5)
        c.int("init%d" % t, rng.randrange(2)).int("set%d" % t, si).int("fill%d" % t, fill)
        c.mat_shape("st%d" % t, rows, np_, gen.matrix(rng, rows, np_, 9.0)).mat_shape("w%d" % t, np_, 1, gen.matrix(rng, np_, 1))
    c.meta.update({"nsets": nsets, "steps": steps, "rows": "/".join(str(r) for r, _ in sets)})
    return c


def gen_grid(rng, k):
    nx, ny = rng.randint(2, 6), rng.randint(2, 6)
    if rng.random() < 0.08:
        # outside the property's domain (>= 2 per axis): 0/0 * 0 = NaN coordinates; correspondence only
        if rng.random() < 0.5: nx = 1
        else: ny = 1
    np_ = nx * ny if rng.random() < 0.7 else max(1, rng.choice([nx * ny - 1, nx * ny + 1, nx + ny, nx, (nx - 1) * (ny - 1), nx * ny + ny]))
    area = _area(rng)
    c = caseio.Case(k, "grid", {"nx": nx, "ny": ny, "np": np_, "ok": int(np_ == nx * ny)})
    c.mat("area", [area]).int("nx", nx).int("ny", ny).int("np", np_).int("ctor4", int(rng.random() < 0.3))
    c.mat_shape("st0", 4, np_, gen.matrix(rng, 4, np_, 9.0)).mat_shape("w0", np_, 1, gen.matrix(rng, np_, 1))
    return c


ZERO_LENGTH_SIG = "C16:trajectory-zero-length:ctor-writes-outside-target"
CORPUS_DIR = os.path.join(os.path.dirname(os.path.abspath(__file__)), "C16_corpus")


def corpus_cases():
    """hand-picked boundary cases and past failures (props/C16_corpus/*.case), run first on every run"""
    out = []
    if os.path.isdir(CORPUS_DIR):
        for fn in sorted(os.listdir(CORPUS_DIR)):
            if fn.endswith(".case"):
                for c in caseio.read_cases(os.path.join(CORPUS_DIR, fn)):
                    c.id = "corpus-%s-%s" % (fn[:-5], c.id)
                    out.append(c)
    return out


def zero_length_case(rng, cid, sensor):
    """simulation_time = 0: the constructor must throw (commit 56b3d39); before it, it wrote column 0 of an empty matrix"""
    c = gen_sim(rng, cid, sensor)
    c.ops = [("int", "len", 0) if n == "len" else (t, n, v) for t, n, v in c.ops]
    c.meta["len"] = 0
    return c


def generate(rng, tier):
    makers = {"wna": gen_wna, "lti_state": gen_lti_state, "lti_meas": gen_lti_meas, "linmodel": gen_linmodel,
              "sim": gen_sim, "sensor": lambda r, i: gen_sim(r, i, True), "grid": gen_grid, "gridseq": gen_gridseq, "ltisim": gen_ltisim,
              "wna_stat": lambda r, i: gen_wna_stat(r, i, tier), "lin_stat": lambda r, i: gen_lin_stat(r, i, tier)}
    kinds = [kind for kind, n in COUNTS[tier].items() for _ in range(n)]
    rng.shuffle(kinds)           # interleaved, so that any prefix of the list covers every kind
    cases = [makers[kind](rng, k) for k, kind in enumerate(kinds)]
    for sensor in (False, True):                      # the rejected boundary input, always
        for _ in range(2 if tier == "quick" else 30):
            cases.append(zero_length_case(rng, len(cases), sensor))
    return corpus_cases() + cases


# ---------------------------------------------------------------- classification helpers

def lti_state_outcome(fr, fc, qr, qc):
    if fr == 0 or fc == 0: return "FEmpty"
    if qr == 0 or qc == 0: return "QEmpty"
    if fr != fc: return "FNotSquare"
    if qr != qc: return "QNotSquare"
    if fr != qr: return "FQMismatch"
    return "ok"


def lti_meas_outcome(hr, hc, rr, rc):
    if hr == 0 or hc == 0: return "HEmpty"
    if rr == 0 or rc == 0: return "REmpty"
    if rr != rc: return "RNotSquare"
    if hr != rr: return "HRMismatch"
    return "ok"


def linmodel_outcome(c):
    n, idxs = c.get("n"), [int(s) for s in c.get("idxs")]
    o = lti_meas_outcome(len(idxs), n, int(c.meta["rr"]), int(c.meta["rc"]))
    if o != "ok":
        return o, None
    for i, v in enumerate(idxs):
        if v >= n:
            return "Index", (i, v)
    return "ok", None


def expected_outcome(c):
    m = c.meta
    if c.kind == "lti_state":
        return lti_state_outcome(int(m["fr"]), int(m["fc"]), int(m["qr"]), int(m["qc"]))
    if c.kind == "lti_meas":
        return lti_meas_outcome(int(m["hr"]), int(m["hc"]), int(m["rr"]), int(m["rc"]))
    if c.kind == "linmodel":
        return linmodel_outcome(c)[0]
    return None


def nontrivial(c):
    m = c.meta
    if c.kind == "wna":
        return ("wna", m["dim"], m["ops"], gen.decade(float(m["T"])), gen.decade(float(m["q"])), str(m.get("intrude")), str(m.get("conc")))
    if c.kind in ("lti_state", "lti_meas"):
        o = expected_outcome(c)
        if o == "ok" and c.kind == "lti_state" and m.get("how", "fresh") not in ("fresh", "move_ctor"):
            return (c.kind, o, m["how"], m["fr"])
        return (c.kind, o, tuple(sorted(m.items()))) if o != "ok" else None
    if c.kind == "linmodel":
        o, bad = linmodel_outcome(c)
        idxs = [int(s) for s in c.get("idxs")]
        return ("linmodel", o, m["n"], len(idxs), len(set(idxs)) < len(idxs), bad)
    if c.kind in ("sim", "sensor"):
        ops = c.get("ops")
        return (c.kind, m["dim"], m["len"], "r" in ops, len(ops) > int(m["len"]), m.get("m"), m.get("hist"), str(m.get("premove")), str(m.get("intrude")),
                gen.decade(float(m["T"])), gen.decade(float(m["q"])))
    if c.kind == "grid":
        return ("grid", m["nx"], m["ny"], m["np"], c.get("ctor4"))
    if c.kind == "ltisim":
        return ("ltisim", m.get("lin"), m.get("circ"), m.get("len"), m.get("sensor"), m.get("how"), m.get("hist"), tuple(c.get("idxs")))
    if c.kind == "gridseq":
        k = c.get("steps")
        return ("gridseq", m.get("rows"), tuple((c.get("init%d" % t), c.get("set%d" % t), c.get("fill%d" % t)) for t in range(k)),
                tuple(c.get("np%d" % s_) for s_ in range(c.get("nsets"))))
    if c.kind in ("wna_stat", "lin_stat"):
        return (c.kind, m.get("dim"), m.get("m"), c.id)
    return None


# ---------------------------------------------------------------- tolerances derived from the case

STATS = {"probe_ill_conditioned_skipped": 0, "probes": 0, "density_pairs": 0, "density_pairs_ill_conditioned_skipped": 0,
         "worst_density_ratio": 0.0, "worst_sample_ratio": 0.0, "worst_traj_ratio": 0.0}
PROBE_COND_MAX = 1e6
DENSITY_TOL_MAX = 0.05          # pairs whose derived log-density bound exceeds this are excluded and counted
S3 = math.sqrt(3.0) / 2.0
Q0_BLOCK = np.array([[1.0, S3], [S3, 1.0]])          # the equilibrated 2x2 block of Q for every T, q: cond 13.9, det 1/4
KAPPA_EQ = float(np.linalg.cond(Q0_BLOCK))
G_PROD = 4.0            # products / sums of d terms: G_PROD * d * eps * sum of magnitudes
# measured on the thorough tier (seed 1, 14354 cases x 2 variants; 22069 density pairs, 54 excluded): worst |log impl - log model| / bound
# 0.061, worst sample or motion difference / bound 0.109, worst trajectory or measurement difference / accumulated bound 0.082
# (the values of each run are in the evidence histogram: worst_*_ratio)


def probe_ok(c, impl, count=False):
    """The factor is observed as probeS * probeZ^-1; a badly conditioned probeZ is rejected and counted."""
    Z = impl.get("probeZ")
    if Z is None or Z.shape[0] != Z.shape[1] or Z.size == 0:
        return True
    ok = np.linalg.cond(Z) <= PROBE_COND_MAX
    if count:
        STATS["probes"] += 1
        STATS["probe_ill_conditioned_skipped"] += 0 if ok else 1
    return bool(ok)


def _kz(impl, d):
    """relative error (per row, in units of the row's norm) of the factor observed as probeS * probeZ^-1, and of L z"""
    Z = impl.get("probeZ")
    cz = float(np.linalg.cond(Z)) if Z is not None and Z.ndim == 2 and Z.shape[0] == Z.shape[1] and Z.size else 1.0
    return 8.0 * EPS * d * (1.0 + cz)


def _sample_bound(kz, rown, Z):
    """|L z - (L + E) z|: rows of E bounded by kz * |L_i|, |L_i| = sqrt(Q_ii)"""
    return kz * np.outer(rown, np.linalg.norm(Z, axis=0)) if Z.size else np.zeros((len(rown), Z.shape[1]))


def _cw(a, b, bound, what, stat=None):
    """component-wise comparison against a matrix of allowed differences; None when within"""
    if a is None or b is None:
        return "%s: missing" % what
    a, b = np.asarray(a, float), np.asarray(b, float)
    if a.shape != b.shape:
        return "%s: shape %s vs %s" % (what, a.shape, b.shape)
    if a.size == 0:
        return None
    with np.errstate(invalid="ignore"):
        diff = np.abs(a - b)
        same = (a == b) | (np.isnan(a) & np.isnan(b))
        bad = ~same & ~(diff <= bound)
        if stat:
            r = np.where(same | ~np.isfinite(diff), 0.0, diff / np.maximum(bound, 1e-300))
            if r.size and np.isfinite(r).all():
                STATS[stat] = max(STATS[stat], float(min(np.max(r), 1e9)))
    if np.any(bad):
        k = tuple(int(x) for x in np.argwhere(bad)[0])
        return "%s entry %s: %r vs %r (allowed difference %.3g)" % (what, k, float(a[k]), float(b[k]), float(np.broadcast_to(bound, a.shape)[k]))
    return None


def _rel(a, b, rtol, what):
    """entry-wise relative comparison (each entry in its own unit)"""
    b = np.asarray(b, float)
    return _cw(a, b, rtol * np.abs(b), what)


def density_spec(dim, T, q, P, C):
    """per (previous, current) pair: log N(cur; F prev, Q) computed on the equilibrated problem, and the bound on the error of
    a log-density computed in doubles by LU / Gauss-Jordan on Q itself: c eps cond(Q0) (d + m) for the inverse and the
    determinant (the eliminations are invariant under the scaling by units up to the pivot order, and Q0 is the same for all
    T, q), plus the rounding of cur - F prev, measured in sigmas, pushed through the quadratic form"""
    d = 2 * dim
    sig = sigmas(dim, T, q)
    F = F_closed(dim, T)
    P, C = np.asarray(P, float).reshape(d, -1), np.asarray(C, float).reshape(d, -1)
    Q0 = np.kron(np.eye(dim), Q0_BLOCK)
    L0i = np.linalg.inv(np.linalg.cholesky(Q0))
    logdet = 2.0 * float(np.sum(np.log(sig))) + dim * math.log(0.25)
    out = []
    for j in range(P.shape[1]):
        delta = C[:, j] - F @ P[:, j]
        e = (d + 2) * EPS * (np.abs(C[:, j]) + np.abs(F) @ np.abs(P[:, j]))
        w = L0i @ (delta / sig)
        m = float(w @ w)
        nw = float(np.linalg.norm(np.abs(L0i) @ (e / sig)))
        lw = -0.5 * (d * math.log(2.0 * math.pi) + logdet + m)
        tol = 0.5 * (4.0 * d * EPS * KAPPA_EQ * (d + m) + 2.0 * math.sqrt(m) * nw + nw * nw) + 8.0 * EPS * abs(lw) + 8.0 * EPS
        out.append((lw, tol if np.isfinite(tol) else math.inf))
    return out


def _density_close(a, b, spec, count=False):
    """densities compared on the log scale (they range over hundreds of decades), pair by pair within the derived bound"""
    a, b = np.asarray(a, float).reshape(-1), np.asarray(b, float).reshape(-1)
    if a.shape != b.shape or len(a) != len(spec):
        return "shape %s vs %s (%d pairs)" % (a.shape, b.shape, len(spec))
    for i, (x, y) in enumerate(zip(a, b)):
        lw, tol = spec[i]
        if count:
            STATS["density_pairs"] += 1
        if tol > DENSITY_TOL_MAX:
            if count:
                STATS["density_pairs_ill_conditioned_skipped"] += 1
            continue
        if x == y or (math.isnan(x) and math.isnan(y)):
            continue
        if 0 <= x < 1e-290 and 0 <= y < 1e-290:
            continue            # underflow region: Eigen's vectorised exp clamps its argument (5.56e-309), libm goes subnormal / 0
        if x > 0 and y > 0 and math.isfinite(x) and math.isfinite(y):
            dl = abs(math.log(x) - math.log(y))
            if count:
                STATS["worst_density_ratio"] = max(STATS["worst_density_ratio"], dl / tol)
            if dl <= tol:
                continue
        return "entry %d: %r vs %r (log N = %.17g, allowed log difference %.3g)" % (i, x, y, lw, tol)
    return None


def _script_bounds(c, impl, T=None):
    """per operation of a wna script: the mirrored draws it consumed and the allowed difference of its result"""
    dim = c.get("dim"); T0, q = c.get("Tq")[0]
    T = T0 if T is None else T
    d = 2 * dim
    F, Q = F_closed(dim, T), Q_closed(dim, T, q)
    rown = np.sqrt(np.diag(Q))
    kz = _kz(impl, d)
    z = list(impl.get("draws").reshape(-1)) if impl.has("draws") else []
    pos, out = 0, []
    for k, op in enumerate(c.get("script")):
        arg = int(op[1:])
        if op[0] == "n":
            Z = colmajor(z[pos:], d, arg) if len(z) >= pos + d * arg else None
            out.append(("n", Z, None if Z is None else _sample_bound(kz, rown, Z), None)); pos += d * arg
        elif op[0] in "mb":
            X = c.get("X%d" % arg); cols = X.shape[1]
            Z = colmajor(z[pos:], d, cols) if len(z) >= pos + d * cols else None
            b = None if Z is None else _sample_bound(kz, rown, Z) + G_PROD * d * EPS * (np.abs(F) @ np.abs(X))
            out.append(("m", Z, b, X)); pos += d * cols
        elif op[0] in "tu":
            out.append(("t", None, None, None))
        else:
            out.append((op[0], None, None, None))
    return out


# ---------------------------------------------------------------- correspondence

def compare_wna(c, impl, model):
    diffs = []
    dim = c.get("dim"); T, q = c.get("Tq")[0]
    d = 2 * dim
    for n in ("F", "Q"):
        e = _rel(impl.get(n), model.get(n), 16 * EPS, n)
        if e: diffs.append(e)
    diffs += caseio.compare_fields(impl, model, ["state_size"], 0.0, 0.0)
    if not probe_ok(c, impl, count=True):
        return diffs
    if model.has("no_factor"):
        diffs.append("the factor could not be observed on the implementation (probe shapes)")
        return diffs
    for k, (kind, Z, bound, X) in enumerate(_script_bounds(c, impl)):
        n = "r%d" % k
        if kind in "nm":
            if bound is None:
                diffs.append("%s: the mirrored draws are missing" % n); continue
            e = _cw(impl.get(n), model.get(n), bound, n, "worst_sample_ratio")
            if e: diffs.append(e)
        elif kind == "t":
            arg = int(c.get("script")[k][1:])
            if not impl.has(n) or not model.has(n):
                diffs.append("%s: missing (impl %s, model %s)" % (n, impl.has(n), model.has(n))); continue
            e = _density_close(impl.get(n), model.get(n), density_spec(dim, T, q, c.get("P%d" % arg), c.get("C%d" % arg)), count=True)
            if e: diffs.append("%s: %s" % (n, e))
        else:
            for f in ("_F", "_Q"):
                e = _rel(impl.get(n + f), model.get(n + f), 16 * EPS, n + f)
                if e: diffs.append(e)
            diffs += caseio.compare_fields(impl, model, [n + "_ss"] + ([n + "_ret"] if kind == "s" else []), 0.0, 0.0)
    return diffs


def _traj_bounds(c, impl, model):
    """accumulated forward-error bound of the recursion x_{k+1} = F x_k + L z_k along the model's trajectory"""
    dim = c.get("dim"); T, q = c.get("Tq")[0]
    d, n = 2 * dim, c.get("len")
    F, Q = F_closed(dim, T), Q_closed(dim, T, q)
    rown = np.sqrt(np.diag(Q))
    kz = _kz(impl, d)
    z = list(impl.get("draws").reshape(-1)) if impl.has("draws") else []
    xs = [model.get("x%d" % k) for k in range(n)]
    if any(x is None for x in xs) or len(z) < d * (n - 1):
        return None, None
    e = [np.zeros(d)]
    for k in range(n - 1):
        zk = np.array(z[d * k:d * (k + 1)])
        e.append(np.abs(F) @ e[-1] + G_PROD * d * EPS * (np.abs(F) @ np.abs(xs[k].reshape(-1))) + kz * rown * np.linalg.norm(zk))
    return xs, e


def compare_sim(c, impl, model):
    diffs = caseio.compare_fields(impl, model, ["ctor"], 0.0, 0.0)
    if c.get("len") == 0 or (impl.get("ctor") or [None])[0] != "ok":
        return diffs
    if not probe_ok(c, impl, count=True):
        return diffs
    if model.has("no_factor") or model.has("no_state"):
        return diffs + ["model could not be run: %s" % [n for n in model.names() if n.startswith("no_")]]
    xs, eb = _traj_bounds(c, impl, model)
    if xs is None:
        return diffs + ["the model's trajectory or the mirrored draws are missing"]
    n, sensor = c.get("len"), c.kind == "sensor"
    if sensor:
        diffs += caseio.compare_fields(impl, model, ["H", "sqrtR", "meas_size", "meas_lin", "meas_circ", "input_size", "input_noise"], 0.0, 0.0)
        idxs = [int(s_) for s_ in c.get("idxs")]
        LR = impl.get("sqrtR"); m = len(idxs)
        z2 = list(impl.get("draws2").reshape(-1)) if impl.has("draws2") else []
    else:
        diffs += caseio.compare_fields(impl, model, ["data_init_empty"], 0.0, 0.0)
    cur, served, last_bound = 0, 0, None
    for k, op in enumerate(c.get("ops")):
        diffs += caseio.compare_fields(impl, model, ["ret%d" % k], 0.0, 0.0)
        if op in ("b", "f"):
            if cur < n:
                if sensor:
                    zk = np.array(z2[m * served:m * (served + 1)]) if len(z2) >= m * (served + 1) else np.zeros(m)
                    last_bound = (eb[cur][idxs] + G_PROD * EPS * np.abs(xs[cur].reshape(-1)[idxs]) + G_PROD * m * EPS * (np.abs(LR) @ np.abs(zk))).reshape(m, 1)
                    served += 1
                else:
                    last_bound = eb[cur].reshape(-1, 1)
                cur += 1
        elif op == "r":
            cur = 0
        name = ("meas%d" if sensor else "data%d") % k
        if not sensor:
            diffs += caseio.compare_fields(impl, model, [name + "_empty"], 0.0, 0.0)
        a, b = impl.get(name), model.get(name)
        if a is None and b is None:
            continue
        if last_bound is None:
            if (a is not None and a.size) or (b is not None and b.size):
                diffs.append("%s: a value before the first successful call (impl %s, model %s)" % (name, None if a is None else a.shape, None if b is None else b.shape))
            continue
        e = _cw(a, b, last_bound, name, "worst_traj_ratio")
        if e:
            diffs.append(e)
            break
    return diffs


def _lti_bounds(c, xs):
    """accumulated forward-error bound of x_{k+1} = F x_k + w_k along the given trajectory"""
    F, W = c.get("F"), c.get("W")
    n = F.shape[0]
    e = [np.zeros(n)]
    for k in range(len(xs) - 1):
        e.append(np.abs(F) @ e[-1] + G_PROD * n * EPS * (np.abs(F) @ np.abs(xs[k].reshape(-1)) + np.abs(W[:, k])))
    return e


def _cursor_walk(ops, n):
    """for every call: the trajectory index whose state getData() holds after it (None before the first served state),
    and whether the call is a successful serve"""
    cur, last, out = 0, None, []
    for op in ops:
        served = False
        if op in ("b", "f"):
            if cur < n:
                last, served = cur, True
                cur += 1
        elif op == "r":
            cur = 0
        out.append((last, served))
    return out


def compare_ltisim(c, impl, model):
    n_, sensor = c.get("len"), c.get("sensor")
    xs = [model.get("x%d" % k) for k in range(n_)]
    if any(x is None for x in xs):
        return ["the model's trajectory is missing"]
    eb = _lti_bounds(c, xs)
    diffs = []
    if sensor:
        diffs += caseio.compare_fields(impl, model, ["H", "sqrtR", "meas_size", "meas_lin", "meas_circ", "input_size", "input_lin", "input_circ", "input_noise"], 0.0, 0.0)
        idxs = [int(s_) for s_ in c.get("idxs")]; m = len(idxs)
        LR = impl.get("sqrtR")
        z2 = list(impl.get("draws2").reshape(-1)) if impl.has("draws2") else []
    nserved, mb = 0, None
    for k, (idx, served) in enumerate(_cursor_walk(c.get("ops"), n_)):
        diffs += caseio.compare_fields(impl, model, ["ret%d" % k, "data%d_empty" % k], 0.0, 0.0)
        if idx is None:
            continue
        e = _cw(impl.get("data%d" % k), model.get("data%d" % k), eb[idx].reshape(-1, 1), "data%d" % k, "worst_traj_ratio")
        if e: diffs.append(e); break
        if sensor:
            if served:
                zk = np.array(z2[m * nserved:m * (nserved + 1)]) if len(z2) >= m * (nserved + 1) else np.zeros(m)
                mb = (eb[idx][idxs] + G_PROD * EPS * np.abs(xs[idx].reshape(-1)[idxs]) + G_PROD * m * EPS * (np.abs(LR) @ np.abs(zk))).reshape(m, 1)
                nserved += 1
            e = _cw(impl.get("meas%d" % k), model.get("meas%d" % k), mb, "meas%d" % k, "worst_traj_ratio")
            if e: diffs.append(e); break
    return diffs


def _grid_bound(area, ctor4, rows, np_):
    a = area
    xi, xs, yi, ys = (0.0, a[1], 0.0, a[3]) if ctor4 else a
    b = np.zeros((rows, np_))
    if rows >= 1: b[0, :] = 8 * EPS * (abs(xi) + abs(xs))
    if rows >= 3: b[2, :] = 8 * EPS * (abs(yi) + abs(ys))
    return b


def compare_grid(c, impl, model):
    diffs = caseio.compare_fields(impl, model, ["ret"], 0.0, 0.0)
    e = _cw(impl.get("state"), model.get("state"), _grid_bound(c.get("area")[0], c.get("ctor4"), 4, c.get("np")), "state")
    if e: diffs.append(e)
    e = _rel(impl.get("weight"), model.get("weight"), 8 * EPS, "weight")
    if e: diffs.append(e)
    return diffs


def compare_gridseq(c, impl, model):
    diffs = []
    for k in range(c.get("steps")):
        t = str(k)
        si = c.get("set" + t); rows, np_ = c.get("rows%d" % si), c.get("np%d" % si)
        i = c.get("init" + t)
        diffs += caseio.compare_fields(impl, model, ["ret" + t], 0.0, 0.0)
        e = _cw(impl.get("state" + t), model.get("state" + t), _grid_bound(c.get("area%d" % i)[0], c.get("ctor4_%d" % i), rows, np_), "state" + t)
        if e: diffs.append(e)
        e = _rel(impl.get("weight" + t), model.get("weight" + t), 8 * EPS, "weight" + t)
        if e: diffs.append(e)
    return diffs


def compare(c, impl, model):
    if c.kind in ("wna_stat", "lin_stat"):
        return []                       # no model output: these cases serve the property oracle only
    if c.kind == "wna":
        return compare_wna(c, impl, model)
    if c.kind in ("sim", "sensor"):
        return compare_sim(c, impl, model)
    if c.kind == "grid":
        return compare_grid(c, impl, model)
    if c.kind == "gridseq":
        return compare_gridseq(c, impl, model)
    if c.kind == "ltisim":
        return compare_ltisim(c, impl, model)
    # constructors: outcomes and exposed matrices exactly (they are copies of the arguments)
    skip_prefix = ("spec_", "LLt", "draws_left", "err_pos", "no_factor")
    names = [n for n in model.names() if not n.startswith(skip_prefix) and not (n.startswith("r") and n[1:].isdigit())]
    diffs = caseio.compare_fields(impl, model, names, 0.0, 0.0)
    if c.kind == "linmodel" and (impl.get("result") or [None])[0] == "ok":
        L = impl.get("sqrtR"); m = L.shape[0]
        z = list(impl.get("draws").reshape(-1)) if impl.has("draws") else []
        pos = 0
        for k, s_ in enumerate(c.get("nums")):
            num = int(s_)
            Z = colmajor(z[pos:], m, num) if len(z) >= pos + m * num else np.zeros((m, num))
            e = _cw(impl.get("r%d" % k), model.get("r%d" % k), G_PROD * m * EPS * (np.abs(L) @ np.abs(Z)), "r%d" % k)
            if e: diffs.append(e)
            pos += m * num
    return diffs


# ---------------------------------------------------------------- property oracle (on the implementation's output)

def _close(a, b, rtol, atol=0.0):
    a, b = np.asarray(a, float), np.asarray(b, float)
    if a.shape != b.shape:
        return False
    scale = max(1.0, float(np.max(np.abs(b)))) if b.size else 1.0
    return caseio.close(a, b, atol + rtol * scale, 0.0)


def _factor_ok(L, R, extra=0.0):
    """L L^T = R entry by entry in the units of R: |(L L^T - R)_ij| <= c eps sqrt(R_ii R_jj) (the component-wise backward
    error of a Cholesky-type factorisation; it does not depend on the conditioning of R)"""
    L, R = np.asarray(L, float), np.asarray(R, float)
    if L.ndim != 2 or R.ndim != 2 or L.shape != R.shape or R.shape[0] != R.shape[1]:
        return False, float("nan")
    if R.size == 0:
        return True, 0.0
    dg = np.sqrt(np.abs(np.diag(R)))
    scale = np.outer(dg, dg)
    with np.errstate(invalid="ignore", divide="ignore"):
        r = np.abs(L @ L.T - R) / np.where(scale > 0, scale, 1.0)
    worst = float(np.max(r)) if np.all(np.isfinite(r)) else math.inf
    return worst <= 64.0 * R.shape[0] * EPS + extra, worst


def _observed_L(impl, d):
    S, Z = impl.get("probeS"), impl.get("probeZ")
    if S is None or Z is None or S.shape != (d, d) or Z.shape != (d, d):
        return None
    return S @ np.linalg.inv(Z)


SIGMAS = 5.5


def _wna_common(c, impl, v):
    """closed forms at spec level, observed factor, reproducibility from the seed (mirror-free)"""
    dim = c.get("dim"); T, q = c.get("Tq")[0]
    d, dn = 2 * dim, DIMNAME[dim]
    F, Q = F_closed(dim, T), Q_closed(dim, T, q)
    S = impl.get("probeS")
    if S is None or S.shape != (d, d):
        v.append(("C16:noise-sample-rows:Dim=%s" % dn, "getNoiseSample(%d) returned shape %s, state dimension %d" % (d, None if S is None else S.shape, d)))
        return F, Q, None
    if impl.get("reproducible") != 1:
        v.append(("C16:noise-not-reproducible:Dim=%s" % dn, "two instances with the same seed drew different samples"))
    if impl.get("seed_sensitive") != 1:
        v.append(("C16:noise-ignores-seed:Dim=%s" % dn, "instances with different seeds drew the same sample"))
    L = _observed_L(impl, d) if probe_ok(c, impl) else None
    return F, Q, L


def _closed_form_clauses(v, Fi, Qi, ssi, dim, T, q, where):
    dn = DIMNAME[dim]
    F, Q = F_closed(dim, T), Q_closed(dim, T, q)
    e = _rel(Fi, F, 4 * EPS, "F")
    if e:
        v.append(("C16:F-not-closed-form:Dim=%s" % dn, "%sF is not blockdiag([1 T; 0 1]), T = %r: %s" % (where, float(T), e)))
    e = _rel(Qi, Q, 32 * EPS, "Q")
    if e:
        v.append(("C16:Q-not-closed-form:Dim=%s" % dn, "%sQ is not q blockdiag([T^3/3 T^2/2; T^2/2 T]), T = %r, q = %r: %s" % (where, float(T), float(q), e)))
    if ssi != 2 * dim:
        v.append(("C16:state-size:Dim=%s" % dn, "%sstate description has size %s" % (where, ssi)))


def oracle_wna(c, impl, model):
    """Property clauses only.  'sample = L * (mirrored draws)' is a correspondence matter (compare): a change of the
    draw order is not a violation of the property.  The factor observed through the mirror is judged (L L^T = Q)
    only when the mirror is validated by this very case (every sample equals L Z).  Mirror-free clauses: closed forms
    (initially and after every setSamplingTime / move), shapes, inputs and frames untouched, N(cur; F prev, Q), and
    'the subject returns, bit for bit, what an object built from the same arguments returns that is never moved and is
    used while no other object is' (ref_diff_at)."""
    v = []
    dim = c.get("dim"); T, q = c.get("Tq")[0]
    d, dn = 2 * dim, DIMNAME[dim]
    F, Q, L = _wna_common(c, impl, v)
    _closed_form_clauses(v, impl.get("F"), impl.get("Q"), impl.get("state_size"), dim, T, q, "")
    script = c.get("script")
    bounds = _script_bounds(c, impl)
    mirror_ok, mirror_used = L is not None, False
    T0 = T          # T: the sampling interval in force (a model that implements setSamplingTime is judged with the new one)
    for k, op in enumerate(script):
        r = impl.get("r%d" % k)
        arg = int(op[1:])
        kind, Z, bound, X = bounds[k]
        if T != T0:
            F, mirror_ok = F_closed(dim, T), False
        if op[0] == "n":
            if r is None or r.shape != (d, arg):
                v.append(("C16:noise-sample-rows:Dim=%s" % dn, "getNoiseSample(%d) returned shape %s" % (arg, None if r is None else r.shape)))
                mirror_ok = False
            elif L is not None and arg > 0 and bound is not None:
                mirror_used = True
                mirror_ok = mirror_ok and _cw(r, L @ Z, 4 * bound, "r") is None
        elif op[0] in "mb":
            cols = X.shape[1]
            if impl.get("r%d_input_kept" % k) != 1:
                v.append(("C16:motion-modifies-input", "call %d" % k))
            if op[0] == "b" and impl.get("r%d_frame_kept" % k) != 1:
                v.append(("C16:motion-writes-outside-output", "call %d: motion through a block of a larger matrix changed entries outside the block" % k))
            if r is None or r.shape != X.shape:
                v.append(("C16:motion-shape:Dim=%s" % dn, "call %d returned shape %s" % (k, None if r is None else r.shape)))
                mirror_ok = False
            elif L is not None and cols > 0 and bound is not None:
                mirror_used = True
                mirror_ok = mirror_ok and _cw(r, F @ X + L @ Z, 4 * bound, "r") is None
        elif op[0] in "tu":
            P, C = c.get("P%d" % arg), c.get("C%d" % arg)
            if op[0] == "u" and impl.get("r%d_input_kept" % k) != 1:
                v.append(("C16:transition-density-modifies-input", "call %d" % k))
            if r is None or r.shape != (P.shape[1], 1):
                v.append(("C16:transition-density-shape:Dim=%s" % dn, "call %d returned shape %s for %d pairs" % (k, None if r is None else r.shape, P.shape[1])))
                continue
            spec = density_spec(dim, T, q, P, C)
            for j, (lw, tol) in enumerate(spec):
                if tol > DENSITY_TOL_MAX:
                    continue
                got = float(r[j, 0])
                okv = (got > 0 and math.isfinite(got) and abs(math.log(got) - lw) <= 2 * tol) or (got == 0.0 and lw < -700) or (0 <= got < 1e-290 and lw < -660)
                if not okv:
                    v.append(("C16:transition-density-not-N(cur;F.prev,Q):Dim=%s" % dn,
                              "call %d pair %d: returned %r, N(cur; F prev, Q) = exp(%.17g) (allowed log difference %.3g)" % (k, j, got, lw, 2 * tol)))
                    break
            if model is not None and model.has("spec_r%d" % k):
                e = _density_close(r, model.get("spec_r%d" % k), [(lw, 2 * tol) for lw, tol in spec])
                if e:
                    v.append(("C16:transition-density-not-N(cur;F.prev,Q):Dim=%s" % dn, "call %d vs the extracted density: %s" % (k, e)))
        else:
            what = {"s": "after setSamplingTime: ", "c": "after move construction: ", "a": "after move assignment: ", "v": "after growth of a std::vector: "}[op[0]]
            Fi = impl.get("r%d_F" % k)
            if op[0] == "s" and Fi is not None and Fi.shape == (d, d) and float(Fi[0, 1]) == float(c.get("S%d" % arg)[0, 0]) != T:
                T = float(c.get("S%d" % arg)[0, 0])         # the model took the new interval: every clause from here on is about it
            _closed_form_clauses(v, Fi, impl.get("r%d_Q" % k), impl.get("r%d_ss" % k), dim, T, q, what)
    if L is not None and mirror_ok and mirror_used and T == T0:
        okf, worst = _factor_ok(L, Q, extra=8 * _kz(impl, d))
        if not okf:
            v.append(("C16:noise-cov-not-Q:Dim=%s" % dn, "every sample is L*Z for the observed factor L, but |L L^T - Q|_ij / sqrt(Q_ii Q_jj) reaches %.3g" % worst))
    rd = impl.get("ref_diff_at")
    if rd is not None and rd >= 0:
        ops = "".join(s_[0] for s_ in script[:rd + 1])
        causes = (["moved"] if any(o in ops for o in "cav") else []) + (["other-objects"] if _geti(c, "intrude") else [])
        cause = "+".join(causes) or "plain"
        text = " and ".join({"other-objects": "while an independent model is used inside its callbacks and between its calls",
                             "moved": "after being obtained by move construction / move assignment / vector growth (%s)" % ops}[x] for x in causes) or "on the same call sequence"
        v.append(("C16:model-differs-from-identically-built-model:%s:Dim=%s" % (cause, dn),
                  "call %d (%s): the subject, %s, does not return what a model built from the same arguments (seed included) returns" % (rd, script[rd], text)))
    if impl.has("concurrent_ok") and impl.get("concurrent_ok") != 1:
        v.append(("C16:models-interfere-across-threads:Dim=%s" % dn, "three models with their own parameters and seeds, used from three threads, do not return their sequential results"))
    return v


def _moment_check(v, sig, what, got, want, var_diag, N, second=True, slack=0.0):
    """entry-wise test of an empirical moment against its expectation, SIGMAS standard deviations (each entry in its own
    unit; slack: rounding of the accumulation, N eps |want| unless given)"""
    got = np.asarray(got, float)
    if got.shape != want.shape:
        v.append((sig, "%s has shape %s, expected %s" % (what, got.shape, want.shape))); return
    if second:
        sd = np.sqrt((np.outer(var_diag, var_diag) + want ** 2) / N)
    else:
        sd = np.sqrt(var_diag / N).reshape(want.shape)
    bad = ~(np.abs(got - want) <= SIGMAS * sd + 4 * N * EPS * np.abs(want) + slack)
    if np.any(bad):
        i = tuple(int(x) for x in np.argwhere(bad)[0])
        v.append((sig, "%s entry %s: %.6g, expected %.6g +- %.3g (%d samples, %.1f sigma allowed)" % (what, i, got[i], want[i], sd[i], N, SIGMAS)))


def oracle_wna_stat(c, impl, model):
    v = []
    dim = c.get("dim"); T, q = c.get("Tq")[0]
    d, dn, N = 2 * dim, DIMNAME[dim], c.get("N")
    F, Q = F_closed(dim, T), Q_closed(dim, T, q)
    if impl.get("noise_rows") != d or impl.get("noise_cols") != N:
        v.append(("C16:noise-sample-rows:Dim=%s" % dn, "getNoiseSample(%d) returned %s x %s" % (N, impl.get("noise_rows"), impl.get("noise_cols"))))
        return v
    dq = np.diag(Q)
    _moment_check(v, "C16:noise-empirical-cov-not-Q:Dim=%s" % dn, "second moment of the noise samples", impl.get("noise_second_moment"), Q, dq, N)
    _moment_check(v, "C16:noise-empirical-mean-not-0:Dim=%s" % dn, "mean of the noise samples", impl.get("noise_mean"), np.zeros((d, 1)), dq, N, second=False)
    x = c.get("x")
    _moment_check(v, "C16:motion-empirical-mean-not-Fx:Dim=%s" % dn, "mean of motion(x)", impl.get("motion_mean"), F @ x, dq, N, second=False)
    m_ = np.abs(F @ x).reshape(-1); sd_ = np.sqrt(dq)
    _moment_check(v, "C16:motion-empirical-cov-not-Q:Dim=%s" % dn, "covariance of motion(x)", impl.get("motion_cov"), Q, dq, N,
                  slack=16 * EPS * (np.outer(m_, sd_) + np.outer(sd_, m_)) + 16 * N * EPS * EPS * np.outer(m_, m_))
    return v


def oracle_lin_stat(c, impl, model):
    v = []
    R, N, m = c.get("R"), c.get("N"), len(c.get("idxs"))
    if impl.get("noise_rows") != m or impl.get("noise_cols") != N:
        v.append(("C16:sensor-noise-sample-rows:m=%d" % m, "getNoiseSample(%d) returned %s x %s" % (N, impl.get("noise_rows"), impl.get("noise_cols"))))
        return v
    L = impl.get("sqrtR")
    if L is None or L.shape != (m, m) or not _factor_ok(L, R)[0]:
        v.append(("C16:sensor-noise-cov-not-R", "sqrt_R sqrt_R^T differs from R"))
    _moment_check(v, "C16:sensor-noise-empirical-cov-not-R", "second moment of the sensor noise", impl.get("noise_second_moment"), R, np.diag(R), N)
    _moment_check(v, "C16:sensor-noise-empirical-mean-not-0", "mean of the sensor noise", impl.get("noise_mean"), np.zeros((m, 1)), np.diag(R), N, second=False)
    if impl.has("resid_second_moment"):
        Ns = impl.get("resid_count")
        if impl.get("freeze_failures") != 0 or impl.get("freeze_past_end") != 0:
            v.append(("C16:sensor-freeze-forwarding", "%s of %d freezes inside the trajectory failed; the freeze past its end returned %s" % (impl.get("freeze_failures"), Ns, impl.get("freeze_past_end"))))
        _moment_check(v, "C16:sensor-measurement-not-Hx-plus-noise:cov", "second moment of measure() - H x_k", impl.get("resid_second_moment"), R, np.diag(R), Ns)
        _moment_check(v, "C16:sensor-measurement-not-Hx-plus-noise:mean", "mean of measure() - H x_k", impl.get("resid_mean"), np.zeros((m, 1)), np.diag(R), Ns, second=False)
    return v


def oracle_ctor(c, impl, model):
    v = []
    want = expected_outcome(c)
    got = impl.get("result")
    got = got[0] if got else None
    if (got == "ok") != (want == "ok"):
        v.append(("C16:ctor-validation:%s:%s" % (c.kind, want), "constructor outcome %s, the documented checks give %s (shapes %s)" % (got, want, c.meta)))
        return v
    # which of several applicable checks fires first is compared by the correspondence check only
    if want == "ok":
        pairs = [("F", "F"), ("Q", "Q"), ("J", "F")] if c.kind == "lti_state" else [("H", "H"), ("R", "R")]
        for out, inp in pairs:
            a = impl.get(out)
            if a is None or a.shape != c.get(inp).shape or not np.array_equal(a, c.get(inp)):
                v.append(("C16:ctor-exposes-other-matrix:%s:%s" % (c.kind, out), "accessor returns a matrix different from the one passed in"))
        how = (c.get("how") or ["move_ctor"])[0] if c.has("how") else "move_ctor"
        if c.kind == "lti_state" and impl.get("moved_same") != 1:
            v.append(("C16:ctor-exposes-other-matrix:lti_state:%s" % how, "the object obtained (%s) exposes other matrices than the ones the model was constructed with" % how))
        if c.kind == "lti_state" and impl.has("F_after") and not (np.array_equal(impl.get("F_after"), impl.get("F")) and np.array_equal(impl.get("Q_after"), impl.get("Q"))):
            v.append(("C16:lti-state-changed-by-setSamplingTime", "after setSamplingTime / setProperty the time-invariant model exposes other matrices than before"))
        if c.kind == "lti_meas" and impl.get("R_valid") != 1:
            v.append(("C16:ctor-exposes-other-matrix:lti_meas:R_valid", "getNoiseCovarianceMatrix reports invalid"))
    return v


def _selector(n, idxs):
    H = np.zeros((len(idxs), n))
    for i, j in enumerate(idxs):
        H[i, j] = 1.0
    return H


def oracle_linmodel(c, impl, model):
    v = []
    want, bad = linmodel_outcome(c)
    got = impl.get("result"); got = got[0] if got else None
    n, idxs = c.get("n"), [int(s) for s in c.get("idxs")]
    if (got == "ok") != (want == "ok"):
        v.append(("C16:selector-validation:%s" % want, "LinearModel({%d, %s}, R %sx%s): outcome %s, documented %s" % (n, idxs, c.meta["rr"], c.meta["rc"], got, want)))
        return v
    if want == "Index" and got == "Index":
        if impl.get("err_value") != bad[1] or impl.get("err_bound") != n:
            v.append(("C16:selector-validation:Index-report", "reported index %s bound %s, first out-of-range index is %s (position %d), bound %d" % (impl.get("err_value"), impl.get("err_bound"), bad[1], bad[0], n)))
    if want != "ok":
        return v
    m = len(idxs)
    H = impl.get("H")
    if H is None or H.shape != (m, n) or not np.array_equal(H, _selector(n, idxs)):
        v.append(("C16:selector-matrix", "H is not the 0/1 selector of components %s out of %d" % (idxs, n)))
    R = c.get("R")
    if not np.array_equal(impl.get("R"), R):
        v.append(("C16:ctor-exposes-other-matrix:linmodel:R", "getNoiseCovarianceMatrix differs from the matrix passed in"))
    L = impl.get("sqrtR")
    okf, worst = _factor_ok(L, R) if L is not None and L.shape == (m, m) else (False, float("nan"))
    if not okf:
        v.append(("C16:sensor-noise-cov-not-R", "|sqrt_R sqrt_R^T - R|_ij / sqrt(R_ii R_jj) reaches %.3g" % worst))
        return v
    if impl.get("reproducible") != 1:
        v.append(("C16:sensor-noise-not-reproducible", "two sensors with the same seed drew different samples"))
    if impl.get("seed_sensitive") != 1:
        v.append(("C16:sensor-noise-ignores-seed", "sensors with different seeds drew the same sample"))
    for k, s_ in enumerate(c.get("nums")):
        num = int(s_); r = impl.get("r%d" % k)
        if r is None or r.shape != (m, num):
            v.append(("C16:sensor-noise-sample-rows:m=%d" % m, "getNoiseSample(%d) returned shape %s for measurement size %d" % (num, None if r is None else r.shape, m)))
    # 'sample = sqrt_R * (mirrored draws)' is compared against the model (correspondence), not judged here
    return v


MAHA_MAX = 300.0        # chi-square with at most 6 degrees of freedom: P(> 300) < 1e-58


def _increment_clause(v, dim, T, q, seen):
    """x_{k+1} = motion(x_k), mirror-free: every served increment x_{k+1} - F x_k is a plausible draw of N(0, Q) (its
    Mahalanobis length, with the rounding of the difference measured in sigmas, is below MAHA_MAX) and the increments are
    not all exactly zero"""
    d = 2 * dim
    sig, F = sigmas(dim, T, q), F_closed(dim, T)
    L0i = np.linalg.inv(np.linalg.cholesky(np.kron(np.eye(dim), Q0_BLOCK)))
    steps, zeros = 0, 0
    for i in sorted(seen):
        if i + 1 not in seen:
            continue
        xi, xn = seen[i].reshape(-1), seen[i + 1].reshape(-1)
        delta = xn - F @ xi
        e = (d + 2) * EPS * (np.abs(xn) + np.abs(F) @ np.abs(xi))
        w = L0i @ (delta / sig)
        m, nw = float(w @ w), float(np.linalg.norm(np.abs(L0i) @ (e / sig)))
        steps += 1; zeros += int(m == 0.0)
        if not math.sqrt(m) <= math.sqrt(MAHA_MAX) + nw:
            v.append(("C16:trajectory-step-not-motion:Dim=%s" % DIMNAME[dim],
                      "x_%d - F x_%d has Mahalanobis length^2 %.6g under Q (a draw of N(0, Q) stays below %g; rounding allowance %.3g sigmas)" % (i + 1, i, m, MAHA_MAX, nw)))
            return
    if steps >= 3 and zeros == steps:
        v.append(("C16:trajectory-step-not-motion:Dim=%s" % DIMNAME[dim], "all %d served increments x_{k+1} - F x_k are exactly zero: no noise" % steps))


def oracle_sim(c, impl, model):
    v = []
    dn = DIMNAME[c.get("dim")]
    ctor = impl.get("ctor"); ctor = ctor[0] if ctor else None
    if c.get("len") == 0:
        if ctor != "throws_empty":
            v.append((ZERO_LENGTH_SIG, "simulation_time = 0: constructor outcome %s, it must throw ERROR::SIMULATEDSTATEMODEL::CTOR" % ctor))
        return v
    if ctor != "ok":
        v.append(("C16:trajectory-ctor-rejects-valid-length", "simulation_time = %d: constructor outcome %s" % (c.get("len"), ctor)))
        return v
    _wna_common(c, impl, v)
    n = c.get("len")
    x0 = c.get("x0").reshape(-1)
    rd = impl.get("ref_diff_at")
    if rd is not None and rd >= 0:
        causes = (["moved"] if _geti(c, "premove", -1) >= 0 else []) + (["other-objects"] if _geti(c, "intrude") else [])
        v.append(("C16:%s-differs-from-identically-built-one:%s" % ("sensor" if c.kind == "sensor" else "trajectory", "+".join(causes) or "plain"),
                  "call %d (%s): not the value returned by a pipeline built from the same arguments%s" % (rd, c.get("ops")[rd],
                   "".join({"other-objects": ", used while no other object is", "moved": ", whose state model was not moved"}[x] for x in causes))))
    seen = {}            # trajectory as served by the implementation itself: index -> state
    # x_{k+1} = F x_k + L z_k against the mirrored draws is compared with the model (correspondence); here:
    # x_0 is the given state, the states are served in order, identically after every reset, the end is reported
    if c.kind == "sim":
        if impl.get("data_init_empty") != 1:
            v.append(("C16:trajectory-data-before-first-call", "getData() holds a value before the first bufferData()"))
        cur, last = 0, None
        for k, op in enumerate(c.get("ops")):
            ret = impl.get("ret%d" % k)
            got = impl.get("data%d" % k)
            if op == "b":
                want = 1 if cur < n else 0
                if ret != want:
                    v.append(("C16:trajectory-end-not-reported" if want == 0 else "C16:trajectory-serving-refused",
                              "call %d (bufferData, %d served since reset, length %d) returned %s" % (k, cur, n, ret)))
                    return v
                if want:
                    if got is None or got.shape != (len(x0), 1):
                        v.append(("C16:trajectory-not-served-in-order:Dim=%s" % dn, "after call %d getData() has shape %s" % (k, None if got is None else got.shape))); return v
                    if cur == 0 and not np.array_equal(got.reshape(-1), x0):
                        v.append(("C16:trajectory-not-served-in-order:Dim=%s" % dn, "the first state served after call %d is not the initial state" % k)); return v
                    if cur in seen and not np.array_equal(got, seen[cur]):
                        v.append(("C16:trajectory-not-served-in-order:Dim=%s" % dn, "call %d serves index %d with a state different from the one served for it before the reset" % (k, cur))); return v
                    seen.setdefault(cur, got)
                    last = got; cur += 1
            elif op == "r":
                if ret != 1:
                    v.append(("C16:trajectory-reset-refused", "setProperty(reset) returned %s" % ret))
                cur = 0
            elif ret != 0:
                v.append(("C16:trajectory-unknown-property-accepted", "setProperty(other) returned %s" % ret))
            if last is not None:
                if got is None or not np.array_equal(got, last):
                    v.append(("C16:trajectory-not-served-in-order:Dim=%s" % dn, "after call %d (%s) getData() is not the state served last" % (k, op)))
                    return v
            elif impl.get("data%d_empty" % k) != 1:
                v.append(("C16:trajectory-data-before-first-call", "getData() holds a value before the first successful bufferData()"))
        _increment_clause(v, c.get("dim"), *c.get("Tq")[0], seen)
        return v
    # sensor
    idxs = [int(s) for s in c.get("idxs")]
    m, d = len(idxs), 2 * c.get("dim")
    H = impl.get("H")
    if H is None or not np.array_equal(H, _selector(d, idxs)):
        v.append(("C16:selector-matrix", "sensor H is not the 0/1 selector of %s" % idxs)); return v
    LR = impl.get("sqrtR"); R = c.get("R")
    if LR is None or LR.shape != (m, m) or not _factor_ok(LR, R)[0]:
        v.append(("C16:sensor-noise-cov-not-R", "sqrt_R sqrt_R^T != R")); return v
    desc = (impl.get("meas_size"), impl.get("meas_lin"), impl.get("meas_circ"), impl.get("input_size"), impl.get("input_noise"))
    if desc != (m, m, 0, d + m, m):
        v.append(("C16:sensor-descriptions", "measurement (size, linear, circular) and input (size, noise) descriptions %s, documented %s for %d measured components of a %d-state linear model" % (desc, (m, m, 0, d + m, m), m, d)))
    cur, last = 0, None
    for k, op in enumerate(c.get("ops")):
        ret = impl.get("ret%d" % k)
        got = impl.get("meas%d" % k)
        if op == "f":
            want = 1 if cur < n else 0
            if ret != want:
                v.append(("C16:sensor-freeze-forwarding", "call %d (freeze, %d served since reset, length %d) returned %s" % (k, cur, n, ret)))
                return v
            if want:
                if got is None or got.shape != (m, 1) or not np.all(np.isfinite(got)):
                    v.append(("C16:sensor-measurement-shape:m=%d" % m, "after call %d measure() has shape %s" % (k, None if got is None else got.shape))); return v
                last = got; cur += 1
        elif op == "r":
            cur = 0
        if last is None:
            if got is not None and got.size:
                v.append(("C16:sensor-measurement-before-freeze", "measure() holds a value before the first successful freeze"))
        elif got is None or not np.array_equal(got, last):
            v.append(("C16:sensor-measurement-not-kept", "after call %d (%s) measure() differs from the measurement of the last successful freeze" % (k, op)))
            return v
        if impl.get("meas%d_valid" % k) != 1:
            v.append(("C16:sensor-measure-invalid", "measure() reported invalid"))
    # measurement = H x_k + sqrt_R * (mirrored draws) is compared with the model; its distribution in lin_stat cases
    return v


def oracle_ltisim(c, impl, model):
    """mirror-free: x_0 is the given state, x_{k+1} = F x_k + w_k on the states the implementation itself served (one-step
    forward-error bound), served in order, restarting on reset, the end reported; the sensor's descriptions count the
    measured components below / at or above the number of linear state components; measure() - H x_k is a plausible draw
    of N(0, R)"""
    v = []
    n_, sensor, ops = c.get("len"), c.get("sensor"), c.get("ops")
    F, W, x0 = c.get("F"), c.get("W"), c.get("x0")
    n = F.shape[0]
    lin, circ = c.get("lin"), c.get("circ")
    idxs = [int(s_) for s_ in c.get("idxs")]; m = len(idxs)
    if sensor:
        H = impl.get("H")
        if H is None or not np.array_equal(H, _selector(n, idxs)):
            v.append(("C16:selector-matrix", "sensor H is not the 0/1 selector of %s" % idxs)); return v
        LR, R = impl.get("sqrtR"), c.get("R")
        if LR is None or LR.shape != (m, m) or not _factor_ok(LR, R)[0]:
            v.append(("C16:sensor-noise-cov-not-R", "sqrt_R sqrt_R^T != R")); return v
        ml = sum(1 for i in idxs if i < lin)
        got = tuple(impl.get(f) for f in ("meas_size", "meas_lin", "meas_circ", "input_size", "input_lin", "input_circ", "input_noise"))
        want = (m, ml, m - ml, n + m, lin, circ, m)
        if got != want:
            v.append(("C16:sensor-descriptions", "measurement (size, linear, circular) and input (size, linear, circular, noise) descriptions %s, documented %s for components %s of a state with %d linear and %d circular components" % (got, want, idxs, lin, circ)))
    seen, cur, last = {}, 0, None
    for k, op in enumerate(ops):
        ret, got = impl.get("ret%d" % k), impl.get("data%d" % k)
        if op in ("b", "f"):
            want = 1 if cur < n_ else 0
            if ret != want:
                v.append(("C16:trajectory-end-not-reported" if want == 0 else "C16:trajectory-serving-refused", "call %d (%d served since reset, length %d) returned %s" % (k, cur, n_, ret)))
                return v
            if want:
                if got is None or got.shape != (n, 1):
                    v.append(("C16:trajectory-not-served-in-order:user-model", "after call %d getData() has shape %s" % (k, None if got is None else got.shape))); return v
                if cur == 0 and not np.array_equal(got, x0):
                    v.append(("C16:trajectory-not-served-in-order:user-model", "the first state served after call %d is not the initial state" % k)); return v
                if cur in seen and not np.array_equal(got, seen[cur]):
                    v.append(("C16:trajectory-not-served-in-order:user-model", "call %d serves index %d with a state different from the one served for it before the reset" % (k, cur))); return v
                if cur > 0 and cur - 1 in seen and cur not in seen:
                    xp = seen[cur - 1].reshape(-1)
                    b = 2 * G_PROD * n * EPS * (np.abs(F) @ np.abs(xp) + np.abs(W[:, cur - 1]))
                    e = _cw(got.reshape(-1), F @ xp + W[:, cur - 1], b, "x_%d" % cur)
                    if e:
                        v.append(("C16:trajectory-step-not-motion:user-model", "x_%d is not F x_%d + w_%d: %s" % (cur, cur - 1, cur - 1, e))); return v
                seen.setdefault(cur, got)
                last = got; cur += 1
                if sensor:
                    y = impl.get("meas%d" % k)
                    if y is None or y.shape != (m, 1):
                        v.append(("C16:sensor-measurement-shape:m=%d" % m, "after call %d measure() has shape %s" % (k, None if y is None else y.shape))); return v
                    sd = np.sqrt(np.diag(R))
                    resid = (y.reshape(-1) - got.reshape(-1)[idxs]) / sd
                    R0 = R / np.outer(sd, sd)
                    mh = float(resid @ np.linalg.solve(R0, resid))
                    slack = float(np.linalg.norm(4 * EPS * np.abs(got.reshape(-1)[idxs]) / sd)) * math.sqrt(np.linalg.cond(R0))
                    if not math.sqrt(mh) <= math.sqrt(MAHA_MAX) + slack:
                        v.append(("C16:sensor-measurement-not-Hx-plus-noise:user-model", "call %d: measure() - H x_k has Mahalanobis length^2 %.6g under R (a draw of N(0, R) stays below %g)" % (k, mh, MAHA_MAX))); return v
        elif op == "r":
            if ret != 1:
                v.append(("C16:trajectory-reset-refused", "setProperty(reset) returned %s" % ret))
            cur = 0
        elif ret != 0:
            v.append(("C16:trajectory-unknown-property-accepted", "setProperty(other) returned %s" % ret))
        if last is not None and (got is None or not np.array_equal(got, last)):
            v.append(("C16:trajectory-not-served-in-order:user-model", "after call %d (%s) getData() is not the state served last" % (k, op))); return v
        if last is None and impl.get("data%d_empty" % k) != 1:
            v.append(("C16:trajectory-data-before-first-call", "getData() holds a value before the first successful bufferData()"))
    return v


def _grid_clauses(v, area, ctor4, nx, ny, rows, np_, ret, st0, w0, st, w, comps, where=""):
    """the documented behaviour of one initialize() call on a set holding (st0, w0)"""
    a = area
    xi, xs, yi, ys = (0.0, a[1], 0.0, a[3]) if ctor4 else a
    ok = np_ == nx * ny and rows == 4
    if ret != int(ok):
        v.append(("C16:grid-refusal" + ("" if rows == 4 else ":rows"), "%s%d particles with %d state rows for a %d x %d grid: initialize returned %s" % (where, np_, rows, nx, ny, ret)))
        return
    if not ok:
        if not np.array_equal(st, st0) or not np.array_equal(w, w0):
            v.append(("C16:grid-refusal-modifies", "%sa refused initialisation changed the particle set" % where))
        return
    wantw = np.full((np_, 1), -math.log(np_))
    if min(nx, ny) < 2:
        # outside the property's domain: the code divides 0 by 0; only the correspondence check speaks about it
        if w is None or w.shape != (np_, 1) or _rel(w, wantw, 8 * EPS, "w"):
            v.append(("C16:grid-weights", "%sweights are not -ln(%d)" % (where, np_)))
        return
    want = np.zeros((4, np_))
    for i in range(nx):
        for j in range(ny):
            want[:, i * ny + j] = [xi + i * (xs - xi) / (nx - 1), 0.0, yi + j * (ys - yi) / (ny - 1), 0.0]
    e = _cw(st, want, _grid_bound(area, ctor4, 4, np_), "state")
    if e:
        v.append(("C16:grid-positions", "%sparticles are not on the %d x %d regular grid spanning [%g,%g] x [%g,%g] with zero velocities: %s" % (where, nx, ny, xi, xs, yi, ys, e)))
    if w is None or w.shape != (np_, 1) or _rel(w, wantw, 8 * EPS, "w"):
        v.append(("C16:grid-weights", "%sweights are not -ln(%d)" % (where, np_)))
    if comps != np_:
        v.append(("C16:grid-particle-count", "%scomponents = %s" % (where, comps)))


def oracle_grid(c, impl, model):
    v = []
    _grid_clauses(v, c.get("area")[0], c.get("ctor4"), c.get("nx"), c.get("ny"), 4, c.get("np"), impl.get("ret"), c.get("st0"), c.get("w0"),
                  impl.get("state"), impl.get("weight"), impl.get("components"))
    return v


def oracle_gridseq(c, impl, model):
    v = []
    for k in range(c.get("steps")):
        t = str(k)
        si, i = c.get("set" + t), c.get("init" + t)
        _grid_clauses(v, c.get("area%d" % i)[0], c.get("ctor4_%d" % i), c.get("nx%d" % i), c.get("ny%d" % i), c.get("rows%d" % si), c.get("np%d" % si),
                      impl.get("ret" + t), impl.get("pre_state" + t), impl.get("pre_weight" + t), impl.get("state" + t), impl.get("weight" + t),
                      impl.get("components" + t), "call %d (initialiser %d, set %d): " % (k, i, si))
        if c.get("fill" + t) and (not np.array_equal(impl.get("pre_state" + t), c.get("st" + t)) or not np.array_equal(impl.get("pre_weight" + t), c.get("w" + t))):
            v.append(("C16:harness", "call %d: the particle set does not hold what the harness wrote into it" % k))
        if v:
            break
    return v


CONC_WHAT = {"linmodel": "sensor models", "sim": "simulated trajectories", "sensor": "simulated sensors", "gridseq": "grid initialisers"}


def oracle(c, impl, model):
    v = _oracle(c, impl, model)
    if c.kind in CONC_WHAT and impl.has("concurrent_ok") and impl.get("concurrent_ok") != 1:
        v.append(("C16:objects-interfere-across-threads:%s" % c.kind, "three %s with their own parameters and seeds, used from three threads, do not return their sequential results" % CONC_WHAT[c.kind]))
    return v


def _oracle(c, impl, model):
    if c.kind == "wna":
        return oracle_wna(c, impl, model)
    if c.kind == "wna_stat":
        return oracle_wna_stat(c, impl, model)
    if c.kind == "lin_stat":
        return oracle_lin_stat(c, impl, model)
    if c.kind in ("lti_state", "lti_meas"):
        return oracle_ctor(c, impl, model)
    if c.kind == "linmodel":
        return oracle_linmodel(c, impl, model)
    if c.kind in ("sim", "sensor"):
        return oracle_sim(c, impl, model)
    if c.kind == "grid":
        return oracle_grid(c, impl, model)
    if c.kind == "gridseq":
        return oracle_gridseq(c, impl, model)
    if c.kind == "ltisim":
        return oracle_ltisim(c, impl, model)
    return []


def on_crash(c, info, model):
    """An Eigen assertion (size mismatch / index out of range) inside a library call."""
    import re
    if info.get("kind") not in ("eigen-assert", "asan", "ubsan"):
        return None
    m = re.search(r"entry=(\S+)", info.get("stderr", ""))
    entry = m.group(1) if m else "unknown"
    dn = DIMNAME.get(c.get("dim")) if c.has("dim") else None
    detail = "%s inside %s: %s" % (info["kind"], entry, info.get("stderr", "")[-300:].replace("\n", " "))
    se = info.get("stderr", "")
    product = "Product.h" in se or "invalid matrix product" in se or "CwiseBinaryOp.h" in se
    block = "Block.h" in se or "DenseCoeffsBase.h" in se or "MapBase.h" in se
    if entry == "SimulatedStateModel::SimulatedStateModel" and c.has("len") and c.get("len") == 0:
        return [(ZERO_LENGTH_SIG, "simulation_time = 0: " + detail)]
    if entry in ("WhiteNoiseAcceleration::getNoiseSample", "WhiteNoiseAcceleration::motion", "SimulatedStateModel::SimulatedStateModel"):
        return [("C16:noise-sample-rows:Dim=%s" % dn, detail)]
    if entry == "LinearModel::getNoiseSample" or (entry == "SimulatedLinearSensor::freeze" and product):
        return [("C16:sensor-noise-sample-rows:m=%s" % c.meta.get("m"), detail)]
    if entry in ("SimulatedStateModel::bufferData", "SimulatedLinearSensor::freeze") and (block or info.get("kind") == "asan"):
        return [("C16:trajectory-read-past-end", detail)]
    if entry in ("LinearModel::LinearModel", "SimulatedLinearSensor::SimulatedLinearSensor") and block:
        return [("C16:selector-validation:Index-accepted", detail)]
    if entry == "InitSurveillanceAreaGrid::initialize":
        return [("C16:grid-refusal:rows" if c.kind == "gridseq" else "C16:grid-positions", detail)]
    if entry.startswith("WhiteNoiseAcceleration::motion"):
        return [("C16:motion-shape:Dim=%s" % dn, detail)]
    if entry.startswith("WhiteNoiseAcceleration::getTransitionProbability"):
        return [("C16:transition-density-shape:Dim=%s" % dn, detail)]
    if entry == "WhiteNoiseAcceleration::getTransitionProbability":
        return [("C16:transition-density-shape:Dim=%s" % dn, detail)]
    return None


def histogram(cases):
    h = {}
    for c in cases:
        if c.kind == "wna":
            key = "wna Dim=%s T~1e%+03d" % (c.meta["dim"], 3 * (gen.decade(float(c.meta["T"])) // 3))
            for o in set(str(c.meta.get("ops", ""))) & set("sbucav"):
                h["wna op %s" % o] = h.get("wna op %s" % o, 0) + 1
            for f in ("intrude", "conc"):
                if str(c.meta.get(f)) == "1":
                    h["wna %s" % f] = h.get("wna %s" % f, 0) + 1
        elif c.kind in ("lti_state", "lti_meas", "linmodel"):
            key = "%s %s" % (c.kind, expected_outcome(c))
        elif c.kind in ("sim", "sensor"):
            key = "%s len<=%d" % (c.kind, 10 * ((int(c.meta["len"]) + 9) // 10))
            hk = "%s history %s" % (c.kind, c.meta.get("hist", "random"))
            h[hk] = h.get(hk, 0) + 1
        elif c.kind == "gridseq":
            key = "gridseq steps=%s" % c.meta.get("steps")
        elif c.kind == "ltisim":
            key = "ltisim lin=%s circ=%s sensor=%s" % (c.meta.get("lin"), c.meta.get("circ"), c.meta.get("sensor"))
        elif c.kind == "grid":
            key = "grid ok=%s" % c.meta["ok"] + (" degenerate" if min(int(c.meta["nx"]), int(c.meta["ny"])) < 2 else "")
        else:
            key = c.kind
        h[key] = h.get(key, 0) + 1
    h.update({k: (round(x, 4) if isinstance(x, float) else x) for k, x in STATS.items()})    # probes run / rejected, density pairs judged / excluded, worst measured difference / bound
    return h


LEVEL_TEXT = ("Proof: the models of WhiteNoiseAcceleration (F, Q, LDLT-based sampling, motion, transition density), of the LTI / LinearModel "
              "constructors, of SimulatedStateModel / SimulatedLinearSensor (over the shipped model and over any user-defined additive linear model) and of "
              "InitSurveillanceAreaGrid are proved, for every real field and all sizes, call sequences and trajectory lengths, to have the documented closed forms "
              "(block-diagonal F and Q, Q SPD, samples L Z of the state dimension with L Z Z^T L^T = Q, N(cur; F prev, Q), exact constructor rejection classes, 0/1 selector, "
              "H x_k + L_R z, in-order serving with the end reported, regular grid with uniform weights, refusal of wrong counts and of states that are not 4 rows). "
              "Every extracted entry point is proved to represent the MathComp model of those theorems (C16_executed_*, axiom-free). The models are tied to the code by "
              "running the extracted model and the library on the same generated cases.")
LEVEL_NOTE = ("Trusted: Coq kernel, MathComp, extraction + float driver, harness (RNG mirror, factor observation, reference objects, thread / re-entrancy probes) "
              "and tolerances; rounding is not modelled; the tie to the code is sampled. Distributional claims reduce to the algebraic identity plus the stated RNG assumption.")
