"""C17 — estimate extraction and its sliding window (DESIGN.md §5 C17).

Cases are operation sequences on ONE real object: kind "est" drives an EstimatesExtraction
(extract/2, extract/5, setMethod, setMobileAverageWindowSize, clear) and observes, after
every call, the returned pair and — through a subclass — the history buffer, the window, the
method and the three cached weight vectors; kind "hb" drives a HistoryBuffer directly
(addElement, setHistorySize, decrease/increaseHistorySize, clear, getHistoryBuffer)."""
import itertools, math
import numpy as np
from vlib import caseio, gen, runner

ID = "C17"
COQ_PREFIXES = ["C17", "C19"]       # C17_Model imports C19_Model (dir_mean), C17_Proofs imports C19_ROps
COQ_TARGETS = ["C17_Extract.vo", "C17_Proofs.vo", "C17_Regress.vo"]
EXTRACTED = "C17_model"
DRIVER = "drv_C17.ml"
HARNESS = "h_C17.cpp"
VARIANTS = {"quick": ["assert"], "thorough": ["assert", "asan"]}
AXIOMS_ALLOWED = runner.REAL_AXIOMS
REQUIRED_THEOREMS = [
    "C17_hist_inv", "C17_est_hist_inv", "C17_shrink_keeps_recent", "C17_window_clamped", "C17_add_pushes_front",
    "C17_clear_empties", "C17_mean_linear", "C17_mean_circular", "C17_mode_is_max", "C17_map_is_argmax",
    "C17_map_score_meaning", "C17_window_weights", "C17_cache_coherent", "C17_windowed_is_convex_combination",
    "C17_history_is_recent_calls", "C17_stored_count", "C17_stored_fixed_window", "C17_map_without_args_unavailable",
    "C17_extract_value", "C17_set_window_spec", "C17_windowed_extract_end_to_end", "C17_min_calls_window_refuted",
    "C17_mean_circular_on_circle", "C17_windowed_circular_on_circle", "C17_move_target_is_source", "C17_moved_from_out_of_scope",
]
RULE = ("operation sequences on one object; kind est: ops from {extract/2, extract/5, setMethod(12 methods), "
        "setMobileAverageWindowSize(w in {-1,0,1,2,3,5,29,30,31,100} and 2..8), clear, move-construct, move-assign, std::vector growth (from fresh and used objects)}, particle "
        "sets N in 1..20 (8% of the calls 21..200) with linear 0..3 + circular 0..2 rows (15% up to 8 + 5); per-case flavour: plain "
        "(normalised log-weights, unique maximum), zeros (exact zero weights = -inf, also all previous weights -inf), ties (exact ties "
        "in weights / map scores), unnormalised (outside the premise: correspondence and the un-normalised clauses), cancel (pairs of "
        "opposite phasors, relative resultant down to 1e-7), spread (C17-r7: headings evenly spaced with one heavier particle / three at 0, "
        "+-2pi/3 with one off / antipodal pairs / closed polygons of random weights, imbalance 1e-11.5..1e-6.5, as particle sets for mean and the "
        "windowed means and as window histories for all nine windowed methods, where every particle of call i carries the heading h_i), units (35% "
        "of the plain/zeros/unnormalised cases: every linear coordinate in its own unit 1e-12..1e12, likelihoods 1e-300..1e5, transition "
        "densities 1e-150..1e3 also per previous particle, log-weights down to -1000), twin (30%: an independent object with another window / "
        "method / data extracts between the subject's calls); every tolerance is derived per row from the case (linear: (n+4)u sum|w x|; "
        "circular: rounding of the two weighted sums, (n+8)u sum|w|, over the modulus of the resultant, reference in 80-bit extended precision; "
        "circular rows whose derived tolerance exceeds 1e-3 rad are excluded and counted), single "
        "(one particle / one stored estimate at 7.0 / -9.5 rad: principal value expected); likelihoods / transition matrices with zeros; kind hb: ops from {add, set(w), dec, "
        "inc, clear, move-construct, move-assign}; "
        "both tiers start with a hand-picked corpus (inputs of past failures, saturation, unsigned wrap, shared history) and end "
        "with exact-tie cases for plain mode/map (compared by index: first maximiser); "
        "quick: random sequences of length <= 12 (+ a few long fills), thorough: additionally exhaustive sequences of "
        "length <= 3 after prefills {0,1,3,6,31} and random sequences of length <= 60; non-trivial = a sequence with a "
        "windowed extract or a window change on a non-empty buffer; distinct by (kind, lin, circ, methods used, "
        "window values set, shrunk-while-non-empty, max stored)")
TRUSTED_BASE = ["Coq 8.16.1 kernel (coqc); list/nat theorems closed under the global context, real-valued theorems under the 4 "
                "standard axioms of Coq's Reals (sig_forall_dec, sig_not_dec, functional_extensionality_dep, classic)",
                "C19_ROps.v (R instance of SOps; atan2 defined from atan, polar contract proved) and C19_Model.v (dir_mean)",
                "extraction (ExtrOcamlBasic only) and ocaml/float_ops.ml, ocaml/drv_C17.ml, ocaml/caseio.ml",
                "cpp/h_C17.cpp harness (protected members reached by subclassing), props/C17.py oracle (numpy closed forms, reference sums and map scores in 80-bit extended precision) and the derived tolerances (circ_tol, lin_tol)",
                "correspondence is sampled: agreement is established on the generated operation sequences only",
                "IEEE rounding is not modelled (theorems over R); std::exp/log/sin/cos/atan2 are taken as the real functions"]
ASSUMPTIONS = ["particles has linear+circular rows and as many columns as weights has entries (likelihoods, transition rows likewise); "
               "objects are not used after being moved from",
               "Eigen maxCoeff(&i) reports the FIRST maximum (its visitor moves on strictly greater values only): checked by index, "
               "against the model's first maximiser, on every mode/map case including the exact-tie cases (flavour ties, tag tie)",
               "zero weights (log-weight -inf) are the limit of the theorems' positive weights: covered by correspondence and the numpy oracle only; "
               "a previous-weight vector that is entirely -inf makes every coded map score NaN (not a normalised weight vector: outside the property, "
               "correspondence only)",
               "move construction / assignment: the target is the source state (C17_move_target_is_source, exercised by the mv / ma operations); "
               "using the moved-from object (window 0, C17_moved_from_out_of_scope) is out of scope"]

METHODS = ["mean", "smean", "wmean", "emean", "mode", "smode", "wmode", "emode", "map", "smap", "wmap", "emap"]
STAT = {m: ("mean" if "mean" in m else "mode" if "mode" in m else "map") for m in METHODS}
VAR = {m: (None if m in ("mean", "mode", "map") else m[0]) for m in METHODS}
WINDOWS = [-1, 0, 1, 2, 3, 5, 29, 30, 31, 100]
TWO_PI = 2 * math.pi


# ------------------------------------------------------------------ spec-level functions (numpy)

def clamp(w):
    return 2 if w < 2 else 30 if w >= 30 else w


def win_weights(v, n):
    i = np.arange(n, dtype=float)
    if v == "s":
        return np.full(n, 1.0 / n)
    if v == "w":
        return (n - i) / (n * (n + 1) / 2.0)
    e = np.exp(-i / n)
    return e / e.sum()


U = 2.0 ** -53          # unit round-off of IEEE doubles
LD = np.longdouble      # 80-bit extended (eps 1.08e-19): the reference sums are evaluated there
CIRC_FLOOR = 1e-12      # rad: no circular clause is judged finer than this
CIRC_LIMIT = 1e-3       # rad: a circular clause whose derived tolerance exceeds this is excluded and counted


def circ_tol(n, sumw, R, sides=1, extra=0):
    """Bound on the error of arg(sum_k w_k e^{j a_k}) evaluated in doubles, derived from the case: each of the two weighted
    sums carries at most (n + 8) u sum|w| (n - 1 additions, the product, exp of the log-weight and sin / cos at one ulp
    each, with margin), so the resultant moves by at most sqrt(2) times that and its argument by asin(move / |resultant|);
    plus the rounding of atan2.  `sides` = 2 when two double evaluations are compared with each other, `extra` = further relative error of the
    weights in units of u (window weights that each side computes itself)."""
    if not (R > 0) or not math.isfinite(R):
        return math.inf if not (R > 0) else 4e-15
    x = sides * math.sqrt(2.0) * (n + 8 + extra) * U * sumw / R
    return (math.asin(x) if x < 1.0 else math.inf) + 2e-15


def lin_tol(Prow, w, sides=1):
    """Bound on the error of sum_k w_k x_k in doubles (any summation order): (n + 4) u sum|w_k x_k|."""
    return sides * (Prow.size + 4) * U * float(np.sum(np.abs(w) * np.abs(Prow)))


def wmean(P, w, lin, circ):
    """Weighted mean of the columns of P with linear-domain weights w, evaluated in extended precision:
    (values, per circular row the modulus of the resultant sum_k w_k e^{j a_k} (inf for a single column),
    per row the derived tolerance of ONE double evaluation of that row)."""
    d = lin + circ
    out, res, tol = np.zeros(d), [], np.zeros(d)
    n = P.shape[1]
    wl = np.asarray(w, LD)
    sumw = float(np.sum(np.abs(wl)))
    for r in range(lin):
        out[r] = float(np.sum(wl * np.asarray(P[r], LD)))
        tol[r] = lin_tol(P[r], np.asarray(w, float))
    for r in range(lin, d):
        a = np.asarray(P[r], LD)
        if n == 1:
            # directional_mean, one column: the principal value of the angle (/repo dee9c81)
            out[r] = float(np.arctan2(np.sin(a[0]), np.cos(a[0]))); res.append(math.inf); tol[r] = 4e-15
        else:
            s, c = np.sum(wl * np.sin(a)), np.sum(wl * np.cos(a))
            R = float(np.hypot(s, c))
            out[r] = float(np.arctan2(s, c)); res.append(R); tol[r] = circ_tol(n, sumw, R)
    return out, res, tol


def map_scores(PW, L, T):
    """(lik_i + eps) * sum_j (T_ij + eps) * exp(pw_j), in the linear domain, in extended precision (exponent range
    1e-4932: densities that underflow as a product in doubles do not underflow here)."""
    eps = np.finfo(float).tiny
    return np.asarray(np.asarray(L + eps, LD) * (np.asarray(T + eps, LD) @ np.exp(np.asarray(PW, LD))), LD)


def circ_diff(a, b):
    return (a - b + math.pi) % TWO_PI - math.pi


NEAR_BOUNDARY_SKIPPED = 0
OUTSIDE_PROPERTY = 0


CIRC_JUDGED_SHORT = 0
WORST_RATIO = {"oracle-linear": 0.0, "oracle-circular": 0.0, "corr-linear": 0.0, "corr-circular": 0.0}   # max difference / tolerance seen


def _ratio(key, d, t):
    if t > 0 and math.isfinite(d):
        WORST_RATIO[key] = max(WORST_RATIO[key], d / t)


def vec_close(a, b, lin, tols, res=None):
    """a = what the implementation returned, b = the extended-precision reference, tols = the derived tolerance of every
    row (wmean).  Linear rows absolutely; circular rows modulo 2 pi, never finer than CIRC_FLOOR; a circular row whose
    derived tolerance exceeds CIRC_LIMIT (resultant at the round-off level: no defined mean) is skipped and counted.
    Returns (True | "linear" | "circular" = first failing kind of row, skipped, worst excess, text)."""
    a, b = np.asarray(a, float).reshape(-1), np.asarray(b, float).reshape(-1)
    if a.shape != b.shape:
        return "linear", 0, math.inf, "shape"
    global NEAR_BOUNDARY_SKIPPED, CIRC_JUDGED_SHORT
    worst, skipped, ok, txt = 0.0, 0, True, ""
    for r in range(a.size):
        if r < lin:
            d = abs(a[r] - b[r]); t = 2.0 * tols[r]
            if not (np.isfinite(a[r]) and np.isfinite(b[r])):
                d = 0.0 if (a[r] == b[r] or (np.isnan(a[r]) and np.isnan(b[r]))) else math.inf
        else:
            t = max(2.0 * tols[r], CIRC_FLOOR)
            if not (t <= CIRC_LIMIT):
                skipped += 1; NEAR_BOUNDARY_SKIPPED += 1; continue
            d = abs(circ_diff(a[r], b[r]))
            if not np.isfinite(d):
                d = math.inf
            if res is not None and res[r - lin] < 1e-6:
                CIRC_JUDGED_SHORT += 1
        _ratio("oracle-linear" if r < lin else "oracle-circular", d, t)
        if not (d <= t):
            if ok is True:
                ok = "linear" if r < lin else "circular"
                txt = "row %d: |difference| %.3g, derived tolerance %.3g" % (r, d, t)
        worst = max(worst, d)
    return ok, skipped, worst, txt


# ------------------------------------------------------------------ generators

def norm_logw(rng, n, peaked=False, zeros=False, ties=False, unnormalised=False, tiny=False):
    """Log-weights.  Default: normalised, unique maximum.  zeros: some weights exactly 0 (log-weight -inf);
    ties: the maximum is attained several times (exactly); unnormalised: the weights do not sum to one
    (outside the property's premise: correspondence and the un-normalised clauses only)."""
    while True:
        if peaked:
            w = np.array([10 ** rng.uniform(-12, 0) for _ in range(n)])
        else:
            w = np.array([rng.random() + 0.05 for _ in range(n)])
        if zeros and n > 1:
            for j in rng.sample(range(n), rng.randint(1, n - 1)):
                w[j] = 0.0
        if ties and n > 1:
            top = 2.0 * float(w.max())
            for j in rng.sample(range(n), rng.randint(2, min(n, 4))):
                w[j] = top
        w = w / w.sum()
        if unnormalised:
            w = w * 10 ** rng.uniform(-3, 2)
        s = np.sort(w)
        if n == 1 or ties or (s[-1] - s[-2]) > 1e-6 * s[-1]:
            with np.errstate(divide="ignore"):
                lw = np.log(w)
            if tiny and n > 2 and not unnormalised:
                # weights far below the round-off of the others, down to where exp underflows (log-weight < -745):
                # still a normalised set to double precision
                for j in rng.sample(range(n), rng.randint(1, n - 2)):
                    if lw[j] < lw.max():
                        lw[j] = -rng.uniform(40.0, 1000.0)
            return lw


class EstGen:
    """Draws the operands of extract calls for one case.  By default every circular row is clustered around a
    per-case centre, so that directional means (of particles and of the stored estimates) are well conditioned;
    `cancel` makes the phasors of a particle set nearly cancel (pairs a, a + pi - delta with equal weights)."""

    def __init__(self, rng, lin, circ, flavour="plain", big=0.0):
        self.rng, self.lin, self.circ, self.flavour, self.big = rng, lin, circ, flavour, big
        self.scale = 10 ** rng.uniform(-1, 2)
        self.centre = [rng.uniform(-math.pi, math.pi) for _ in range(circ)]
        self.spread = rng.choice([0.05, 0.5, 1.0])
        self.wrapk = rng.choice([0, 0, 1, -2])      # some cases carry angles outside (-pi, pi]
        # physical units: every linear coordinate in its own unit over 24 orders of magnitude; likelihoods / transition
        # densities of any magnitude (their product underflows in doubles; the code works in the log domain)
        self.units = flavour in ("plain", "zeros", "unnormalised") and rng.random() < 0.35
        self.rowscale = np.array([10 ** rng.uniform(-12, 12) for _ in range(lin)]) if self.units else np.full(lin, self.scale)
        self.lmag = 10 ** rng.uniform(-300, 5) if self.units else 1.0
        self.tmag = 10 ** rng.uniform(-150, 3) if self.units else 1.0

    def particles(self, n):
        g = gen.nprng(self.rng)
        P = np.zeros((self.lin + self.circ, n))
        P[:self.lin] = g.standard_normal((self.lin, n)) * self.rowscale.reshape(-1, 1)
        for r in range(self.circ):
            P[self.lin + r] = self.centre[r] + g.uniform(-self.spread, self.spread, n) + TWO_PI * self.wrapk
        return P

    def draw_n(self):
        rng = self.rng
        u = rng.random()
        if u < 0.45:
            return rng.choice([1, 1, 2, 3, 5, 8, 13, 20])
        if u < 1.0 - self.big:
            return rng.randint(1, 20)
        return rng.randint(21, 200)

    def extract_operands(self, c, k, five, P=None, W=None):
        rng = self.rng
        n = self.draw_n() if P is None else P.shape[1]
        P = self.particles(n) if P is None else P
        fl = self.flavour
        u = rng.random()
        if W is None:
            W = norm_logw(rng, n, peaked=u < 0.2, zeros=(fl == "zeros" and rng.random() < 0.7),
                          ties=(fl == "ties" and rng.random() < 0.7), unnormalised=(fl == "unnormalised"),
                          tiny=(self.units and rng.random() < 0.5))
        if fl == "cancel" and self.circ and n >= 2 and rng.random() < 0.7:
            # pairs of opposite phasors with equal weights: resultant of the order of delta
            delta = 10 ** rng.uniform(-7, -1)
            h = n // 2
            w = np.exp(W)
            for r in range(self.circ):
                P[self.lin + r, h:2 * h] = P[self.lin + r, :h] + math.pi - delta
            w[h:2 * h] = w[:h]
            if n % 2:
                w[-1] = w[:-1].sum() * 10 ** rng.uniform(-9, -3)
            W = np.log(w / w.sum())
        c.mat_shape("P%d" % k, self.lin + self.circ, n, P)
        c.mat_shape("W%d" % k, n, 1, W)
        if five:
            m = n if (rng.random() < 0.8 and n <= 40) else rng.randint(1, 20)
            g = gen.nprng(rng)
            for _ in range(100):
                PW = norm_logw(rng, m, zeros=(fl == "zeros" and rng.random() < 0.5), unnormalised=(fl == "unnormalised"))
                if fl == "zeros" and rng.random() < 0.1:
                    PW = np.full(m, -math.inf)      # all previous weights zero: log_sum_exp is NaN (outside the property)
                L = g.uniform(0.0, 1.0, n) * 10 ** rng.uniform(-3, 1) * self.lmag
                T = g.uniform(0.0, 1.0, (n, m)) * self.tmag
                if self.units and rng.random() < 0.3:
                    T = T * np.array([10 ** rng.uniform(-100, 0) for _ in range(m)])      # per previous particle
                if rng.random() < 0.3:
                    L[g.uniform(size=n) < 0.2] = 0.0
                    T[g.uniform(size=(n, m)) < 0.2] = 0.0
                if fl == "ties" and n > 1 and rng.random() < 0.7:
                    L[:] = 1.0; T[:, :] = 0.25
                    for j in rng.sample(range(n), rng.randint(2, min(n, 4))):
                        L[j] = 2.0
                    break
                sc = np.sort(map_scores(PW, L, T))
                if n == 1 or not np.isfinite(PW).any() or (sc[-1] - sc[-2]) > 1e-6 * sc[-1]:
                    break
            c.mat_shape("PW%d" % k, m, 1, PW)
            c.mat_shape("L%d" % k, n, 1, L)
            c.mat_shape("T%d" % k, n, m, T)


FLAVOURS = ["plain", "plain", "plain", "zeros", "ties", "unnormalised", "cancel"]


def est_case(rng, cid, lin, circ, tokens, tag, flavour=None):
    flavour = flavour or rng.choice(FLAVOURS)
    if flavour == "cancel" and circ == 0:
        flavour = "plain"
    c = caseio.Case(cid, "est", {"lin": lin, "circ": circ, "tag": tag, "nops": len(tokens), "flavour": flavour})
    c.word("ops", tokens)
    eg = EstGen(rng, lin, circ, flavour, big=(0.0 if tag == "exh" else 0.08))
    c.meta["units"] = int(eg.units)
    c.meta["twin"] = int(rng.random() < 0.3)      # an independent twin object works between the subject's calls (cpp/h_C17.cpp)
    for k, o in enumerate(tokens):
        if o in ("e2", "e5"):
            eg.extract_operands(c, k, o == "e5")
    return c


def hb_case(rng, cid, d, tokens, tag):
    c = caseio.Case(cid, "hb", {"d": d, "tag": tag, "nops": len(tokens)})
    c.word("ops", tokens)
    g = gen.nprng(rng)
    units = np.array([10 ** rng.uniform(-300, 300) for _ in range(d)]) if rng.random() < 0.3 else None
    for k, o in enumerate(tokens):
        if o == "a":
            c.mat_shape("X%d" % k, d, 1, g.standard_normal(d) * (3 if units is None else units))
    return c

# ---- short but well defined resultants (C17-r7): headings (almost) evenly spread over the circle / antipodal / closing a
#      polygon of the weights, with an imbalance of 1e-11.5 .. 1e-6.5 in one weight or one angle

def closed_polygon(rng, v):
    """angles a_k with sum_k v_k e^{j a_k} = 0 up to rounding, for positive v with max(v) <= sum(v) / 2 (None otherwise)."""
    v = np.asarray(v, float)
    m = v.size
    if m < 2 or 2 * v.max() > v.sum() * (1 + 1e-12):
        return None
    if m == 2:
        t = rng.uniform(-math.pi, math.pi)
        return np.array([t, t + math.pi])
    p, q = v[m - 2], v[m - 1]
    for _ in range(200):
        a = np.array([rng.uniform(-math.pi, math.pi) for _ in range(m)])
        S = complex(np.sum(v[:m - 2] * np.cos(a[:m - 2])), np.sum(v[:m - 2] * np.sin(a[:m - 2])))
        r = abs(S)
        if r > (p + q) * (1 + 1e-12) or r < abs(p - q) * (1 - 1e-12):
            continue
        if r < 1e-300:
            a[m - 1] = a[m - 2] + math.pi
            return a
        phi = math.atan2(-S.imag, -S.real)
        cA = max(-1.0, min(1.0, (r * r + p * p - q * q) / (2 * r * p)))
        a[m - 2] = phi + rng.choice([-1, 1]) * math.acos(cA)
        rest = -S - p * complex(math.cos(a[m - 2]), math.sin(a[m - 2]))
        a[m - 1] = math.atan2(rest.imag, rest.real) if abs(rest) > 0 else a[m - 2]
        return a
    return None


def resultant(a, v):
    a, v = np.asarray(a, LD), np.asarray(v, LD)
    return float(np.hypot(np.sum(v * np.sin(a)), np.sum(v * np.cos(a))))


def spread_set(rng, nmax=24):
    """(headings, linear weights) of a particle set whose resultant is short (about delta) but well defined."""
    delta = 10 ** rng.uniform(-11.5, -6.5)
    style = rng.choice(["even", "even", "three", "antipodal", "polygon"])
    t0 = rng.uniform(-math.pi, math.pi)
    if style == "even":
        n = rng.randint(3, nmax)
        a = t0 + TWO_PI * np.arange(n) / n
        w = np.ones(n); w[rng.randrange(n)] += delta * n
    elif style == "three":
        a = t0 + np.array([0.0, TWO_PI / 3, -TWO_PI / 3]); w = np.ones(3)
        a[rng.randrange(3)] += 3 * delta * rng.choice([-1, 1])
    elif style == "antipodal":
        h = rng.randint(1, max(1, nmax // 2))
        b = np.array([rng.uniform(-math.pi, math.pi) for _ in range(h)])
        wh = np.array([rng.random() + 0.05 for _ in range(h)])
        a, w = np.concatenate([b, b + math.pi]), np.concatenate([wh, wh])
        j = rng.randrange(2 * h)
        if rng.random() < 0.5:
            w[j] *= 1 + delta * w.sum() / w[j]
        else:
            a[j] += delta * w.sum() / w[j]
    else:
        n = rng.randint(3, nmax)
        while True:
            w = np.array([rng.random() + 0.05 for _ in range(n)])
            a = closed_polygon(rng, w)
            if a is not None:
                break
        j = rng.randrange(n)
        a[j] += delta * w.sum() / w[j]
    perm = list(range(a.size)); rng.shuffle(perm)
    a, w = a[perm], w[perm]
    a = a + TWO_PI * rng.choice([0, 0, 0, 1, -2])
    return a, w / w.sum(), style


def spread_history(rng, var, m):
    """headings h_0 .. h_{m-1} in CALL order such that the window weights of variant `var` over the m stored estimates
    (newest first) give a short resultant."""
    v = win_weights(var, m)
    delta = 10 ** rng.uniform(-11.5, -6.5)
    a = closed_polygon(rng, v)
    if a is None:
        return None
    j = rng.randrange(m)
    a[j] += delta / v[j] * rng.choice([-1, 1])
    return a[::-1].copy()        # column m-1 (oldest) is the first call


def spread_case(rng, cid, tag="spread"):
    lin, circ = rng.randint(0, 2), rng.randint(1, 2)
    eg = EstGen(rng, lin, circ, "plain")
    g = gen.nprng(rng)
    toks, plan = [], {}
    if rng.random() < 0.5:
        # particle sets with a short resultant: plain mean and the base estimate of the windowed means
        meth = rng.choice(["mean", "mean", "smean", "wmean", "emean"])
        toks = ["m:" + meth] + (["w:%d" % rng.randint(2, 6)] if rng.random() < 0.4 else [])
        for _ in range(rng.randint(1, 4)):
            sets = [spread_set(rng) for _ in range(circ)]
            # all circular rows share the weights of the first one: the other rows get a set of the same size built on them
            a0, w, _ = sets[0]
            P = np.zeros((lin + circ, a0.size))
            P[:lin] = g.standard_normal((lin, a0.size)) * eg.rowscale.reshape(-1, 1)
            P[lin] = a0
            for r in range(1, circ):
                if rng.random() < 0.5:
                    P[lin + r] = eg.centre[r] + g.uniform(-0.5, 0.5, a0.size)       # an ordinary row next to the spread one
                else:
                    P[lin + r] = a0[::-1] + rng.uniform(-3, 3)
            plan[len(toks)] = (P, np.log(w))
            toks.append(rng.choice(["e2", "e5"]))
            if rng.random() < 0.2:
                toks.append(rng.choice(["mv", "ma", "m:" + meth]))
        sub = "set"
    else:
        # window histories with a short resultant: every particle of call i has the heading h_i in its circular rows,
        # so mean, mode and map all store h_i
        var = rng.choice(["s", "w", "e"]); stat = rng.choice(["mean", "mode", "map"])
        toks = ["m:" + var + stat]
        rounds = rng.randint(1, 2)
        for rd in range(rounds):
            m = rng.randint(2 if var == "s" else 3, 8)
            win = m if rng.random() < 0.6 else rng.randint(m, 12)
            toks.append("w:%d" % win)
            even = var == "s" and rng.random() < 0.5
            extra = rng.randint(0, 3) if (even and win == m) else 0
            if even:
                d0, sgn, t0 = 10 ** rng.uniform(-11.5, -6.5), rng.choice([-1, 1]), rng.uniform(-math.pi, math.pi)
                hs = [[t0 + sgn * TWO_PI * i / m + d0 * rng.uniform(-1, 1) for i in range(m + extra)] for _ in range(circ)]
            else:
                hs = [spread_history(rng, var, m) for _ in range(circ)]
            for i in range(m + extra):
                n = rng.choice([1, 1, 2, 3, 6])
                P = np.zeros((lin + circ, n))
                P[:lin] = g.standard_normal((lin, n)) * eg.rowscale.reshape(-1, 1)
                for r in range(circ):
                    P[lin + r] = hs[r][i]
                plan[len(toks)] = (P, None)
                toks.append("e5" if stat == "map" else rng.choice(["e2", "e5"]))
                if rng.random() < 0.05:
                    toks.append(rng.choice(["mv", "ma"]))
            if rd + 1 < rounds:
                toks.append("c")
        sub = "hist"
    c = caseio.Case(cid, "est", {"lin": lin, "circ": circ, "tag": tag, "nops": len(toks), "flavour": "spread", "sub": sub, "twin": int(rng.random() < 0.3)})
    c.word("ops", toks)
    for k, o in enumerate(toks):
        if o in ("e2", "e5"):
            P, W = plan[k]
            eg.extract_operands(c, k, o == "e5", P=P, W=W)
    return c


def tie_case(rng, cid):
    """Exact ties in the weights / map scores: the model takes the FIRST maximiser (C17_mode_is_max,
    C17_map_is_argmax) and so does Eigen's visitor (strict >): compared by index like every other case."""
    lin, circ = rng.randint(1, 3), rng.randint(0, 2)
    n = rng.choice([2, 3, 4, 5, 8, 9, 16, 17, 20])
    c = caseio.Case(cid, "est", {"lin": lin, "circ": circ, "tag": "tie", "nops": 4, "flavour": "ties"})
    c.word("ops", ["m:mode", "e2", "m:map", "e5"])
    eg = EstGen(rng, lin, circ)
    P = eg.particles(n)
    w = np.full(n, 0.25)
    for j in rng.sample(range(n), rng.randint(2, min(n, 4))):
        w[j] = 1.0
    W = np.log(w / w.sum())
    L = np.ones(n)
    for j in rng.sample(range(n), rng.randint(2, min(n, 4))):
        L[j] = 2.0
    for k in (1, 3):
        c.mat_shape("P%d" % k, lin + circ, n, P); c.mat_shape("W%d" % k, n, 1, W)
    c.mat_shape("PW3", n, 1, np.log(np.full(n, 1.0 / n))); c.mat_shape("L3", n, 1, L)
    c.mat_shape("T3", n, n, np.full((n, n), 0.25))
    return c


def rand_window(rng):
    return rng.choice(WINDOWS) if rng.random() < 0.6 else rng.randint(2, 8)


def rand_est_tokens(rng, maxlen):
    n = rng.randint(1, maxlen)
    toks = []
    if rng.random() < 0.7:
        toks.append("m:" + rng.choice(METHODS))
    if rng.random() < 0.4:
        toks.append("w:%d" % rand_window(rng))
    while len(toks) < n:
        u = rng.random()
        if u < 0.62:
            toks.append("e5" if rng.random() < 0.5 else "e2")
        elif u < 0.76:
            toks.append("m:" + rng.choice(METHODS))
        elif u < 0.91:
            toks.append("w:%d" % rand_window(rng))
        elif u < 0.95:
            toks.append(rng.choice(["mv", "ma", "vg"]))
        else:
            toks.append("c")
    if rng.random() < 0.1:
        toks.insert(0, rng.choice(["mv", "ma", "vg"]))      # obtained from a FRESH object
    return toks[:maxlen]


def rand_hb_tokens(rng, maxlen):
    n = rng.randint(1, maxlen)
    toks = []
    while len(toks) < n:
        u = rng.random()
        if u < 0.55:
            toks.append("a")
        elif u < 0.8:
            toks.append("s:%d" % rand_window(rng))
        elif u < 0.87:
            toks.append("d")
        elif u < 0.92:
            toks.append("i")
        elif u < 0.96:
            toks.append(rng.choice(["mv", "ma", "vg"]))
        else:
            toks.append("c")
    if rng.random() < 0.1:
        toks.insert(0, rng.choice(["mv", "ma", "vg"]))
    return toks


def fill_tokens(rng, big, small, method):
    """fill a large window, shrink it, go on, grow again"""
    k = rng.randint(0, 34)
    return ["m:" + method, "w:%d" % big] + ["e5"] * k + ["w:%d" % small, "e5", "e2", "w:%d" % rng.choice([4, 30, 100]), "e5", "e5"]


def shapes(rng):
    if rng.random() < 0.15:
        return rng.randint(0, 8), rng.randint(0, 5)      # more rows than any shipped filter uses
    return rng.randint(0, 3), rng.randint(0, 2)


def corpus(rng, add, cid0):
    """Hand-picked boundary sequences and the inputs of past failures; run first in both tiers."""
    k = cid0
    hb = [
        ["a", "a", "a", "s:2"],                                   # F-hist-shrink probe: 3 stored, window 5 -> 2 keeps 2
        ["a", "s:100", "s:2"],                                    # gap larger than what is stored (popped an empty deque)
        ["s:30"] + ["a"] * 31 + ["s:29", "s:30", "s:31", "s:100", "s:1", "s:0", "s:-1"],
        ["s:2", "d", "d", "a", "a", "a", "i", "a"],               # decrease saturates at 2
        ["s:30", "i", "i"] + ["a"] * 32 + ["d"],                  # increase saturates at 30
        ["s:4294967295", "s:4294967296", "s:5"],                  # unsigned wrap of the harness cast: 2^32 -> 0 -> clamp 2
        ["c", "a", "c", "c", "a", "a"],
        ["s:5", "a", "s:5", "a"],                                 # early return on an equal request
        ["a", "a", "mv", "a", "s:2", "ma", "a", "a", "d", "mv", "c", "a"],   # the move target goes on as the source would
        ["vg", "a", "a", "a", "vg", "a", "s:3", "vg", "a", "a", "mv", "vg", "ma", "a"],   # through a growing std::vector, fresh and used
        ["mv", "ma", "s:4", "a", "a", "a", "a", "a"],
    ]
    for toks in hb:
        add(hb_case(rng, k, 2, toks, "corpus")); k += 1
    est = [
        (1, 0, ["m:smode", "e2", "e2", "e2", "w:2", "w:5", "e2"]),           # witness of C17_min_calls_window_refuted
        (2, 1, ["m:smean", "e2", "e2", "e2", "w:2", "e2", "w:30", "e2"]),    # weights recomputed for every length
        (1, 1, ["m:wmean"] + ["e2"] * 7 + ["w:3"] + ["e2"] * 2 + ["c", "e2", "e2"]),
        (0, 2, ["m:emean", "e5", "e5", "e5", "m:smean", "e5", "m:wmode", "e5", "m:emap", "e5", "e2"]),   # shared history across methods
        (3, 0, ["m:map", "e2", "e5", "m:smap", "e2", "e5", "m:wmap", "e2", "e5", "m:emap", "e2", "e5"]),  # map variants with / without arguments
        (1, 2, ["w:0", "w:-1", "w:1", "e5", "e5", "e5", "w:31", "w:30", "w:100"]),
        (2, 2, ["m:mean", "e2", "m:mode", "e5", "m:smean", "e2", "m:mean", "e5", "m:smean", "e2"]),      # plain methods do not touch the history
        (0, 0, ["m:smean", "e2", "e5", "w:2", "e2"]),                         # empty state vector
        (1, 1, ["m:wmean", "e2", "e2", "mv", "e2", "w:3", "ma", "e5", "m:smap", "mv", "e5", "c", "ma", "e5"]),  # moves
        (5, 4, ["m:emean", "e5", "e5", "m:wmode", "e5", "w:2", "e5"]),        # more rows than 3 + 2
        (2, 1, ["vg", "m:smean", "e2", "e2", "vg", "e2", "w:2", "vg", "e5", "m:emap", "vg", "e5", "e5", "ma", "vg", "e5"]),   # std::vector growth, fresh and used
        (1, 1, ["mv", "e2", "ma", "m:wmean", "e2", "e2", "e2"]),              # moved from a fresh object, then used
    ]
    # switching the window family with a FULL buffer and no resize / clear: each family must use ITS OWN weights
    # (sm_weights_, wm_weights_, em_weights_ are three caches; one cache keyed by the length alone would be stale)
    for src, dst in (("wmean", "smean"), ("emode", "smode"), ("emean", "wmean"), ("smean", "emean"), ("wmap", "smap"), ("smode", "wmap"), ("emap", "wmode")):
        for wtok in ([], ["w:2"], ["w:3"]):
            full = int(wtok[0][2:]) if wtok else 5
            est.append((2, 1, wtok + ["m:" + src] + ["e5"] * (full + 1) + ["m:" + dst, "e5", "e5", "m:" + src, "e5"]))
    for lin, circ, toks in est:
        add(est_case(rng, k, lin, circ, toks, "corpus", "plain")); k += 1
    # exactly ONE stored estimate whose angle lies outside (-pi, pi]: a single particle at 7.0 / -9.5 rad
    for meth in ("smean", "wmode", "emap"):
        c = caseio.Case(k, "est", {"lin": 1, "circ": 2, "tag": "corpus", "nops": 7, "flavour": "single"})
        c.word("ops", ["m:" + meth, "e5", "c", "e5", "e5", "m:mean", "e2"])
        for j, n in ((1, 1), (3, 1), (4, 2), (6, 1)):
            P = np.array([[1.5] * n, [7.0] * n, [-9.5] * n]) + (np.arange(n) * 0.01)
            c.mat_shape("P%d" % j, 3, n, P); c.mat_shape("W%d" % j, n, 1, np.log(np.full(n, 1.0 / n)))
            c.mat_shape("PW%d" % j, n, 1, np.log(np.full(n, 1.0 / n))); c.mat_shape("L%d" % j, n, 1, np.arange(1, n + 1))
            c.mat_shape("T%d" % j, n, n, np.full((n, n), 0.5))
        add(c); k += 1


def generate(rng, tier):
    cases, cid = [], 0

    def add(c):
        nonlocal cid
        cases.append(c); cid += 1

    windowed = [m for m in METHODS if VAR[m]]
    corpus(rng, add, 0)
    if tier == "quick":
        for _ in range(330):
            lin, circ = shapes(rng)
            add(est_case(rng, cid, lin, circ, rand_est_tokens(rng, 12), "random"))
        for _ in range(24):
            lin, circ = shapes(rng)
            add(est_case(rng, cid, lin, circ, fill_tokens(rng, rng.choice([29, 30, 31, 100]), rng.choice([1, 2, 3, 5]), rng.choice(windowed)), "fill"))
        for _ in range(150):
            add(hb_case(rng, cid, rng.randint(0, 4), rand_hb_tokens(rng, 12), "random"))
        for _ in range(10):
            k = rng.randint(0, 34)
            add(hb_case(rng, cid, rng.randint(1, 3), ["s:%d" % rng.choice([29, 30, 31, 100])] + ["a"] * k + ["s:%d" % rng.choice(WINDOWS), "a", "i", "d", "d"], "fill"))
        for _ in range(20):
            add(tie_case(rng, cid))
        for _ in range(70):
            add(spread_case(rng, cid))
        return cases
    for _ in range(300):
        add(tie_case(rng, cid))
    for _ in range(600):
        add(spread_case(rng, cid))
    # thorough: exhaustive short sequences after a prefill, then random long ones
    hb_alpha = ["a", "d", "i", "c"] + ["s:%d" % w for w in WINDOWS]
    for pre in (0, 1, 3, 6, 31):
        for pw in (None, 30):
            prefix = (["s:%d" % pw] if pw else []) + ["a"] * pre
            for L in (1, 2, 3):
                for seq in itertools.product(hb_alpha, repeat=L):
                    add(hb_case(rng, cid, 1 + (cid % 3), prefix + list(seq), "exh"))
    est_alpha = ["e2", "e5", "c", "m:smean", "m:wmode", "m:emap", "m:mean"] + ["w:%d" % w for w in WINDOWS]
    for pre in (0, 1, 3, 6, 31):
        for meth in ("smean", "wmap", "emode"):
            prefix = ["m:" + meth] + (["w:30"] if pre > 6 else []) + ["e5"] * pre
            for L in (1, 2, 3):
                if L == 3 and pre not in (3, 6):
                    continue
                for seq in itertools.product(est_alpha, repeat=L):
                    lin, circ = [(1, 0), (0, 1), (2, 1), (1, 2)][cid % 4]
                    add(est_case(rng, cid, lin, circ, prefix + list(seq), "exh"))
    for _ in range(3000):
        lin, circ = shapes(rng)
        add(est_case(rng, cid, lin, circ, rand_est_tokens(rng, 60), "random"))
    for _ in range(300):
        lin, circ = shapes(rng)
        add(est_case(rng, cid, lin, circ, fill_tokens(rng, rng.choice([29, 30, 31, 100]), rng.choice([1, 2, 3, 5]), rng.choice(windowed)), "fill"))
    for _ in range(3000):
        add(hb_case(rng, cid, rng.randint(0, 4), rand_hb_tokens(rng, 60), "random"))
    return cases


def search_cases(rng):
    """The widened search (vlib/runner.py widen_if_needed): the quick mix once more with another seed, at four times
    the volume of the classes that need aimed inputs (short resultants, exact ties)."""
    cases = generate(rng, "quick")
    cid = len(cases)
    for _ in range(210):
        cases.append(spread_case(rng, cid)); cid += 1
    for _ in range(60):
        cases.append(tie_case(rng, cid)); cid += 1
    return cases


# ------------------------------------------------------------------ walking a case against an output record

def ops_of(c):
    return c.get("ops") if c.has("ops") else []


def opmat(c, name):
    return np.asarray(c.get(name), float)


def colvec(c, name):
    return opmat(c, name).reshape(-1)


def features(c):
    """(methods used for extracts, window values set, shrunk while non-empty, max stored, a pushing call happened,
    stored != min(pushing calls since the last clear, window) at some point) by the spec machine."""
    toks = ops_of(c)
    win, stored, meth, calls = 5, 0, "emode", 0
    used, wins, shrunk, mx, windowed_call, count_differs = set(), set(), False, 0, False, False
    for o in toks:
        if c.kind == "est":
            if o in ("e2", "e5"):
                used.add(meth + "/" + o[1])
                if VAR[meth] and not (o == "e2" and STAT[meth] == "map"):
                    stored = min(stored + 1, win); windowed_call = True; calls += 1
            elif o.startswith("m:"):
                meth = o[2:]
            elif o.startswith("w:"):
                w = int(o[2:]); wins.add(w)
                if w > 0 and w != win:
                    nw = clamp(w)
                    if stored > nw:
                        shrunk = True
                    stored, win = min(stored, nw), nw
            elif o == "c":
                stored, calls = 0, 0
        else:
            if o == "a":
                stored = min(stored + 1, win); windowed_call = True; calls += 1
            elif o.startswith("s:") or o in ("d", "i"):
                w = (int(o[2:]) & 0xFFFFFFFF) if o.startswith("s:") else (win - 1 if o == "d" else win + 1)
                wins.add(w if w < 1000 else "big")
                if w != win:
                    nw = clamp(w)
                    if stored > nw:
                        shrunk = True
                    stored, win = min(stored, nw), nw
            elif o == "c":
                stored, calls = 0, 0
        mx = max(mx, stored)
        if stored != min(calls, win):
            count_differs = True
    return used, wins, shrunk, mx, windowed_call, count_differs


def nontrivial(c):
    used, wins, shrunk, mx, windowed_call, _ = features(c)
    if not (windowed_call or shrunk):
        return None
    return (c.kind, c.meta.get("lin", c.meta.get("d")), c.meta.get("circ", "-"), tuple(sorted(used)), tuple(sorted(map(str, wins))), shrunk, mx)


def fields(c):
    out = []
    for k, o in enumerate(ops_of(c)):
        out += ["ret%d" % k, "win%d" % k]
        if c.kind == "est":
            out += ["meth%d" % k]
        if o in ("mv", "ma", "vg"):
            out.append("movedfrom_win%d" % k)      # 0 by HistoryBuffer.cpp:24/35 (the moved-from object is otherwise out of scope)
    if c.kind == "est":
        out.append("info_window")
    return out


def methods_before(c):
    """the extraction method in force before every operation (a function of the tokens alone)"""
    meth, out = "emode", []
    for o in ops_of(c):
        out.append(meth)
        if o.startswith("m:"):
            meth = o[2:]
    return out


def tolerances(c, rec):
    """Comparison tolerances of the correspondence (two double evaluations), derived per row from the case.  Returns per
    operation (est_tol or None, [tol of every stored column, newest first]); a tol is a vector with one entry per row.
    A base mean: twice the one-sided bounds of wmean (linear rows (n+4) u sum|w x|, circular rows circ_tol: rounding of
    the two weighted sums over the modulus of the resultant); mode/map estimates are copies of a particle (tolerance
    0); a windowed estimate adds what it inherits from the stored columns: the worst stored linear error, and the
    worst stored circular error divided by the modulus of the resultant of the history (weights summing to one)."""
    toks, meths = ops_of(c), methods_before(c)
    lin, circ = int(c.meta["lin"]), int(c.meta["circ"])
    d = lin + circ
    cols, out = [], []
    for k, o in enumerate(toks):
        est_tol = None
        H = np.asarray(rec.get("hist%d" % k), float) if rec.has("hist%d" % k) else np.zeros((d, 0))
        ncols = H.shape[1] if H.ndim == 2 else 0
        if o in ("e2", "e5"):
            meth = meths[k]; st, var = STAT[meth], VAR[meth]
            W = colvec(c, "W%d" % k); P = opmat(c, "P%d" % k).reshape(d, W.size)
            if st == "mean":
                base = 2.0 * wmean(P, np.exp(np.asarray(W, LD)), lin, circ)[2]
            else:
                base = np.zeros(d)
            if st == "map" and o == "e2":
                est_tol = None
            elif var is None:
                est_tol = base
            else:
                cols = ([base] + cols)[:ncols]
                est_tol = np.zeros(d)
                if ncols >= 1 and H.shape[0] == d:
                    ww = win_weights(var, ncols)
                    _, res, own = wmean(H, ww, lin, circ)
                    worst = np.max(np.vstack(cols), axis=0) if cols else np.zeros(d)
                    est_tol[:lin] = 2.0 * own[:lin] + worst[:lin] + 16 * U * np.abs(H[:lin]) @ ww
                    for r in range(lin, d):
                        R = res[r - lin]
                        est_tol[r] = (circ_tol(ncols, 1.0, R, sides=2, extra=16) + (worst[r] / R if R > 0 else math.inf)) if math.isfinite(R) else 2.0 * own[r] + worst[r]
        cols = cols[:ncols]
        out.append((est_tol, list(cols)))
    return out


CORR_SKIPPED = 0


def _cmp_vec(nm, a, b, lin, tol, diffs):
    """one estimate / one stored column: linear rows absolutely, circular rows modulo 2 pi; tol = one entry per row"""
    global CORR_SKIPPED
    tol = np.asarray(tol, float).reshape(-1)
    if tol.size != a.size:
        tol = np.zeros(a.size)
    for r in range(min(lin, a.size)):
        if np.isfinite(a[r]) and np.isfinite(b[r]):
            dl = abs(a[r] - b[r])
        else:
            dl = 0.0 if (a[r] == b[r] or (np.isnan(a[r]) and np.isnan(b[r]))) else math.inf
        _ratio("corr-linear", dl, tol[r])
        if not (dl <= tol[r]):
            diffs.append("%s: linear row %d differs by %.3g (tol %.3g)" % (nm, r, dl, tol[r])); break
    for r in range(lin, a.size):
        ctol = tol[r] if tol[r] == 0.0 else max(tol[r], CIRC_FLOOR)
        if not (ctol <= CIRC_LIMIT):
            CORR_SKIPPED += 1       # resultant at the round-off level: no meaningful comparison
            continue
        if np.isfinite(a[r]) and np.isfinite(b[r]):
            # the representative is specified ((-pi, pi]): compare the values themselves; modulo 2 pi only where both
            # sides sit at the +-pi seam, where rounding may pick either end
            seam = abs(a[r]) > math.pi - max(ctol, 1e-9) and abs(b[r]) > math.pi - max(ctol, 1e-9)
            dc = abs(circ_diff(a[r], b[r])) if seam else abs(a[r] - b[r])
        else:
            dc = 0.0 if (a[r] == b[r] or (np.isnan(a[r]) and np.isnan(b[r]))) else math.inf
        _ratio("corr-circular", dc, ctol)
        if not (dc <= ctol):
            diffs.append("%s: circular row %d differs by %.3g (tol %.3g)" % (nm, r, dc, ctol)); break


def compare(c, impl, model):
    """Correspondence: every returned flag, the window, the method exactly (ties included: the model's first
    maximiser is what Eigen's visitor returns); estimates and history columns within the tolerance derived from the
    case's conditioning (circular rows modulo 2 pi); cached weight vectors to 1e-12; a directly driven HistoryBuffer
    and every mode/map estimate bit for bit."""
    diffs = caseio.compare_fields(impl, model, fields(c), 0, 0)
    toks = ops_of(c)
    est_kind = c.kind == "est"
    lin = int(c.meta["lin"]) if est_kind else int(c.meta["d"])
    tols = tolerances(c, impl) if est_kind else None
    for k, o in enumerate(toks):
        names = ["hist%d" % k]
        if est_kind:
            if impl.get("caches_reachable", 1) == 1:
                names += ["smw%d" % k, "wmw%d" % k, "emw%d" % k]
            if o in ("e2", "e5"):
                names.append("est%d" % k)
        for nm in names:
            if not impl.has(nm) or not model.has(nm):
                diffs.append("%s: missing (impl %s, model %s)" % (nm, impl.has(nm), model.has(nm))); continue
            a, b = np.asarray(impl.get(nm), float), np.asarray(model.get(nm), float)
            if a.shape != b.shape:
                diffs.append("%s: shape impl=%s model=%s" % (nm, a.shape, b.shape)); continue
            if a.size == 0:
                continue
            if nm.startswith("est") and o == "e5" and model.has("spec_mapvalues%d" % k):
                # C17_map_score_meaning on doubles: coded log-score = log((lik+eps) * sum_j (T_ij+eps) w_j)
                sc = map_scores(colvec(c, "PW%d" % k), colvec(c, "L%d" % k), opmat(c, "T%d" % k).reshape(colvec(c, "L%d" % k).size, colvec(c, "PW%d" % k).size))
                mv = np.asarray(model.get("spec_mapvalues%d" % k), float).reshape(-1)
                good = sc > 0
                if mv.shape != sc.shape or not caseio.close(mv[good], np.log(sc[good]).astype(float), 1e-9, 0):
                    diffs.append("spec_mapvalues%d: coded score differs from log of the product form" % k)
            if nm.startswith(("smw", "wmw", "emw")):
                if not caseio.close(a, b, 1e-12, 1e-12):
                    diffs.append("%s: max|impl-model|=%.3g" % (nm, caseio.maxdiff(a, b)))
                continue
            if not est_kind:
                if not np.array_equal(a, b):
                    diffs.append("%s: stored elements differ" % nm)
                continue
            est_tol, col_tols = tols[k]
            if nm.startswith("est"):
                if impl.get("ret%d" % k) == 0 or est_tol is None:
                    continue    # no estimate available: the content of the returned vector is not specified
                _cmp_vec(nm, a.reshape(-1), b.reshape(-1), lin, est_tol, diffs)
            else:
                for j in range(a.shape[1]):
                    _cmp_vec("%s[:,%d]" % (nm, j), a[:, j], b[:, j], lin, col_tols[j] if j < len(col_tols) else np.zeros(a.shape[0]), diffs)
    return diffs


def _col_index(P, e):
    """indices of the columns of P equal (bitwise as numbers) to e"""
    e = np.asarray(e, float).reshape(-1)
    if P.shape[0] != e.size:
        return []
    return [j for j in range(P.shape[1]) if np.array_equal(P[:, j], e)]


def oracle(c, impl, model):
    """The property's clauses evaluated on the implementation's own outputs; the pre-state of every operation is
    the state the implementation exposed after the previous one."""
    v = []
    toks = ops_of(c)
    est_kind = c.kind == "est"
    lin = int(c.meta["lin"]) if est_kind else int(c.meta["d"])
    circ = int(c.meta["circ"]) if est_kind else 0
    d = lin + circ
    win, hist, meth = 5, np.zeros((d, 0)), "emode"
    caches = {"smw": np.zeros(0), "wmw": np.zeros(0), "emw": np.zeros(0)}

    def bad(sig, detail, k):
        v.append(("C17:" + sig, "op %d (%s): %s" % (k, toks[k], detail)))

    for k, o in enumerate(toks):
        need = ["ret%d" % k, "win%d" % k, "hist%d" % k]
        if any(not impl.has(n) for n in need):
            bad("missing-output", "no record of " + ",".join(n for n in need if not impl.has(n)), k); break
        ret, nwin, nhist = impl.get("ret%d" % k), impl.get("win%d" % k), np.asarray(impl.get("hist%d" % k), float)
        if nhist.shape[0] != d:
            bad("history-shape", "history has %d rows, state size is %d" % (nhist.shape[0], d), k); break
        # ---- invariant: for every operation sequence
        if not (2 <= nwin <= 30):
            bad("hist-inv:window-out-of-[2,30]", "window = %d" % nwin, k)
        if nhist.shape[1] > nwin:
            bad("hist-inv:stored>window", "%d stored, window %d" % (nhist.shape[1], nwin), k)
        stored = hist.shape[1]
        exp_hist, exp_win, exp_ret = hist, win, 1
        is_set = (est_kind and o.startswith("w:")) or ((not est_kind) and (o.startswith("s:") or o in ("d", "i")))
        if is_set:
            if est_kind:
                w = int(o[2:]); exp_ret = 1 if w > 0 else 0
                eff = w > 0
            else:
                w = (int(o[2:]) & 0xFFFFFFFF) if o.startswith("s:") else (win - 1 if o == "d" else win + 1)
                eff = True
            if eff:
                exp_win = clamp(w)
                exp_hist = hist[:, :min(stored, exp_win)]
            if ret != exp_ret:
                bad("set-window:return", "returned %d, expected %d" % (ret, exp_ret), k)
            if nwin != exp_win:
                bad("window-clamp", "window %d -> request %d gives %d, expected %d" % (win, w, nwin, exp_win), k)
            if not np.array_equal(nhist, exp_hist):
                cls = "shrink" if exp_win < win else "grow" if exp_win > win else "same"
                bad("shrink-keeps-recent:%s" % cls, "window %d -> %d with %d stored: %d kept, expected the %d most recent" % (win, exp_win, stored, nhist.shape[1], exp_hist.shape[1]), k)
        elif o == "c":
            if nhist.shape[1] != 0:
                bad("clear-empties", "%d estimates left after clear()" % nhist.shape[1], k)
            if nwin != win:
                bad("clear-changes-window", "window %d -> %d" % (win, nwin), k)
            if ret != 1:
                bad("clear:return", "returned %d" % ret, k)
        elif (not est_kind) and o == "a":
            x = colvec(c, "X%d" % k)
            exp_hist = np.hstack([x.reshape(-1, 1), hist])[:, :win]
            if nwin != win or not np.array_equal(nhist, exp_hist):
                bad("add-pushes-front", "window %d, %d stored before: %d after, expected %d with the new element first" % (win, stored, nhist.shape[1], exp_hist.shape[1]), k)
        elif o in ("mv", "ma", "vg"):
            # the move target goes on exactly as the source was (the moved-from object is out of scope)
            same = ret == 1 and nwin == win and np.array_equal(nhist, hist)
            if est_kind:
                same = same and impl.get("meth%d" % k) == METHODS.index(meth)
                for nmc in (("smw", "wmw", "emw") if impl.get("caches_reachable", 1) == 1 else ()):
                    cur = np.asarray(impl.get("%s%d" % (nmc, k)), float).reshape(-1)
                    same = same and np.array_equal(cur, caches[nmc])
            if not same:
                bad("move:target-differs-from-source", "window %d -> %d, %d -> %d stored, or method / cached weights changed" % (win, nwin, stored, nhist.shape[1]), k)
        elif est_kind and o.startswith("m:"):
            if impl.get("meth%d" % k) != METHODS.index(o[2:]):
                bad("set-method", "method index %s" % impl.get("meth%d" % k), k)
            if nwin != win or not np.array_equal(nhist, hist):
                bad("set-method:frame", "history or window changed", k)
        elif est_kind and o in ("e2", "e5"):
            W = colvec(c, "W%d" % k)
            P = opmat(c, "P%d" % k).reshape(d, W.size)
            est = np.asarray(impl.get("est%d" % k), float).reshape(-1) if impl.has("est%d" % k) else None
            st, var = STAT[meth], VAR[meth]
            if est is None or est.size != d:
                bad("extract:estimate-size", "estimate has %s entries, state size %d" % (None if est is None else est.size, d), k)
            elif st == "map" and o == "e2":
                if ret != 0:
                    bad("map-without-args-available", "method %s, extract/2 reported an estimate" % meth, k)
                if nwin != win or not np.array_equal(nhist, hist):
                    bad("map-without-args:frame", "history or window changed", k)
            else:
                if ret != 1:
                    bad("extract:unavailable", "method %s, %s reported no estimate" % (meth, o), k)
                # ---- base statistic of this call
                base, bres, btol = None, [math.inf] * circ, None
                if st == "mean":
                    base, bres, btol = wmean(P, np.exp(np.asarray(W, LD)), lin, circ)
                elif st == "mode":
                    pass
                target = est if var is None else (nhist[:, 0] if nhist.shape[1] else None)
                if target is None:
                    bad("windowed:history-empty", "no estimate stored by a windowed extract", k)
                elif st == "mean":
                    ok, sk, worst, txt = vec_close(target, base, lin, btol, bres)
                    if ok is not True:
                        short = ok == "circular" and min(bres + [1.0]) < 1e-6
                        bad("mean:%s-rows%s" % (ok, ":short-resultant" if short else ""), "base estimate differs from the weighted %s mean of the %d particles (%s; resultant moduli %s)" % ("arithmetic" if ok == "linear" else "circular", P.shape[1], txt, ["%.3g" % x for x in bres]), k)
                    base = target
                else:
                    global OUTSIDE_PROPERTY
                    idx = _col_index(P, target)
                    degenerate = st == "map" and not np.any(np.isfinite(colvec(c, "PW%d" % k)))
                    if not idx:
                        bad("%s:not-a-particle" % st, "the base estimate is not a column of the particle set", k)
                    elif degenerate:
                        OUTSIDE_PROPERTY += 1     # all previous weights zero: every coded score is NaN; correspondence only
                    else:
                        if st == "mode":
                            score = W
                        else:
                            # log of the product form, from extended precision (no underflow of the product): the relative
                            # margin 1e-9 of the scores is an absolute one on their logarithms
                            with np.errstate(divide="ignore"):
                                score = np.log(map_scores(colvec(c, "PW%d" % k), colvec(c, "L%d" % k), opmat(c, "T%d" % k).reshape(W.size, colvec(c, "PW%d" % k).size))).astype(float)
                        best = float(np.max(score))
                        got = max(float(score[j]) for j in idx)
                        margin = 0.0 if st == "mode" else 1e-9
                        if got < best - margin:
                            bad("%s:not-a-maximiser" % st, "returned particle %s has (log-)score %.17g, the maximum is %.17g (particle %d)" % (idx, got, best, int(np.argmax(score))), k)
                        else:
                            # C17_mode_is_max / C17_map_is_argmax: among equal maxima the FIRST one (Eigen's visitor uses >).
                            # mode: the log-weights themselves; map: the coded scores as the extracted model computes them
                            coded = W if st == "mode" else (np.asarray(model.get("spec_mapvalues%d" % k), float).reshape(-1) if model is not None and model.has("spec_mapvalues%d" % k) else None)
                            if coded is not None and coded.size == P.shape[1] and not np.any(np.isnan(coded)):
                                first = int(np.argmax(coded))
                                if len(idx) == 1 and idx[0] != first and coded[idx[0]] == coded[first]:
                                    bad("%s:not-first-maximiser" % st, "particles %d and %d tie at %.17g: particle %d returned, the first maximiser is %d" % (first, idx[0], float(coded[first]), idx[0], first), k)
                    base = target
                # ---- circular rows live on the circle: always in (-pi, pi]; one column gives its principal value
                if circ and var is None and st == "mean":
                    if not np.all((est[lin:] > -math.pi - 1e-15) & (est[lin:] <= math.pi + 1e-15)):
                        bad("circular-out-of-range:mean", "circular mean of %d particle(s) outside (-pi, pi]: %s" % (P.shape[1], est[lin:]), k)
                    elif P.shape[1] == 1 and not np.all(np.abs(est[lin:] - np.arctan2(np.sin(P[lin:, 0]), np.cos(P[lin:, 0]))) <= 1e-12):
                        bad("single-column-not-principal-value:mean", "one particle: %s returned for %s" % (est[lin:], P[lin:, 0]), k)
                if var is None:
                    if nwin != win or not np.array_equal(nhist, hist):
                        bad("plain-extract:frame", "a non-windowed extract changed the history or the window", k)
                elif target is not None:
                    # ---- the history holds the base estimates of the most recent calls
                    exp_cols = min(stored + 1, win)
                    if nwin != win or nhist.shape[1] != exp_cols or not np.array_equal(nhist[:, 1:], hist[:, :exp_cols - 1]):
                        bad("history-not-recent-calls", "window %d, %d stored before: %d after, expected %d = new estimate + the most recent old ones" % (win, stored, nhist.shape[1], exp_cols), k)
                    else:
                        n = exp_cols
                        nm = {"s": "simple", "w": "weighted", "e": "exponential"}[var]
                        phase = "filling" if n < win else "full"
                        reach = impl.get("caches_reachable", 1) == 1
                        cw = np.asarray(impl.get({"s": "smw", "w": "wmw", "e": "emw"}[var] + str(k)), float).reshape(-1) if reach else np.log(win_weights(var, n))
                        ww = np.exp(cw)
                        # ---- the weights in use (the cached vector of this variant): one per stored estimate,
                        #      positive, summing to one, not increasing with age, equal for the simple variant
                        wok = True
                        if cw.size != n:
                            bad("stale-window-weights:%s:%s" % (var, phase), "%d cached %s weights for %d stored estimates (window %d)" % (cw.size, nm, n, win), k)
                            ww = win_weights(var, n)      # go on with the closed form: is the estimate itself still right?
                        else:
                            if not np.all(ww > 0) or not np.all(np.isfinite(cw)):
                                wok = False; bad("window-weights-not-positive:%s" % var, "weights %s" % ww, k)
                            if abs(float(ww.sum()) - 1.0) > 1e-12 * n:
                                wok = False; bad("window-weights-sum-not-one:%s:%s" % (var, phase), "%d %s weights sum to %.17g" % (n, nm, float(ww.sum())), k)
                            if np.any(np.diff(ww) > 1e-15):
                                wok = False; bad("window-weights-increase-with-age:%s" % var, "weights %s (newest first)" % ww, k)
                            if var == "s" and not caseio.close(ww, np.full(n, 1.0 / n), 1e-14, 0):
                                wok = False; bad("window-weights-not-equal:s", "simple weights %s" % ww, k)
                        if circ and not np.all((est[lin:] > -math.pi - 1e-15) & (est[lin:] <= math.pi + 1e-15)):
                            bad("circular-out-of-range:windowed", "%d stored: circular output outside (-pi, pi]: %s" % (n, est[lin:]), k)
                        elif circ and n == 1 and not np.all(np.abs(est[lin:] - np.arctan2(np.sin(nhist[lin:, 0]), np.cos(nhist[lin:, 0]))) <= 1e-12):
                            bad("single-column-not-principal-value:windowed", "one stored estimate: %s returned for %s" % (est[lin:], nhist[lin:, 0]), k)
                        # ---- the estimate is that convex combination of the stored estimates
                        if wok:
                            spec, sres, stol = wmean(nhist, np.exp(np.asarray(cw, LD)) if cw.size == n else ww, lin, circ)
                            ok, sk, worst, txt = vec_close(est, spec, lin, stol, sres)
                            if ok is not True:
                                short = ok == "circular" and min(sres + [1.0]) < 1e-6
                                bad("windowed-not-convex-combination:%s:%s:%s-rows%s" % (var, phase, ok, ":short-resultant" if short else ""), "method %s, %d stored (window %d): estimate differs from the %s average of the stored estimates (%s; resultant moduli %s)" % (meth, n, win, nm, txt, ["%.3g" % x for x in sres]), k)
        # post-state as observed
        win, hist = nwin, nhist
        if est_kind:
            for nmc in caches:
                if impl.has("%s%d" % (nmc, k)):
                    caches[nmc] = np.asarray(impl.get("%s%d" % (nmc, k)), float).reshape(-1)
        if est_kind and impl.has("meth%d" % k):
            mi = impl.get("meth%d" % k)
            meth = METHODS[mi] if 0 <= mi < 12 else meth
    if est_kind and toks and impl.has("info_window") and impl.get("info_window") != win:
        v.append(("C17:getInfo-window", "getInfo reports window %s, the buffer %d" % (impl.get("info_window"), win)))
    return v


def on_crash(c, info, model):
    """Abnormal end of the harness: name the API call that was running (last entry= on stderr)."""
    import re
    es = re.findall(r"entry=(\S+)", info.get("stderr", ""))
    entry = es[-1] if es else "unknown"
    used, wins, shrunk, mx, _, _ = features(c)
    return [("C17:%s:%s" % (info["kind"], entry),
             "implementation ended abnormally (%s, rc=%s) in %s; ops: %s; stderr tail: %s"
             % (info["kind"], info["rc"], entry, " ".join(ops_of(c))[:300], info.get("stderr", "")[-300:].replace("\n", " | ")))]


def histogram(cases):
    h = {"kind": {}, "tag": {}, "ops": {}, "max_stored": {}, "shrunk_nonempty": 0, "state_shape": {},
         "near_boundary_skipped": NEAR_BOUNDARY_SKIPPED, "circular_rows_judged_with_resultant_below_1e-6": CIRC_JUDGED_SHORT,
         "worst_difference_over_derived_tolerance": {k: round(x, 4) for k, x in WORST_RATIO.items()}, "correspondence_skipped_ill_conditioned": CORR_SKIPPED,
         "map_calls_outside_property_all_previous_weights_zero": OUTSIDE_PROPERTY, "flavour": {},
         # informational: sequences on which the literal count min(calls since clear, window) is not the stored count
         # (always after a window change, see C17_min_calls_window_refuted); the exact count is what the oracle checks
         "stored_differs_from_min_calls_window": 0}
    for c in cases:
        h["kind"][c.kind] = h["kind"].get(c.kind, 0) + 1
        h["tag"][c.meta.get("tag", "")] = h["tag"].get(c.meta.get("tag", ""), 0) + 1
        if c.kind == "est":
            h["flavour"][c.meta.get("flavour", "")] = h["flavour"].get(c.meta.get("flavour", ""), 0) + 1
        for o in ops_of(c):
            key = o.split(":")[0]
            h["ops"][key] = h["ops"].get(key, 0) + 1
        used, wins, shrunk, mx, _, cd = features(c)
        h["stored_differs_from_min_calls_window"] += 1 if cd else 0
        b = "0" if mx == 0 else "1-4" if mx < 5 else "5-28" if mx < 29 else "29-30"
        h["max_stored"][b] = h["max_stored"].get(b, 0) + 1
        h["shrunk_nonempty"] += 1 if shrunk else 0
        if c.kind == "est":
            h["units"] = h.get("units", 0) + int(c.meta.get("units", 0))
            h["with_twin_object"] = h.get("with_twin_object", 0) + int(c.meta.get("twin", 0))
            s = "lin=%s circ=%s" % (c.meta["lin"], c.meta["circ"])
            h["state_shape"][s] = h["state_shape"].get(s, 0) + 1
    return h


LEVEL_TEXT = ("Proof: HistoryBuffer is modelled as a list state machine and EstimatesExtraction as a state machine over the scalar interface; "
              "for ALL operation sequences the window stays in [2,30] and never holds more than `window` estimates, shrinking keeps exactly the most recent "
              "`window'` estimates, clear empties, the cached weight vectors are never stale (they are a function of their own length), the stored estimates "
              "are the base estimates of the most recent windowed calls, mean/mode/map return the weighted (circular) mean / a particle of largest weight / "
              "an argmax of the coded log-score (= log of likelihood x weight-averaged transition density up to the epsilon terms), and every windowed "
              "estimate is the convex combination with positive, age-non-increasing weights summing to one (equal for the simple variant). "
              "The model is tied to the code by running the extracted model and the real objects on the same operation sequences.")
LEVEL_NOTE = ("Every circular output is in (-pi, pi], also when exactly one particle / one stored estimate is averaged (principal value of "
              "that angle since /repo dee9c81; C17_mean_circular_on_circle / C17_windowed_circular_on_circle; the old as-is statement is in "
              "C17_Regress.v). Zero weights (-inf) and "
              "un-normalised weights are covered by correspondence and oracle only; the moved-from object of a move is out of scope. "
              "Trusted: Coq kernel + the 4 axioms of Reals for the real-valued statements, extraction + float driver, harness, numpy oracle, tolerances; "
              "rounding not modelled; tie to the code sampled. 'most recent min(calls, window) calls' holds as stated only while the window is not changed; "
              "across window changes the exact count (stored' = min(stored+1, window), min(stored, window') on a change) is what is proved and checked.")
