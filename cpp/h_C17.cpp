// h_C17.cpp — harness for C17: drives a real EstimatesExtraction object (kind "est")
// or a real HistoryBuffer object (kind "hb") through the operation sequence of the case and
// prints, after every operation, what the call returned and the reachable state.
//
// kind est   meta: lin, circ
//   word ops  e2 | e5 | m:<method> | w:<int> | c | mv | ma | vg   (operation k = k-th token, 0-based;
//                                                            mv / ma = move-construct / move-assign, go on with the target;
//                                                            vg = into a std::vector that then grows (reallocation moves it) and out again)
//   mat P<k> (lin+circ) x N, mat W<k> N x 1              (operands of an extract at position k)
//   mat PW<k> M x 1, mat L<k> N x 1, mat T<k> N x M      (additionally for e5)
// kind hb    meta: d
//   word ops  a | s:<int> | d | i | c | mv | ma | vg     mat X<k> d x 1 for an add at position k
//
// The protected members (hist_buffer_, the three cached weight vectors, the method) are
// reached by subclassing; nothing is redefined.
#define VF_MAIN
#include "common.hpp"
#include <BayesFilters/EstimatesExtraction.h>
#include <BayesFilters/HistoryBuffer.h>
#include <csignal>
#include <memory>
#include <unistd.h>
#include <vector>

// On a fatal signal (e.g. pop_back on an empty deque) name the API call that was running.
// Not installed under the sanitizers: their own report is the better one.
static void on_fatal(int sig) {
    char buf[256];
    int n = std::snprintf(buf, sizeof buf, "BFL_VERIF_SIGNAL sig=%d entry=%s\n", sig, vf::current_entry);
    if (n > 0) { ssize_t r = write(2, buf, static_cast<size_t>(n)); (void)r; }
    std::signal(sig, SIG_DFL);
    std::raise(sig);
}

using namespace bfl;
using namespace Eigen;

struct Probe : public EstimatesExtraction {
    Probe(std::size_t lin, std::size_t circ) : EstimatesExtraction(lin, circ) {}
    MatrixXd history() const { return hist_buffer_.getHistoryBuffer(); }
    long window() const { return hist_buffer_.getHistorySize(); }
    // The cached weight vectors are read if the members exist under these names (SFINAE): a refactoring that
    // renames or merges them must not stop the harness from compiling; the oracle then falls back to the
    // estimates alone (caches_reachable = 0).
    template <class T> static auto rd_sm(const T& t, int) -> decltype(VectorXd(t.sm_weights_)) { return t.sm_weights_; }
    template <class T> static VectorXd rd_sm(const T&, long) { return VectorXd(0); }
    template <class T> static auto rd_wm(const T& t, int) -> decltype(VectorXd(t.wm_weights_)) { return t.wm_weights_; }
    template <class T> static VectorXd rd_wm(const T&, long) { return VectorXd(0); }
    template <class T> static auto rd_em(const T& t, int) -> decltype(VectorXd(t.em_weights_)) { return t.em_weights_; }
    template <class T> static VectorXd rd_em(const T&, long) { return VectorXd(0); }
    template <class T> static auto has_all(const T& t, int) -> decltype(t.sm_weights_, t.wm_weights_, t.em_weights_, int()) { return 1; }
    template <class T> static int has_all(const T&, long) { return 0; }
    VectorXd smw() const { return rd_sm(*this, 0); }
    VectorXd wmw() const { return rd_wm(*this, 0); }
    VectorXd emw() const { return rd_em(*this, 0); }
    int caches_reachable() const { return has_all(*this, 0); }
    long method() const { return static_cast<long>(extraction_method_); }
};

static const char* METHODS[12] = {"mean", "smean", "wmean", "emean", "mode", "smode", "wmode", "emode", "map", "smap", "wmap", "emap"};
static const EstimatesExtraction::ExtractionMethod METHOD_VALUES[12] = {
    EstimatesExtraction::ExtractionMethod::mean, EstimatesExtraction::ExtractionMethod::smean,
    EstimatesExtraction::ExtractionMethod::wmean, EstimatesExtraction::ExtractionMethod::emean,
    EstimatesExtraction::ExtractionMethod::mode, EstimatesExtraction::ExtractionMethod::smode,
    EstimatesExtraction::ExtractionMethod::wmode, EstimatesExtraction::ExtractionMethod::emode,
    EstimatesExtraction::ExtractionMethod::map, EstimatesExtraction::ExtractionMethod::smap,
    EstimatesExtraction::ExtractionMethod::wmap, EstimatesExtraction::ExtractionMethod::emap};

static void out_col(const std::string& name, const VectorXd& v) {
    std::cout << "mat " << name << " " << v.size() << " 1";
    for (long i = 0; i < v.size(); i++) std::cout << " " << vf::fmt(v(i));
    std::cout << "\n";
}

static void run_est(const vf::Case& c) {
    const long lin = c.mi("lin"), circ = c.mi("circ");
    std::unique_ptr<Probe> holder(new Probe(lin, circ));
    const std::vector<std::string>& ops = c.word("ops");
    // meta twin=1: an independent object of the same shapes lives next to the subject; before every extract of the
    // subject it runs, with ANOTHER window, ANOTHER method and other data (the subject's operands with the columns
    // rotated and shifted), an extract of its own.  Nothing of the subject may change (state shared between objects:
    // function-local statics, weight caches keyed by the length alone).  The twin's results are not printed.
    const bool with_twin = c.mi("twin", 0) != 0;
    Probe twin(lin, circ);
    if (with_twin) twin.setMobileAverageWindowSize(7);
    vf::out_begin(c.id);
    for (std::size_t k = 0; k < ops.size(); k++) {
        const std::string& o = ops[k];
        const std::string ks = std::to_string(k);
        if (with_twin && (o == "e2" || o == "e5")) {
            vf::Entry e("EstimatesExtraction::extract/twin");
            const MatrixXd& P = c.mat("P" + ks);
            const VectorXd W = c.mat("W" + ks).col(0);
            MatrixXd P2 = vf::rotate_cols(P, 1).array() + 0.75;
            twin.setMethod(METHOD_VALUES[(k * 5 + 1) % 8]);
            if (k % 3 == 2) twin.setMobileAverageWindowSize(2 + static_cast<int>(k % 5));
            (void)twin.extract(P2, W);
        }
        if (o == "mv" || o == "ma" || o == "vg") {
            // move construction / move assignment: go on with the TARGET; the moved-from source is only asked
            // for its window (0 by HistoryBuffer.cpp:24/35) and then destroyed
            std::unique_ptr<Probe> target;
            if (o == "vg") {
                // std::vector growth: the element is move-constructed into the vector, moved again by every reallocation
                // (the move constructor is noexcept) next to fresh neighbours, and moved out at the end
                vf::Entry e("std::vector<EstimatesExtraction>::emplace_back");
                std::vector<Probe> v;
                v.reserve(1);
                v.emplace_back(std::move(*holder));
                for (int j = 0; j < 5; j++) v.emplace_back(lin + j, circ);
                target.reset(new Probe(std::move(v[0])));
                holder.reset(new Probe(std::move(v[0])));      // a second move from the (now moved-from) element: window 0
            } else if (o == "mv") {
                vf::Entry e("EstimatesExtraction::EstimatesExtraction(&&)");
                target.reset(new Probe(std::move(*holder)));
            } else {
                target.reset(new Probe(lin, circ));
                vf::Entry e("EstimatesExtraction::operator=(&&)");
                *target = std::move(*holder);
            }
            vf::out_int("ret" + ks, 1);
            vf::out_int("movedfrom_win" + ks, holder->window());
            holder = std::move(target);
        }
        Probe& ee = *holder;
        if (o == "mv" || o == "ma" || o == "vg") {
        } else if (o == "e2" || o == "e5") {
            const MatrixXd& P = c.mat("P" + ks);
            const VectorXd W = c.mat("W" + ks).col(0);
            std::pair<bool, VectorXd> r;
            if (o == "e2") {
                vf::Entry e("EstimatesExtraction::extract/2");
                r = ee.extract(P, W);
            } else {
                const MatrixXd& pwm = c.mat("PW" + ks);
                const VectorXd PW = pwm.cols() > 0 ? VectorXd(pwm.col(0)) : VectorXd(0);
                const VectorXd L = c.mat("L" + ks).col(0);
                const MatrixXd& T = c.mat("T" + ks);
                vf::Entry e("EstimatesExtraction::extract/5");
                r = ee.extract(P, W, PW, L, T);
            }
            vf::out_int("ret" + ks, r.first ? 1 : 0);
            out_col("est" + ks, r.second);
        } else if (o.rfind("m:", 0) == 0) {
            int idx = -1;
            for (int j = 0; j < 12; j++) if (o.substr(2) == METHODS[j]) idx = j;
            if (idx < 0) { std::fprintf(stderr, "BFL_VERIF_HARNESS unknown method %s\n", o.c_str()); std::exit(3); }
            vf::Entry e("EstimatesExtraction::setMethod");
            bool b = ee.setMethod(METHOD_VALUES[idx]);
            vf::out_int("ret" + ks, b ? 1 : 0);
        } else if (o.rfind("w:", 0) == 0) {
            const int w = static_cast<int>(std::stol(o.substr(2)));
            vf::Entry e("EstimatesExtraction::setMobileAverageWindowSize");
            bool b = ee.setMobileAverageWindowSize(w);
            vf::out_int("ret" + ks, b ? 1 : 0);
        } else if (o == "c") {
            vf::Entry e("EstimatesExtraction::clear");
            bool b = ee.clear();
            vf::out_int("ret" + ks, b ? 1 : 0);
        } else {
            std::fprintf(stderr, "BFL_VERIF_HARNESS unknown op %s\n", o.c_str()); std::exit(3);
        }
        {
            vf::Entry e("HistoryBuffer::getHistoryBuffer");
            vf::out_int("win" + ks, ee.window());
            vf::out_mat("hist" + ks, ee.history());
        }
        vf::out_int("meth" + ks, ee.method());
        out_col("smw" + ks, ee.smw());
        out_col("wmw" + ks, ee.wmw());
        out_col("emw" + ks, ee.emw());
    }
    // the window size as the public API reports it
    Probe& ee = *holder;
    {
        vf::Entry e("EstimatesExtraction::getInfo");
        std::vector<std::string> info = ee.getInfo();
        long w = -1;
        if (!info.empty()) {
            const std::string key = "Current window size: ";
            auto p = info[0].find(key);
            if (p != std::string::npos) w = std::stol(info[0].substr(p + key.size()));
        }
        vf::out_int("info_window", w);
    }
    vf::out_int("caches_reachable", ee.caches_reachable());
    vf::out_end();
}

static void run_hb(const vf::Case& c) {
    const long d = c.mi("d");
    std::unique_ptr<HistoryBuffer> hholder(new HistoryBuffer(d));
    const std::vector<std::string>& ops = c.word("ops");
    vf::out_begin(c.id);
    for (std::size_t k = 0; k < ops.size(); k++) {
        const std::string& o = ops[k];
        const std::string ks = std::to_string(k);
        if (o == "mv" || o == "ma" || o == "vg") {
            std::unique_ptr<HistoryBuffer> target;
            if (o == "vg") {
                vf::Entry e("std::vector<HistoryBuffer>::emplace_back");
                std::vector<HistoryBuffer> v;
                v.reserve(1);
                v.emplace_back(std::move(*hholder));
                for (int j = 0; j < 5; j++) v.emplace_back(d + j);
                target.reset(new HistoryBuffer(std::move(v[0])));
                hholder.reset(new HistoryBuffer(std::move(v[0])));
            } else if (o == "mv") {
                vf::Entry e("HistoryBuffer::HistoryBuffer(&&)");
                target.reset(new HistoryBuffer(std::move(*hholder)));
            } else {
                target.reset(new HistoryBuffer(d));
                vf::Entry e("HistoryBuffer::operator=(&&)");
                *target = std::move(*hholder);
            }
            vf::out_int("ret" + ks, 1);
            vf::out_int("movedfrom_win" + ks, hholder->getHistorySize());
            hholder = std::move(target);
        }
        HistoryBuffer& hb = *hholder;
        if (o == "mv" || o == "ma" || o == "vg") {
        } else if (o == "a") {
            const VectorXd x = c.mat("X" + ks).col(0);
            vf::Entry e("HistoryBuffer::addElement");
            hb.addElement(x);
            vf::out_int("ret" + ks, 1);
        } else if (o.rfind("s:", 0) == 0) {
            const long w = std::stol(o.substr(2));
            vf::Entry e("HistoryBuffer::setHistorySize");
            bool b = hb.setHistorySize(static_cast<unsigned int>(w));
            vf::out_int("ret" + ks, b ? 1 : 0);
        } else if (o == "d") {
            vf::Entry e("HistoryBuffer::decreaseHistorySize");
            vf::out_int("ret" + ks, hb.decreaseHistorySize() ? 1 : 0);
        } else if (o == "i") {
            vf::Entry e("HistoryBuffer::increaseHistorySize");
            vf::out_int("ret" + ks, hb.increaseHistorySize() ? 1 : 0);
        } else if (o == "c") {
            vf::Entry e("HistoryBuffer::clear");
            vf::out_int("ret" + ks, hb.clear() ? 1 : 0);
        } else {
            std::fprintf(stderr, "BFL_VERIF_HARNESS unknown op %s\n", o.c_str()); std::exit(3);
        }
        vf::Entry e("HistoryBuffer::getHistoryBuffer");
        vf::out_int("win" + ks, hb.getHistorySize());
        vf::out_mat("hist" + ks, hb.getHistoryBuffer());
    }
    vf::out_end();
}

int main() {
#if !defined(__SANITIZE_ADDRESS__) && !defined(__SANITIZE_THREAD__)
    std::signal(SIGSEGV, on_fatal); std::signal(SIGBUS, on_fatal); std::signal(SIGFPE, on_fatal); std::signal(SIGABRT, on_fatal);
#endif
    vf::Case c;
    while (vf::read_case(std::cin, c)) {
        // A record is written to stdout only when the case has completed: a crash in the middle of a case
        // must not leave a truncated record behind (the runner isolates the case from what is missing).
        std::ostringstream rec;
        std::streambuf* old = std::cout.rdbuf(rec.rdbuf());
        if (c.kind == "est") run_est(c);
        else if (c.kind == "hb") run_hb(c);
        else { std::cout.rdbuf(old); std::fprintf(stderr, "BFL_VERIF_HARNESS unknown kind %s\n", c.kind.c_str()); return 3; }
        std::cout.rdbuf(old);
        std::cout << rec.str() << std::flush;
    }
    return 0;
}
