// h_C14.cpp — harness for C14 (no out-of-bounds access, no size mismatch).
// One case = one configuration and the sequence of public entry points the
// shape calculus (coq/C14_Model.v, case_<kind>) describes.  Built with the
// "assert" variant (Eigen assertions redirected: exit code 42 and a line
// BFL_VERIF_EIGEN_ASSERT entry=<label> ...) and with "asan".  Every API call is
// announced with E("<Class::method>") — the labels are the entry labels of the
// model.  A case that runs to its end prints the observable shapes/return
// values ("obs") the model predicts; an exception thrown by the library's own
// validation is reported as verdict "threw" with the entry label.
#define VF_MAIN
#include "common.hpp"
#include <BayesFilters/AdditiveMeasurementModel.h>
#include <BayesFilters/AdditiveStateModel.h>
#include <BayesFilters/BootstrapCorrection.h>
#include <BayesFilters/EstimatesExtraction.h>
#include <BayesFilters/GPFCorrection.h>
#include <BayesFilters/GaussianLikelihood.h>
#include <BayesFilters/GaussianMixture.h>
#include <BayesFilters/HistoryBuffer.h>
#include <BayesFilters/InitSurveillanceAreaGrid.h>
#include <BayesFilters/KFCorrection.h>
#include <BayesFilters/KFPrediction.h>
#include <BayesFilters/LTIMeasurementModel.h>
#include <BayesFilters/LTIStateModel.h>
#include <BayesFilters/LinearModel.h>
#include <BayesFilters/ParticleSet.h>
#include <BayesFilters/Resampling.h>
#include <BayesFilters/ResamplingWithPrior.h>
#include <BayesFilters/SUKFCorrection.h>
#include <BayesFilters/SimulatedLinearSensor.h>
#include <BayesFilters/SimulatedStateModel.h>
#include <BayesFilters/UKFCorrection.h>
#include <BayesFilters/UKFPrediction.h>
#include <BayesFilters/WhiteNoiseAcceleration.h>
#include <BayesFilters/sigma_point.h>
#include <BayesFilters/utils.h>
#include <csignal>
#include <unistd.h>

using namespace bfl;
using namespace Eigen;

// ---------------------------------------------------------------- reporting
extern "C" void __sanitizer_set_death_callback(void (*)(void)) __attribute__((weak));
static const char* g_entry = "none";
// UBSan's abort path runs no callback: under the sanitizers every entry is announced on stderr beforehand
struct E { vf::Entry e; explicit E(const char* l) : e(l) { g_entry = l; if (__sanitizer_set_death_callback) std::fprintf(stderr, "BFL_VERIF_ENTER entry=%s\n", l); } };

static void on_sanitizer_death() {
    char buf[256];
    int n = std::snprintf(buf, sizeof buf, "\nBFL_VERIF_SANITIZER entry=%s\n", g_entry);
    if (n > 0) { ssize_t w = write(2, buf, (size_t)n); (void)w; }
}
static void on_signal(int sig) {
    char buf[256];
    int n = std::snprintf(buf, sizeof buf, "\nBFL_VERIF_SIGNAL entry=%s signal=%d\n", g_entry, sig);
    if (n > 0) { ssize_t w = write(2, buf, (size_t)n); (void)w; }
    _exit(44);
}

static std::vector<long> obs;
static void ob(long v) { obs.push_back(v); }

// ---------------------------------------------------------------- data
struct Layout { long L, C; bool q; long csz() const { return q ? 4 : 1; } long tsz() const { return q ? 3 : 1; }
                long dim() const { return L + C * csz(); } long cov() const { return L + C * tsz(); } };
static VectorDescription desc(const Layout& l, long noise = 0) {
    return VectorDescription(l.L, l.C, noise, l.q ? VectorDescription::CircularType::Quaternion : VectorDescription::CircularType::Euler);
}
static double val(long i, long j, long k = 0) { return 0.05 * ((i * 7 + j * 3 + k * 5) % 11) - 0.2; }
static MatrixXd filled(long r, long c, long k = 0) {
    MatrixXd M(r, c);
    for (long i = 0; i < r; i++) for (long j = 0; j < c; j++) M(i, j) = val(i, j, k);
    return M;
}
static MatrixXd spd(long n, long k = 0) {
    MatrixXd A = filled(n, n, k);
    MatrixXd P = A * A.transpose() * 0.1 + MatrixXd::Identity(n, n) * (1.0 + 0.1 * k);
    return P;
}
// unit quaternions in the quaternion blocks of every column
static void fix_quaternions(Ref<MatrixXd> M, const Layout& l) {
    if (!l.q) return;
    for (long j = 0; j < l.C; j++) {
        if (l.L + 4 * j + 4 > M.rows()) break;
        for (long c = 0; c < M.cols(); c++) {
            Vector4d v(1.0, 0.02 * ((c + j) % 5), -0.01 * (c % 3), 0.015 * (j % 4));
            M.block(l.L + 4 * j, c, 4, 1) = v.normalized();
        }
    }
}
template <typename Mix> static void fill_mixture(Mix& g, const Layout& l, long k = 0) {
    g.mean() = filled(g.mean().rows(), g.mean().cols(), k);
    fix_quaternions(g.mean(), l);
    for (std::size_t i = 0; i < g.components; i++) g.covariance(i) = spd(g.dim_covariance, k + (long)i);
}
static GaussianMixture make_mixture(const Layout& l, long comps, long noise = 0, long k = 0) {
    GaussianMixture g(comps, l.L, l.C, l.q);
    fill_mixture(g, l, k);
    if (noise > 0) g.augmentWithNoise(spd(noise, k + 3));
    return g;
}
static ParticleSet make_particles(const Layout& l, long n, long k = 0) {
    ParticleSet p(n, l.L, l.C, l.q);
    fill_mixture(p, l, k);
    p.state() = filled(p.state().rows(), p.state().cols(), k + 1);
    fix_quaternions(p.state(), l);
    for (long i = 0; i < n; i++) p.weight(i) = std::log((i + 1.0) / (n * (n + 1.0) / 2.0));   // increasing, normalised
    return p;
}
static Layout lay(const vf::Case& c, const std::string& pfx) { return Layout{c.mi(pfx + "L"), c.mi(pfx + "C"), c.mi(pfx + "q") != 0}; }

// ---------------------------------------------------------------- user-defined models
// state models over an arbitrary layout: motion/propagate copy what fits, damp it, and keep quaternions unit
struct UState : public StateModel {
    Layout ls; long q;
    UState(const Layout& l, long q_) : ls(l), q(q_) {}
    void step(const Ref<const MatrixXd>& cur, Ref<MatrixXd> out) {
        for (long i = 0; i < out.rows(); i++) for (long j = 0; j < out.cols(); j++)
            out(i, j) = (i < cur.rows() && j < cur.cols() ? 0.9 * cur(i, j) : 0.0) + 0.01 * (i + 1);
        // generic model: the noise rows of the augmented input act on the first rows
        for (long i = ls.dim(); i < cur.rows() && (i - ls.dim()) < out.rows(); i++)
            for (long j = 0; j < out.cols() && j < cur.cols(); j++) out(i - ls.dim(), j) += 0.1 * cur(i, j);
        fix_quaternions(out, ls);
    }
    void propagate(const Ref<const MatrixXd>& cur, Ref<MatrixXd> prop) override { step(cur, prop); }
    void motion(const Ref<const MatrixXd>& cur, Ref<MatrixXd> mot) override { step(cur, mot); }
    bool setProperty(const std::string&) override { return false; }
    VectorDescription getInputDescription() override { return desc(ls, q); }
    VectorDescription getStateDescription() override { return desc(ls); }
    MatrixXd getNoiseCovarianceMatrix() override { return spd(q, 2); }
};
struct UAddState : public AdditiveStateModel {
    Layout ls; long qr, qc;
    UAddState(const Layout& l, long qr_, long qc_) : ls(l), qr(qr_), qc(qc_) {}
    void propagate(const Ref<const MatrixXd>& cur, Ref<MatrixXd> prop) override {
        for (long i = 0; i < prop.rows(); i++) for (long j = 0; j < prop.cols(); j++)
            prop(i, j) = (i < cur.rows() && j < cur.cols() ? 0.9 * cur(i, j) : 0.0) + 0.01 * (i + 1);
        fix_quaternions(prop, ls);
    }
    bool setProperty(const std::string&) override { return false; }
    VectorDescription getStateDescription() override { return desc(ls); }
    MatrixXd getNoiseCovarianceMatrix() override { return qr == qc ? spd(qr, 2) : filled(qr, qc, 2); }
    MatrixXd getNoiseSample(const std::size_t num) override { return MatrixXd::Zero(ls.dim(), num); }
};
// measurement model with an arbitrary measurement layout, a possibly failing evaluation, a chosen shape of the
// predicted measurement and of the innovation
struct UMeas : public AdditiveMeasurementModel {
    Layout lm, lin_; long r, ir; bool valid; long pr, pc;   // pr/pc < 0: msize x cols
    long yr, yc, rcols;
    UMeas(const Layout& lm_, const Layout& li, long r_, long ir_, bool v, long pr_ = -1, long pc_ = -1)
        : lm(lm_), lin_(li), r(r_), ir(ir_), valid(v), pr(pr_), pc(pc_), yr(lm_.dim()), yc(1), rcols(r_) {}
    bool freeze(const Data&) override { return true; }
    std::pair<bool, Data> measure(const Data&) const override {
        MatrixXd y = filled(yr, yc, 4); fix_quaternions(y, lm);
        return std::make_pair(true, Data(y));
    }
    std::pair<bool, Data> predictedMeasure(const Ref<const MatrixXd>& s) const override {
        MatrixXd p(pr < 0 ? lm.dim() : pr, pc < 0 ? s.cols() : pc);
        for (long i = 0; i < p.rows(); i++) for (long j = 0; j < p.cols(); j++)
            p(i, j) = 0.01 * (i + 1) + (i < s.rows() && j < s.cols() ? 0.5 * s(i, j) : 0.0);
        fix_quaternions(p, lm);
        return std::make_pair(valid, Data(p));
    }
    std::pair<bool, Data> innovation(const Data& p, const Data&) const override {
        const MatrixXd& pm = any::any_cast<const MatrixXd&>(p);
        MatrixXd inn = filled(ir, pm.cols(), 6);
        return std::make_pair(true, Data(inn));
    }
    std::pair<bool, MatrixXd> getNoiseCovarianceMatrix() const override { return std::make_pair(true, r == rcols ? spd(r, 5) : filled(r, rcols, 5)); }
    VectorDescription getInputDescription() const override { return desc(lin_, r); }
    VectorDescription getMeasurementDescription() const override { return desc(lm); }
};
struct ServedLTI : public LTIMeasurementModel {
    MatrixXd y_; bool available = true;
    ServedLTI(const MatrixXd& H, const MatrixXd& R, const MatrixXd& y) : LTIMeasurementModel(H, R), y_(y) {}
    bool freeze(const Data&) override { return true; }
    std::pair<bool, Data> measure(const Data&) const override { return std::make_pair(available, Data(y_)); }
};
struct LTIState : public LTIStateModel {
    LTIState(const MatrixXd& F, const MatrixXd& Q) : LTIStateModel(F, Q) {}
    VectorDescription getStateDescription() override { return VectorDescription(getStateTransitionMatrix().rows()); }
};
struct ZeroInit : public ParticleSetInitialization {
    bool initialize(ParticleSet& p) override { p.state().setZero(); p.mean().setZero(); return true; }
};
// a prior that is temporarily unavailable: reports failure and touches nothing
struct RefusePrior : public ParticleSetInitialization {
    bool initialize(ParticleSet&) override { return false; }
};
// the prior of a ResamplingWithPrior by name: zero (always succeeds), refuse (always fails), grid (the shipped
// InitSurveillanceAreaGrid gx x gy: succeeds only on gx*gy particles with 4-row states)
static std::unique_ptr<ParticleSetInitialization> make_prior(const vf::Case& c) {
    std::string pr = c.m("prior", "zero");
    if (pr == "refuse") return std::unique_ptr<ParticleSetInitialization>(new RefusePrior());
    if (pr == "grid") return std::unique_ptr<ParticleSetInitialization>(new InitSurveillanceAreaGrid(0.0, 10.0, -2.0, 6.0, (unsigned)c.mi("gx"), (unsigned)c.mi("gy")));
    return std::unique_ptr<ParticleSetInitialization>(new ZeroInit());
}
// parents that are neither -1 (drawn from the prior) nor the index of an input particle
static long invalid_parents(const VectorXi& parents, long n) {
    long bad = 0;
    for (long i = 0; i < parents.size(); i++) if (!(parents(i) == -1 || (parents(i) >= 0 && parents(i) < n))) bad++;
    return bad;
}
struct SensorAccess : public SimulatedLinearSensor {
    using SimulatedLinearSensor::SimulatedLinearSensor;
    std::pair<bool, MatrixXd> noise(int num) const { return getNoiseSample(num); }
};
static WhiteNoiseAcceleration::Dim wdim(long D) {
    return D == 1 ? WhiteNoiseAcceleration::Dim::OneD : D == 2 ? WhiteNoiseAcceleration::Dim::TwoD : WhiteNoiseAcceleration::Dim::ThreeD;
}

// ---------------------------------------------------------------- the case kinds
static void k_wna(const vf::Case& c) {
    long D = c.mi("D"), num = c.mi("num");
    std::unique_ptr<WhiteNoiseAcceleration> w;
    { E e("WhiteNoiseAcceleration::WhiteNoiseAcceleration"); w.reset(new WhiteNoiseAcceleration(wdim(D), 0.7, 1.3, 5)); }
    { E e("WhiteNoiseAcceleration::getNoiseSample"); MatrixXd s = w->getNoiseSample(num); ob(s.rows()); ob(s.cols()); }
    MatrixXd cur = filled(c.mi("sr"), c.mi("sc"));
    { E e("WhiteNoiseAcceleration::propagate"); MatrixXd out(c.mi("mr"), c.mi("mc")); w->propagate(cur, out); }
    { E e("WhiteNoiseAcceleration::motion"); MatrixXd out(c.mi("mr"), c.mi("mc")); w->motion(cur, out); }
    { E e("WhiteNoiseAcceleration::getTransitionProbability");
      MatrixXd prev = filled(c.mi("pr"), c.mi("pc"), 1), nxt = filled(c.mi("cr"), c.mi("cc"), 2);
      VectorXd p = w->getTransitionProbability(prev, nxt); ob(p.size()); }
}

static void k_simstate(const vf::Case& c) {
    long D = c.mi("D"), T = c.mi("T"), ir = c.mi("ir");
    std::unique_ptr<WhiteNoiseAcceleration> w;
    { E e("WhiteNoiseAcceleration::WhiteNoiseAcceleration"); w.reset(new WhiteNoiseAcceleration(wdim(D), 0.7, 1.3, 5)); }
    std::unique_ptr<SimulatedStateModel> s;
    { E e("SimulatedStateModel::SimulatedStateModel"); s.reset(new SimulatedStateModel(std::move(w), VectorXd(filled(ir, 1)), T)); }
    for (auto& t : c.word("ops")) {
        if (t == "r") { E e("SimulatedStateModel::setProperty"); s->setProperty("reset"); continue; }
        E e("SimulatedStateModel::bufferData");
        bool r = s->bufferData(); ob(r ? 1 : 0);
        if (r) { MatrixXd d = any::any_cast<MatrixXd>(s->getData()); ob(d.rows()); ob(d.cols()); }
    }
}

static void k_linsensor(const vf::Case& c) {
    long D = c.mi("D"), T = c.mi("T"), ir = c.mi("ir"), sn = c.mi("sn"), calls = c.mi("calls");
    std::vector<std::size_t> ms;
    for (auto& t : c.word("ms")) ms.push_back((std::size_t)std::stol(t));
    std::unique_ptr<WhiteNoiseAcceleration> w;
    { E e("WhiteNoiseAcceleration::WhiteNoiseAcceleration"); w.reset(new WhiteNoiseAcceleration(wdim(D), 0.7, 1.3, 5)); }
    std::unique_ptr<SimulatedStateModel> s;
    { E e("SimulatedStateModel::SimulatedStateModel"); s.reset(new SimulatedStateModel(std::move(w), VectorXd(filled(ir, 1)), T)); }
    std::unique_ptr<SensorAccess> sen;
    { E e("SimulatedLinearSensor::SimulatedLinearSensor");
      long rr = c.mi("rr"), rc = c.mi("rc");
      MatrixXd R = rr == rc ? spd(rr) : filled(rr, rc);
      sen.reset(new SensorAccess(std::move(s), std::make_pair((std::size_t)sn, ms), R, 7)); }
    for (long k = 0; k < calls; k++) {
        E e("SimulatedLinearSensor::freeze");
        bool r = sen->freeze(); ob(r ? 1 : 0);
        if (r) { MatrixXd y = any::any_cast<MatrixXd>(sen->measure().second); ob(y.rows()); ob(y.cols()); }
    }
    { E e("LinearModel::getNoiseSample"); MatrixXd n = sen->noise((int)c.mi("num")).second; ob(n.rows()); ob(n.cols()); }
    Data pred;
    { E e("LinearMeasurementModel::predictedMeasure");
      pred = sen->predictedMeasure(filled(c.mi("sr"), c.mi("sc"))).second;
      const MatrixXd& p = any::any_cast<const MatrixXd&>(pred); ob(p.rows()); ob(p.cols()); }
    { E e("LinearMeasurementModel::innovation");
      Data y = Data(MatrixXd(filled((long)ms.size(), 1, 3)));
      MatrixXd in = any::any_cast<MatrixXd>(sen->innovation(pred, y).second); ob(in.rows()); ob(in.cols()); }
}

static void k_history(const vf::Case& c) {
    long ssz = c.mi("ssz");
    HistoryBuffer h(ssz);
    for (auto& t : c.word("ops")) {
        if (t[0] == 'a') { E e("HistoryBuffer::addElement"); h.addElement(VectorXd(filled(std::stol(t.substr(1)), 1))); }
        else if (t[0] == 's') { E e("HistoryBuffer::setHistorySize"); h.setHistorySize((unsigned)std::stol(t.substr(1))); }
        else if (t == "dec") { E e("HistoryBuffer::decreaseHistorySize"); h.decreaseHistorySize(); }
        else if (t == "inc") { E e("HistoryBuffer::increaseHistorySize"); h.increaseHistorySize(); }
        else if (t == "clr") { E e("HistoryBuffer::clear"); h.clear(); }
        else if (t == "get") { E e("HistoryBuffer::getHistoryBuffer"); MatrixXd m = h.getHistoryBuffer(); ob(m.rows()); ob(m.cols()); }
        ob(h.getHistorySize());
    }
}

static void k_grid(const vf::Case& c) {
    Layout l = lay(c, "");
    ParticleSet p(c.mi("n"), l.L, l.C, l.q);
    InitSurveillanceAreaGrid g(0.0, 10.0, -2.0, 6.0, (unsigned)c.mi("nx"), (unsigned)c.mi("ny"));
    E e("InitSurveillanceAreaGrid::initialize");
    bool r = g.initialize(p); ob(r ? 1 : 0);
}

static void k_sigma(const vf::Case& c) {
    Layout l = lay(c, "");
    GaussianMixture g = make_mixture(l, c.mi("comps"), c.mi("noise"));
    E e("sigma_point::sigma_point");
    MatrixXd s = sigma_point::sigma_point(g, 3.0); ob(s.rows()); ob(s.cols());
}

static void k_psaug(const vf::Case& c) {
    Layout l = lay(c, "");
    ParticleSet p = make_particles(l, c.mi("comps"));
    auto noise = [](long r, long cc) { return r == cc ? spd(r, 3) : filled(r, cc, 3); };
    { E e("ParticleSet::augmentWithNoise"); ob(p.augmentWithNoise(noise(c.mi("qr"), c.mi("qc"))) ? 1 : 0); }
    { E e("ParticleSet::augmentWithNoise"); ob(p.augmentWithNoise(noise(c.mi("qr2"), c.mi("qc2"))) ? 1 : 0); }
    ob(p.dim); ob(p.dim_covariance); ob(p.dim_noise); ob(p.state().rows()); ob(p.mean().rows()); ob(p.covariance().rows()); ob(p.covariance().cols());
    E e("sigma_point::sigma_point");
    MatrixXd s = sigma_point::sigma_point(p, 3.0); ob(s.rows()); ob(s.cols());
}

static void ob_ut(const GaussianMixture& o, const MatrixXd& pxy) {
    ob(o.components); ob(o.dim); ob(o.dim_covariance); ob(pxy.rows()); ob(pxy.cols());
}
static void k_ut(const vf::Case& c) {
    long variant = c.mi("variant"), comps = c.mi("comps"), w = c.mi("w");
    Layout li = lay(c, "i"), lo = lay(c, "o");
    bool valid = c.mi("valid") != 0;
    long pr = c.mi("pr"), pc = c.mi("pc"), qr = c.mi("qr"), qc = c.mi("qc");
    GaussianMixture in = make_mixture(li, comps, c.mi("inoise"));
    std::unique_ptr<sigma_point::UTWeight> wtp;
    { E e("sigma_point::UTWeight::UTWeight"); wtp.reset(new sigma_point::UTWeight((std::size_t)w, 1.0, 2.0, 0.5)); }
    sigma_point::UTWeight& wt = *wtp;
    if (variant == 0) {
        sigma_point::FunctionEvaluation f = [&](const Ref<const MatrixXd>& s) {
            MatrixXd p(pr, pc);
            for (long i = 0; i < pr; i++) for (long j = 0; j < pc; j++) p(i, j) = 0.01 * (i + 1) + (i < s.rows() && j < s.cols() ? 0.5 * s(i, j) : 0.0);
            fix_quaternions(p, lo);
            return std::make_tuple(valid, Data(p), desc(lo)); };
        E e("sigma_point::unscented_transform(FunctionEvaluation)");
        bool v; GaussianMixture o; MatrixXd pxy;
        std::tie(v, o, pxy) = sigma_point::unscented_transform(in, wt, f); ob(v ? 1 : 0); ob_ut(o, pxy);
    } else if (variant == 1) {
        UState m(lo, c.mi("inoise"));
        E e("sigma_point::unscented_transform(StateModel)");
        GaussianMixture o; MatrixXd pxy;
        std::tie(o, pxy) = sigma_point::unscented_transform(in, wt, static_cast<StateModel&>(m)); ob(1); ob_ut(o, pxy);
    } else if (variant == 2) {
        UAddState m(lo, qr, qc);
        E e("sigma_point::unscented_transform(AdditiveStateModel)");
        GaussianMixture o; MatrixXd pxy;
        std::tie(o, pxy) = sigma_point::unscented_transform(in, wt, static_cast<AdditiveStateModel&>(m)); ob(1); ob_ut(o, pxy);
    } else {
        UMeas m(lo, li, qr, lo.cov(), valid, pr, pc);
        m.rcols = qc;
        bool v; GaussianMixture o; MatrixXd pxy;
        if (variant == 3) { E e("sigma_point::unscented_transform(MeasurementModel)");
            std::tie(v, o, pxy) = sigma_point::unscented_transform(in, wt, static_cast<MeasurementModel&>(m)); }
        else { E e("sigma_point::unscented_transform(AdditiveMeasurementModel)");
            std::tie(v, o, pxy) = sigma_point::unscented_transform(in, wt, static_cast<AdditiveMeasurementModel&>(m)); }
        ob(v ? 1 : 0); ob_ut(o, pxy);
    }
}

static void k_kfp(const vf::Case& c) {
    long d = c.mi("d");
    Layout lp = lay(c, "p"), lq = lay(c, "q");
    GaussianMixture prev = make_mixture(lp, c.mi("comps")), pred = make_mixture(lq, c.mi("compsq"), 0, 2);
    KFPrediction kf(std::unique_ptr<LinearStateModel>(new LTIState(filled(d, d, 1) + MatrixXd::Identity(d, d), spd(d, 2))));
    E e("KFPrediction::predict");
    kf.predict(prev, pred); ob(pred.components); ob(pred.dim);
}

static void k_kfc(const vf::Case& c) {
    long m = c.mi("m"), n = c.mi("n");
    Layout lp = lay(c, "p"), lq = lay(c, "q");
    GaussianMixture pred = make_mixture(lp, c.mi("comps")), corr = make_mixture(lq, c.mi("compsq"), 0, 2);
    ServedLTI* raw = new ServedLTI(filled(m, n, 1), spd(m, 2), filled(c.mi("yr"), c.mi("yc"), 3));
    KFCorrection kf((std::unique_ptr<LinearMeasurementModel>(raw)));
    { E e("KFCorrection::correct"); kf.freeze_measurements(); kf.correct(pred, corr); ob(corr.components); ob(corr.dim); }
    { E e("KFCorrection::getLikelihood"); auto r = kf.getLikelihood(); ob(r.first ? 1 : 0); ob(r.second.size()); }
    if (c.mi("again")) {     // a second correction that cannot use the measurement, then the likelihood
        raw->available = false;
        { E e("KFCorrection::correct"); kf.correct(pred, corr); ob(corr.components); ob(corr.dim); }
        { E e("KFCorrection::getLikelihood"); auto r = kf.getLikelihood(); ob(r.first ? 1 : 0); ob(r.second.size()); }
    }
}

static void k_ukfp(const vf::Case& c) {
    bool additive = c.mi("additive") != 0;
    Layout lp = lay(c, "p"), ls = lay(c, "s");
    long comps = c.mi("comps"), q = c.mi("q");
    GaussianMixture prev = make_mixture(lp, comps), pred(1, 1);
    std::unique_ptr<UKFPrediction> u;
    { E e("UKFPrediction::UKFPrediction");
      if (additive) u.reset(new UKFPrediction(std::unique_ptr<AdditiveStateModel>(new UAddState(ls, q, q)), 1.0, 2.0, 0.5));
      else u.reset(new UKFPrediction(std::unique_ptr<StateModel>(new UState(ls, q)), 1.0, 2.0, 0.5)); }
    E e("UKFPrediction::predict");
    u->predict(prev, pred); ob(pred.components); ob(pred.dim); ob(pred.dim_covariance);
}

static void k_ukfc(const vf::Case& c) {
    bool additive = c.mi("additive") != 0, valid = c.mi("valid") != 0;
    Layout lp = lay(c, "p"), lm = lay(c, "m"), lq = lay(c, "q");
    long comps = c.mi("comps"), r = c.mi("r"), ir = c.mi("ir");
    GaussianMixture pred = make_mixture(lp, comps), corr = make_mixture(lq, c.mi("compsq"), 0, 2);
    std::unique_ptr<UMeas> mm(new UMeas(lm, lp, r, ir, valid));
    UMeas* raw = mm.get();
    std::unique_ptr<UKFCorrection> u;
    { E e("UKFCorrection::UKFCorrection");
      if (additive) u.reset(new UKFCorrection(std::unique_ptr<AdditiveMeasurementModel>(std::move(mm)), 1.0, 2.0, 0.5));
      else u.reset(new UKFCorrection(std::unique_ptr<MeasurementModel>(std::move(mm)), 1.0, 2.0, 0.5, c.mi("online") != 0)); }
    { E e("UKFCorrection::correct"); u->freeze_measurements(); u->correct(pred, corr); ob(corr.components); ob(corr.dim); }
    { E e("UKFCorrection::getLikelihood"); auto l = u->getLikelihood(); ob(l.first ? 1 : 0); ob(l.second.size()); }
    if (c.mi("again")) {     // a second correction whose evaluation fails, then the likelihood
        raw->valid = false;
        { E e("UKFCorrection::correct"); u->correct(pred, corr); ob(corr.components); ob(corr.dim); }
        { E e("UKFCorrection::getLikelihood"); auto l = u->getLikelihood(); ob(l.first ? 1 : 0); ob(l.second.size()); }
    }
}

static void k_sukf(const vf::Case& c) {
    Layout lp = lay(c, "p"), lq = lay(c, "q");
    long comps = c.mi("comps"), msz = c.mi("msz"), sub = c.mi("sub"), r = c.mi("r"), ir = c.mi("ir");
    GaussianMixture pred = make_mixture(lp, comps), corr = make_mixture(lq, c.mi("compsq"), 0, 2);
    UMeas* raw = new UMeas(Layout{msz, 0, false}, lp, r, ir, true);
    std::unique_ptr<AdditiveMeasurementModel> mm(raw);
    std::unique_ptr<SUKFCorrection> up;
    { E e("SUKFCorrection::SUKFCorrection"); up.reset(new SUKFCorrection(std::move(mm), 1.0, 2.0, 0.5, (std::size_t)sub, c.mi("reduced") != 0)); }
    SUKFCorrection& u = *up;
    { E e("SUKFCorrection::correct"); u.freeze_measurements(); u.correct(pred, corr); ob(corr.components); ob(corr.dim); }
    { E e("SUKFCorrection::getLikelihood"); auto l = u.getLikelihood(); ob(l.first ? 1 : 0); ob(l.second.size()); }
    if (c.mi("again")) {
        raw->valid = false;
        { E e("SUKFCorrection::correct"); u.correct(pred, corr); ob(corr.components); ob(corr.dim); }
        { E e("SUKFCorrection::getLikelihood"); auto l = u.getLikelihood(); ob(l.first ? 1 : 0); ob(l.second.size()); }
    }
}

static void ob_particles(const ParticleSet& p) {
    ob(p.components); ob(p.state().cols()); ob(p.mean().cols()); ob(p.weight().rows()); ob(p.covariance().cols());
}
static void k_resample(const vf::Case& c) {
    Layout lc = lay(c, "c"), lr = lay(c, "r");
    ParticleSet cor = make_particles(lc, c.mi("n")), res = make_particles(lr, c.mi("nr"), 2);
    VectorXi parents(c.mi("np"));
    Resampling r(11);
    { E e("Resampling::neff"); double ne = r.neff(cor.weight()); (void)ne; }
    E e("Resampling::resample");
    r.resample(cor, res, parents); ob_particles(res);
}
static void k_resprior(const vf::Case& c) {
    Layout lc = lay(c, "c");
    ParticleSet cor = make_particles(lc, c.mi("n")), res = make_particles(lc, c.mi("n"), 2);
    VectorXi parents(c.mi("np"));
    parents.setConstant(-7);
    ResamplingWithPrior r(make_prior(c), std::stod(c.m("ratio")), 11);
    E e("ResamplingWithPrior::resample");
    r.resample(cor, res, parents); ob_particles(res);
    if (c.m("prior", "zero") != "zero") ob(invalid_parents(parents, c.mi("n")));
}

static void k_density(const vf::Case& c) {
    long r = c.mi("r"), cc = c.mi("c"), k = c.mi("k"), a = c.mi("a"), b = c.mi("b");
    MatrixXd in = filled(r, cc); VectorXd mean = filled(k, 1, 1); MatrixXd cov = a == b ? spd(a, 2) : filled(a, b, 2);
    E e("utils::multivariate_gaussian_log_density");
    VectorXd v = utils::multivariate_gaussian_log_density(in, mean, cov); ob(v.size());
}
static void k_uvr(const vf::Case& c) {
    long r = c.mi("r"), cc = c.mi("c"), k = c.mi("k"), bs = c.mi("bs"), rc = c.mi("rc");
    MatrixXd in = filled(r, cc); VectorXd mean = filled(k, 1, 1);
    MatrixXd U = filled(c.mi("ur"), c.mi("uc"), 2) * 0.3, V = filled(c.mi("vr"), c.mi("vc"), 3) * 0.3;
    MatrixXd R(bs, rc);
    for (long j = 0; j < rc; j++) for (long i = 0; i < bs; i++) R(i, j) = (bs > 0 && j % bs == i) ? 1.5 : 0.1;
    E e("utils::multivariate_gaussian_log_density_UVR");
    VectorXd v = utils::multivariate_gaussian_log_density_UVR(in, mean, U, V, R); ob(v.size());
}

static void k_extract(const vf::Case& c) {
    long el = c.mi("el"), ec = c.mi("ec"), w = c.mi("w"), calls = c.mi("calls"), stat = c.mi("stat"), avg = c.mi("avg");
    EstimatesExtraction ex(el, ec);
    using M = EstimatesExtraction::ExtractionMethod;
    static const M table[3][4] = {{M::mean, M::smean, M::wmean, M::emean}, {M::mode, M::smode, M::wmode, M::emode}, {M::map, M::smap, M::wmap, M::emap}};
    ex.setMethod(table[stat][avg]);
    if (w > 0) { E e("EstimatesExtraction::setMobileAverageWindowSize"); ex.setMobileAverageWindowSize((int)w); }
    long n = c.mi("n");
    MatrixXd parts = filled(c.mi("pr"), n);
    auto incr = [](long k) { VectorXd v(k); for (long i = 0; i < k; i++) v(i) = std::log((i + 1.0) / (k * (k + 1.0) / 2.0)); return v; };
    VectorXd wts = incr(c.mi("wn")), pw = incr(c.mi("pw"));
    VectorXd lik(c.mi("ln")); for (long i = 0; i < lik.size(); i++) lik(i) = 0.1 + i;
    MatrixXd tp = MatrixXd::Constant(c.mi("tr"), c.mi("tc"), 0.3);
    for (long k = 0; k < calls; k++) {
        E e("EstimatesExtraction::extract");
        std::pair<bool, VectorXd> r = stat == 2 ? ex.extract(parts, wts, pw, lik, tp) : ex.extract(parts, wts);
        ob(r.first ? 1 : 0); ob(r.second.size());
    }
}

// ---------------------------------------------------------------- operation sequences on ONE object
static std::vector<long> wins;
static std::vector<long> ints_of(const std::string& t) {      // "x:3:5:5" -> 3 5 5 ; "c4" -> 4
    std::vector<long> v; std::string cur; bool any_digit = false;
    for (size_t i = 1; i <= t.size(); i++) {
        char ch = i < t.size() ? t[i] : ':';
        if (ch == ':') { if (any_digit) v.push_back(std::stol(cur)); cur.clear(); any_digit = false; }
        else { cur.push_back(ch); any_digit = true; }
    }
    return v;
}
// the window, as the public getInfo() reports it (-1: not recognised)
static long window_of(const EstimatesExtraction& ex) {
    std::vector<std::string> info = ex.getInfo();
    if (info.empty()) return -1;
    size_t p = info[0].find_first_of("0123456789");
    if (p == std::string::npos) return -1;
    return std::stol(info[0].substr(p));
}
static VectorXd incr_weights(long k) { VectorXd v(k); for (long i = 0; i < k; i++) v(i) = std::log((i + 1.0) / (k * (k + 1.0) / 2.0)); return v; }

// EstimatesExtraction: setMethod / setMobileAverageWindowSize / clear / extract (both overloads) in any order on one object
static void k_extseq(const vf::Case& c) {
    long el = c.mi("el"), ec = c.mi("ec");
    std::unique_ptr<EstimatesExtraction> exp_;
    { E e("EstimatesExtraction::EstimatesExtraction"); if (ec > 0) exp_.reset(new EstimatesExtraction(el, ec)); else exp_.reset(new EstimatesExtraction(el)); }
    EstimatesExtraction& ex = *exp_;
    using M = EstimatesExtraction::ExtractionMethod;
    static const M table[12] = {M::mean, M::smean, M::wmean, M::emean, M::mode, M::smode, M::wmode, M::emode, M::map, M::smap, M::wmap, M::emap};
    long call = 0;
    for (auto& t : c.word("ops")) {
        if (t == "clr") { E e("EstimatesExtraction::clear"); ob(ex.clear() ? 1 : 0); }
        else if (t[0] == 'm') { E e("EstimatesExtraction::setMethod"); ob(ex.setMethod(table[ints_of(t).at(0) % 12]) ? 1 : 0); }
        else if (t[0] == 'w') { E e("EstimatesExtraction::setMobileAverageWindowSize"); ob(ex.setMobileAverageWindowSize((int)std::stol(t.substr(1))) ? 1 : 0); }
        else {
            std::vector<long> a = ints_of(t);
            MatrixXd parts = filled(a.at(0), a.at(1), call++);
            VectorXd wts = incr_weights(a.at(2));
            E e("EstimatesExtraction::extract");
            std::pair<bool, VectorXd> r;
            if (t[0] == 'X') {
                VectorXd pw = incr_weights(a.at(3));
                VectorXd lik(a.at(4)); for (long i = 0; i < lik.size(); i++) lik(i) = 0.1 + ((i + call) % 5);
                MatrixXd tp = MatrixXd::Constant(a.at(5), a.at(6), 0.3);
                r = ex.extract(parts, wts, pw, lik, tp);
            } else r = ex.extract(parts, wts);
            ob(r.first ? 1 : 0); ob(r.second.size());
        }
        wins.push_back(window_of(ex));
    }
}

// Steps, models and utilities that keep a buffer sized by an EARLIER call (innovations_, meas_covariances_, predicted_meas_,
// propagated_sigma_points_, likelihood_, measurement_, UT weights): one object, several calls, the sizes CHANGING between calls
// (component / particle count, measurement layout and size, noise size, sample count).  No shape program: the assertion and
// sanitizer builds are the observers; the sizes the calls report are compared with what the arguments imply.
static void k_objseq(const vf::Case& c) {
    std::string what = c.m("what");
    const std::vector<std::string>& steps = c.word("steps");
    if (what == "kf") {
        long m = c.mi("m"), n = c.mi("n");
        ServedLTI* raw = new ServedLTI(filled(m, n, 1), spd(m, 2), filled(m, 1, 3));
        KFCorrection kf((std::unique_ptr<LinearMeasurementModel>(raw)));
        Layout l{n, 0, false};
        long k = 0;
        for (auto& t : steps) {
            if (t == "l") { E e("KFCorrection::getLikelihood"); auto r = kf.getLikelihood(); ob(r.first ? 1 : 0); ob(r.first ? r.second.size() : 0); continue; }
            long comps = ints_of(t).at(0);
            GaussianMixture pred = make_mixture(l, comps, 0, k), corr = make_mixture(l, comps, 0, k + 2); k++;
            raw->available = t[0] != 'u';
            kf.skip(t[0] == 'k');
            E e("KFCorrection::correct"); kf.freeze_measurements(); kf.correct(pred, corr); ob(corr.components); ob(corr.dim);
        }
    } else if (what == "ukf") {
        bool additive = c.mi("additive") != 0;
        Layout lp = lay(c, "p");
        long r0 = c.mi("r");
        std::unique_ptr<UMeas> mm(new UMeas(Layout{r0, 0, false}, lp, r0, r0, true));
        UMeas* raw = mm.get();
        std::unique_ptr<UKFCorrection> u;
        { E e("UKFCorrection::UKFCorrection");
          if (additive) u.reset(new UKFCorrection(std::unique_ptr<AdditiveMeasurementModel>(std::move(mm)), 1.0, 2.0, 0.5));
          else u.reset(new UKFCorrection(std::unique_ptr<MeasurementModel>(std::move(mm)), 1.0, 2.0, 0.5, c.mi("online") != 0)); }
        long k = 0;
        for (auto& t : steps) {
            if (t == "l") { E e("UKFCorrection::getLikelihood"); auto r = u->getLikelihood(); ob(r.first ? 1 : 0); ob(r.first ? r.second.size() : 0); continue; }
            std::vector<long> a = ints_of(t);          // comps : mL : mC : mq : r
            Layout lm{a.at(1), a.at(2), a.at(3) != 0};
            raw->lm = lm; raw->yr = lm.dim(); raw->ir = lm.cov(); raw->r = a.at(4); raw->rcols = a.at(4); raw->valid = t[0] != 'f';
            GaussianMixture pred = make_mixture(lp, a.at(0), 0, k), corr = make_mixture(lp, a.at(0), 0, k + 2); k++;
            E e("UKFCorrection::correct"); u->freeze_measurements(); u->correct(pred, corr); ob(corr.components); ob(corr.dim);
        }
    } else if (what == "sukf") {
        Layout lp = lay(c, "p");
        long sub = c.mi("sub"), m0 = c.mi("msz");
        UMeas* raw = new UMeas(Layout{m0, 0, false}, lp, m0, m0, true);
        std::unique_ptr<AdditiveMeasurementModel> mm(raw);
        std::unique_ptr<SUKFCorrection> up;
        { E e("SUKFCorrection::SUKFCorrection"); up.reset(new SUKFCorrection(std::move(mm), 1.0, 2.0, 0.5, (std::size_t)sub, c.mi("reduced") != 0)); }
        long k = 0;
        for (auto& t : steps) {
            if (t == "l") { E e("SUKFCorrection::getLikelihood"); auto r = up->getLikelihood(); ob(r.first ? 1 : 0); ob(r.first ? r.second.size() : 0); continue; }
            std::vector<long> a = ints_of(t);          // comps : msz
            long msz = a.at(1), rr = c.mi("reduced") ? sub : msz;
            raw->lm = Layout{msz, 0, false}; raw->yr = msz; raw->ir = msz; raw->r = rr; raw->rcols = rr; raw->valid = t[0] != 'f';
            GaussianMixture pred = make_mixture(lp, a.at(0), 0, k), corr = make_mixture(lp, a.at(0), 0, k + 2); k++;
            E e("SUKFCorrection::correct"); up->freeze_measurements(); up->correct(pred, corr); ob(corr.components); ob(corr.dim);
        }
    } else if (what == "gpf" || what == "boot") {
        // 2-D motion model (4 numbers per state), two measured components
        Layout l{4, 0, false};
        MatrixXd H = MatrixXd::Zero(2, 4); H(0, 0) = 1.0; H(1, 2) = 1.0;
        std::vector<ServedLTI*> served; UMeas* uraw = nullptr;
        std::unique_ptr<PFCorrection> pf;
        if (what == "gpf") {
            std::unique_ptr<GaussianCorrection> inner;
            if (c.mi("inner") == 0) { ServedLTI* sv = new ServedLTI(H, spd(2, 2), filled(2, 1, 3)); served.push_back(sv);
                                      inner.reset(new KFCorrection(std::unique_ptr<LinearMeasurementModel>(sv))); }
            else { uraw = new UMeas(Layout{2, 0, false}, l, 2, 2, true);
                   inner.reset(new UKFCorrection(std::unique_ptr<AdditiveMeasurementModel>(uraw), 1.0, 2.0, 0.5)); }
            std::unique_ptr<StateModel> sm(new WhiteNoiseAcceleration(WhiteNoiseAcceleration::Dim::TwoD, 1.0, 1.0, 3));
            E e("GPFCorrection::GPFCorrection");
            pf.reset(new GPFCorrection(std::unique_ptr<LikelihoodModel>(new GaussianLikelihood()), std::move(inner), std::move(sm), 3));
        } else {
            ServedLTI* sv = new ServedLTI(H, spd(2, 2), filled(2, 1, 3)); served.push_back(sv);
            E e("BootstrapCorrection::BootstrapCorrection");
            pf.reset(new BootstrapCorrection(std::unique_ptr<MeasurementModel>(sv), std::unique_ptr<LikelihoodModel>(new GaussianLikelihood(0.5))));
        }
        const char* lc = what == "gpf" ? "GPFCorrection::correct" : "BootstrapCorrection::correct";
        const char* ll = what == "gpf" ? "GPFCorrection::getLikelihood" : "BootstrapCorrection::getLikelihood";
        long k = 0;
        for (auto& t : steps) {
            if (t == "l") { E e(ll); auto r = pf->getLikelihood(); ob(r.first ? 1 : 0); ob(r.first ? r.second.size() : 0); continue; }
            long np = ints_of(t).at(0);
            ParticleSet pred = make_particles(l, np, k), corr = make_particles(l, np, k + 1); k++;
            for (ServedLTI* sv : served) sv->available = t[0] != 'u';
            if (uraw) uraw->valid = t[0] != 'u';
            pf->skip(t[0] == 'k');
            E e(lc); pf->freeze_measurements(); pf->correct(pred, corr);
            ob(corr.components); ob(corr.state().cols()); ob(corr.weight().size());
        }
    } else if (what == "resample" || what == "resprior") {
        std::unique_ptr<Resampling> r;
        if (what == "resample") r.reset(new Resampling(11));
        else r.reset(new ResamplingWithPrior(make_prior(c), std::stod(c.m("ratio")), 11));
        const char* le = what == "resample" ? "Resampling::resample" : "ResamplingWithPrior::resample";
        long k = 0;
        for (auto& t : steps) {
            std::vector<long> a = ints_of(t);          // n : L : C : q
            Layout l{a.at(1), a.at(2), a.at(3) != 0};
            ParticleSet cor = make_particles(l, a.at(0), k), res = make_particles(l, a.at(0), k + 2); k++;
            VectorXi parents(a.at(0)); parents.setConstant(-7);
            if (t[0] == 'n') { E e("Resampling::neff"); double ne = r->neff(cor.weight()); ob(ne > 0.0 ? 1 : 0); continue; }
            E e(le); r->resample(cor, res, parents); ob_particles(res); ob(invalid_parents(parents, a.at(0)));
        }
    } else if (what == "wna") {
        long D = c.mi("D"), d = 2 * D;
        std::unique_ptr<WhiteNoiseAcceleration> w;
        { E e("WhiteNoiseAcceleration::WhiteNoiseAcceleration"); w.reset(new WhiteNoiseAcceleration(wdim(D), 0.7, 1.3, 5)); }
        long k = 0;
        for (auto& t : steps) {
            long q = ints_of(t).at(0); k++;
            if (t[0] == 's') { E e("WhiteNoiseAcceleration::getNoiseSample"); MatrixXd s = w->getNoiseSample(q); ob(s.rows()); ob(s.cols()); }
            else if (t[0] == 'p') { E e("WhiteNoiseAcceleration::propagate"); MatrixXd out(d, q); w->propagate(filled(d, q, k), out); ob(out.rows()); ob(out.cols()); }
            else if (t[0] == 'm') { E e("WhiteNoiseAcceleration::motion"); MatrixXd out(d, q); w->motion(filled(d, q, k), out); ob(out.rows()); ob(out.cols()); }
            else { E e("WhiteNoiseAcceleration::getTransitionProbability"); VectorXd p = w->getTransitionProbability(filled(d, q, k), filled(d, q, k + 1)); ob(p.size()); ob(1); }
        }
    } else if (what == "sensor") {
        long D = c.mi("D"), d = 2 * D, T = c.mi("T");
        std::vector<std::size_t> ms;
        for (auto& t : c.word("ms")) ms.push_back((std::size_t)std::stol(t));
        long m = (long)ms.size();
        std::unique_ptr<WhiteNoiseAcceleration> w(new WhiteNoiseAcceleration(wdim(D), 0.7, 1.3, 5));
        std::unique_ptr<SimulatedStateModel> sm(new SimulatedStateModel(std::move(w), VectorXd(filled(d, 1)), T));
        std::unique_ptr<SensorAccess> sen;
        { E e("SimulatedLinearSensor::SimulatedLinearSensor"); sen.reset(new SensorAccess(std::move(sm), std::make_pair((std::size_t)d, ms), spd(m), 7)); }
        long k = 0;
        for (auto& t : steps) {
            long q = t.size() > 1 ? ints_of(t).at(0) : 0; k++;
            if (t[0] == 'z') { E e("SimulatedLinearSensor::freeze"); bool r = sen->freeze(); ob(r ? 1 : 0);
                               if (r) { MatrixXd y = any::any_cast<MatrixXd>(sen->measure().second); ob(y.rows()); ob(y.cols()); } else { ob(0); ob(0); } }
            else if (t[0] == 's') { E e("LinearModel::getNoiseSample"); MatrixXd s = sen->noise((int)q).second; ob(s.rows()); ob(s.cols()); }
            else { E e("LinearMeasurementModel::predictedMeasure");
                   MatrixXd p = any::any_cast<MatrixXd>(sen->predictedMeasure(filled(d, q, k)).second); ob(p.rows()); ob(p.cols()); }
        }
    } else if (what == "ukfp" || what == "kfp") {
        Layout ls = lay(c, "s");
        long q = c.mi("q");
        std::unique_ptr<GaussianPrediction> u;
        if (what == "kfp") { long d = ls.dim();
            u.reset(new KFPrediction(std::unique_ptr<LinearStateModel>(new LTIState(filled(d, d, 1) + MatrixXd::Identity(d, d), spd(d, 2))))); }
        else { E e("UKFPrediction::UKFPrediction");
            if (c.mi("additive")) u.reset(new UKFPrediction(std::unique_ptr<AdditiveStateModel>(new UAddState(ls, q, q)), 1.0, 2.0, 0.5));
            else u.reset(new UKFPrediction(std::unique_ptr<StateModel>(new UState(ls, q)), 1.0, 2.0, 0.5)); }
        const char* le = what == "kfp" ? "KFPrediction::predict" : "UKFPrediction::predict";
        long k = 0;
        GaussianMixture carried(1, 1);
        for (auto& t : steps) {
            long comps = ints_of(t).at(0);
            // UKFPrediction assigns its output: the output object comes in with the shape the PREVIOUS call left; KFPrediction
            // writes into it: it comes in with the shape of the input
            GaussianMixture prev = make_mixture(ls, comps, 0, k), fresh = make_mixture(ls, comps, 0, k + 1); k++;
            GaussianMixture& pred = what == "kfp" ? fresh : carried;
            u->skip("prediction", t[0] == 'k');
            E e(le); u->predict(prev, pred); ob(pred.components); ob(pred.dim); ob(pred.dim_covariance);
        }
    } else if (what == "grid") {
        InitSurveillanceAreaGrid g(0.0, 10.0, -2.0, 6.0, (unsigned)c.mi("nx"), (unsigned)c.mi("ny"));
        for (auto& t : steps) {
            std::vector<long> a = ints_of(t);          // n : L
            ParticleSet p(a.at(0), a.at(1));
            E e("InitSurveillanceAreaGrid::initialize"); ob(g.initialize(p) ? 1 : 0);
        }
    } else if (what == "pset") {
        // one ParticleSet: augmentWithNoise / resize (same and other description) / operator+= / element-wise writes, then used
        // together with sets that have the shape its DESCRIPTORS advertise (resampling target, right-hand side of +=)
        ParticleSet p = make_particles(lay(c, "s"), c.mi("n"));
        auto cur = [&]() { return Layout{(long)p.dim_linear, (long)p.dim_circular, p.use_quaternion}; };
        auto like = [&](long n, long k) { ParticleSet o = make_particles(cur(), n, k); if (p.dim_noise > 0) o.augmentWithNoise(spd(p.dim_noise, 3)); return o; };
        long k = 0;
        for (auto& t : steps) {
            std::vector<long> a = ints_of(t); k++;
            if (t[0] == 'a') { E e("ParticleSet::augmentWithNoise"); p.augmentWithNoise(spd(a.at(0), 3)); }
            else if (t[0] == 'r') { E e("ParticleSet::resize"); p.resize(a.at(0), p.dim_linear, p.dim_circular); }
            else if (t[0] == 'R') { E e("ParticleSet::resize"); p.resize(a.at(0), a.at(1), a.at(2)); }
            else if (t[0] == '+') { ParticleSet o = like(a.at(0), k); E e("ParticleSet::operator+="); p += o; }
            else if (t[0] == 'f') { E e("ParticleSet::state()/mean()/covariance(i)=");
                                    p.state() = filled(p.dim, p.components, k); p.mean() = filled(p.dim, p.components, k + 1);
                                    fix_quaternions(p.state(), cur()); fix_quaternions(p.mean(), cur());
                                    for (std::size_t i = 0; i < p.components; i++) p.covariance(i) = spd(p.dim_covariance, k + (long)i);
                                    p.weight() = incr_weights(p.components); }
            else if (t[0] == 's') { E e("sigma_point::sigma_point"); MatrixXd sp = sigma_point::sigma_point(p, 3.0); (void)sp; }
            else if (t[0] == 'm') { ParticleSet res = like(p.components, k); VectorXi par(p.components); Resampling r(5);
                                    E e("Resampling::resample"); r.resample(p, res, par); }
            else if (t[0] == 'c') { E e("ParticleSet::state(i)=mean(i)"); for (std::size_t i = 0; i < p.components; i++) p.state(i) = p.mean(i); }
            ob(p.components); ob(p.dim); ob(p.dim_covariance); ob(p.dim_noise); ob(p.dim_linear); ob(p.dim_circular);
            ob(p.state().rows()); ob(p.state().cols()); ob(p.mean().rows()); ob(p.mean().cols());
            ob(p.covariance().rows()); ob(p.covariance().cols()); ob(p.weight().size());
        }
    } else { std::fprintf(stderr, "BFL_VERIF_HARNESS unknown objseq %s\n", what.c_str()); std::exit(3); }
}

// lifetime errors the shape calculus cannot exhibit: moved objects followed by a call (asan tier)
static void k_lifetime(const vf::Case& c) {
    std::string what = c.m("what");
    if (what == "gpf_move" || what == "gpf_move_fresh" || what == "gpf_move_assign") {
        MatrixXd H = MatrixXd::Identity(2, 4), R = MatrixXd::Identity(2, 2);
        std::unique_ptr<GaussianCorrection> kf(new KFCorrection(std::unique_ptr<LinearMeasurementModel>(new ServedLTI(H, R, MatrixXd::Zero(2, 1)))));
        std::unique_ptr<StateModel> sm(new WhiteNoiseAcceleration(WhiteNoiseAcceleration::Dim::TwoD, 1.0, 1.0));
        GPFCorrection* a = new GPFCorrection(std::unique_ptr<LikelihoodModel>(new GaussianLikelihood()), std::move(kf), std::move(sm), 3);
        Layout l{4, 0, false};
        ParticleSet p = make_particles(l, 3), q = make_particles(l, 3, 1);
        if (what != "gpf_move_fresh") { E e("GPFCorrection::correct(before-move)"); a->correct(p, q); }
        GPFCorrection* b = nullptr;
        if (what == "gpf_move_assign") {
            std::unique_ptr<GaussianCorrection> kf2(new KFCorrection(std::unique_ptr<LinearMeasurementModel>(new ServedLTI(H, R, MatrixXd::Zero(2, 1)))));
            std::unique_ptr<StateModel> sm2(new WhiteNoiseAcceleration(WhiteNoiseAcceleration::Dim::TwoD, 1.0, 1.0));
            b = new GPFCorrection(std::unique_ptr<LikelihoodModel>(new GaussianLikelihood()), std::move(kf2), std::move(sm2), 4);
            { E e("GPFCorrection::correct(before-move)"); b->correct(p, q); }
            E e("GPFCorrection::operator=(GPFCorrection&&)"); *b = std::move(*a);
        } else { E e("GPFCorrection::GPFCorrection(GPFCorrection&&)"); b = new GPFCorrection(std::move(*a)); }
        { E e("GPFCorrection::~GPFCorrection(moved-from)"); delete a; }
        { E e("GPFCorrection::correct(after-move)"); b->correct(p, q); ob(q.components); }
        delete b;
    } else if (what == "wna_move") {
        WhiteNoiseAcceleration* a = new WhiteNoiseAcceleration(WhiteNoiseAcceleration::Dim::OneD, 1.0, 1.0);
        WhiteNoiseAcceleration* b;
        { E e("WhiteNoiseAcceleration::WhiteNoiseAcceleration(WhiteNoiseAcceleration&&)"); b = new WhiteNoiseAcceleration(std::move(*a)); }
        delete a;
        { E e("WhiteNoiseAcceleration::getNoiseSample(after-move)"); MatrixXd s = b->getNoiseSample(3); ob(s.rows()); }
        delete b;
    } else if (what == "resampling_copy") {
        Resampling* a = new Resampling(3);
        Resampling b(*a); Resampling cpy; cpy = b;
        delete a;
        Layout l{2, 0, false};
        ParticleSet p = make_particles(l, 4), q = make_particles(l, 4, 1); VectorXi par(4);
        E e("Resampling::resample(after-copy)"); cpy.resample(p, q, par); ob(q.components);
    } else if (what == "history_move") {
        HistoryBuffer* a = new HistoryBuffer(2);
        a->addElement(VectorXd(filled(2, 1)));
        HistoryBuffer b(std::move(*a));
        { E e("HistoryBuffer::addElement(moved-from)"); a->addElement(VectorXd(filled(0, 1))); a->decreaseHistorySize(); ob(a->getHistoryBuffer().cols()); }
        delete a;
        { E e("HistoryBuffer::getHistoryBuffer(after-move)"); ob(b.getHistoryBuffer().cols()); }
    } else if (what == "linearmodel_traits") {
        // LinearModel / SimulatedLinearSensor / LTIMeasurementModel can be neither copied nor moved: no dangling capture is reachable
        ob(std::is_move_constructible<LinearModel>::value ? 1 : 0); ob(std::is_copy_constructible<LinearModel>::value ? 1 : 0);
        ob(std::is_move_constructible<SimulatedLinearSensor>::value ? 1 : 0); ob(std::is_move_assignable<LinearModel>::value ? 1 : 0);
    }
}

int main() {
    if (__sanitizer_set_death_callback) __sanitizer_set_death_callback(on_sanitizer_death);
    else { std::signal(SIGSEGV, on_signal); std::signal(SIGABRT, on_signal); std::signal(SIGFPE, on_signal); std::signal(SIGBUS, on_signal); }
    vf::Case c;
    while (vf::read_case(std::cin, c)) {
        obs.clear(); wins.clear();
        g_entry = "none";
        std::string verdict = "safe", what;
        try {
            if (c.kind == "wna") k_wna(c);
            else if (c.kind == "simstate") k_simstate(c);
            else if (c.kind == "linsensor") k_linsensor(c);
            else if (c.kind == "history") k_history(c);
            else if (c.kind == "grid") k_grid(c);
            else if (c.kind == "sigma") k_sigma(c);
            else if (c.kind == "psaug") k_psaug(c);
            else if (c.kind == "ut") k_ut(c);
            else if (c.kind == "kfp") k_kfp(c);
            else if (c.kind == "kfc") k_kfc(c);
            else if (c.kind == "ukfp") k_ukfp(c);
            else if (c.kind == "ukfc") k_ukfc(c);
            else if (c.kind == "sukf") k_sukf(c);
            else if (c.kind == "resample") k_resample(c);
            else if (c.kind == "resprior") k_resprior(c);
            else if (c.kind == "density") k_density(c);
            else if (c.kind == "uvr") k_uvr(c);
            else if (c.kind == "extract") k_extract(c);
            else if (c.kind == "extseq") k_extseq(c);
            else if (c.kind == "objseq") k_objseq(c);
            else if (c.kind == "lifetime") k_lifetime(c);
            else { std::fprintf(stderr, "BFL_VERIF_HARNESS unknown kind %s\n", c.kind.c_str()); return 3; }
        } catch (const std::bad_alloc& ex) {
            std::fprintf(stderr, "BFL_VERIF_UNCAUGHT entry=%s bad_alloc\n", g_entry); std::fflush(stderr); std::_Exit(45);
        } catch (const std::exception& ex) {
            verdict = "threw"; what = ex.what();
        }
        vf::out_begin(c.id);
        vf::out_str("verdict", verdict);
        vf::out_str("entry", verdict == "safe" ? "-" : g_entry);
        std::vector<std::string> w; for (long v : obs) w.push_back(std::to_string(v));
        if (verdict != "safe") w.clear();
        vf::out_word("obs", w);
        if (c.kind == "extseq" && verdict == "safe") { std::vector<std::string> ww; for (long v : wins) ww.push_back(std::to_string(v)); vf::out_word("win", ww); }
        vf::out_end();
    }
    return 0;
}
