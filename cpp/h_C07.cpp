// h_C07.cpp — harness for C07: Resampling::resample / neff and
// ResamplingWithPrior::resample called directly.
// Layout: meta dl, dc, quat (use_quaternion): dim = dl + dc*(quat?4:1), dim_covariance = dl + dc*(quat?3:1).
// Optional operand lw_first (N1 x 1): one earlier resample call on the SAME object with a set of N1 particles
// (a different N), so that the 1/N range of the offset must follow the set of each call.
// Kind "hist": see run_history (one object, interleaved neff / resample, weights changed in place).
// Operands: lw (N x 1 log-weights), state (dim x N), mean (dim x N), cov (dim_cov x dim_cov*N),
// int seed, int draws (number of resample calls on the same object; the last one
// is reported), kind "prior": ratio (1 x 1), meta init=count|grid (grid: nx, ny).
// meta ctor=default (plain: Resampling(), seed 1) | ctor=2 (prior: (init, ratio), seed 1) | ctor=1 (prior: (init), ratio 0.5, seed 1):
// the generator writes the seed / ratio these constructors stand for into the case, so both sides use the same numbers.
// The random offset is mirrored: same engine, same seed, same order of draws.
#define VF_MAIN
#include "common.hpp"
#include <BayesFilters/InitSurveillanceAreaGrid.h>
#include <BayesFilters/ParticleSet.h>
#include <BayesFilters/ParticleSetInitialization.h>
#include <BayesFilters/Resampling.h>
#include <BayesFilters/ResamplingWithPrior.h>
#include <random>

using namespace bfl;
using namespace Eigen;

static int g_init_calls = 0;
static long g_init_size = -1;

// fresh particle k gets state(i) = -(k+1) - i/4; weights are set to junk (they must be overwritten)
struct CountingInit : public ParticleSetInitialization {
    bool initialize(ParticleSet& p) override {
        g_init_calls++;
        g_init_size = p.state().cols();
        for (long k = 0; k < p.state().cols(); k++)
            for (long i = 0; i < p.state().rows(); i++) p.state(k, i) = -(double)(k + 1) - 0.25 * (double)i;
        p.weight().setConstant(0.777);
        return true;
    }
};
struct GridInit : public InitSurveillanceAreaGrid {
    GridInit(unsigned nx, unsigned ny) : InitSurveillanceAreaGrid(-3.0, 5.0, 1.0, 2.5, nx, ny) {}
    bool initialize(ParticleSet& p) override {
        g_init_calls++;
        g_init_size = p.state().cols();
        return InitSurveillanceAreaGrid::initialize(p);
    }
};

static void fill(ParticleSet& s, const vf::Case& c) {
    s.state() = c.mat("state"); s.mean() = c.mat("mean"); s.covariance() = c.mat("cov"); s.weight() = c.mat("lw");
}

static void report(const ParticleSet& res, const VectorXi& parents, const std::string& sfx = "") {
    vf::out_int("components" + sfx, res.components);
    vf::out_int("dim_linear" + sfx, res.dim_linear);
    vf::out_int("dim_circular" + sfx, res.dim_circular);
    vf::out_int("use_quaternion" + sfx, res.use_quaternion ? 1 : 0);
    vf::out_int("dim" + sfx, res.dim);
    vf::out_int("dim_covariance" + sfx, res.dim_covariance);
    vf::out_int("state_rows" + sfx, res.state().rows());
    vf::out_int("mean_rows" + sfx, res.mean().rows());
    vf::out_int("cov_rows" + sfx, res.covariance().rows());
    vf::out_int("state_cols" + sfx, res.state().cols());
    vf::out_int("mean_cols" + sfx, res.mean().cols());
    vf::out_int("cov_cols" + sfx, res.covariance().cols());
    vf::out_int("weight_rows" + sfx, res.weight().rows());
    vf::out_mat("state" + sfx, res.state());
    vf::out_mat("mean" + sfx, res.mean());
    vf::out_mat("cov" + sfx, res.covariance());
    vf::out_mat("weights" + sfx, res.weight());
    vf::out_mat("parents" + sfx, parents.cast<double>());
}

static bool same_set(const ParticleSet& a, const ParticleSet& b) {
    return vf::bit_equal(a.state(), b.state()) && vf::bit_equal(a.mean(), b.mean()) && vf::bit_equal(a.covariance(), b.covariance())
           && vf::bit_equal(a.weight(), b.weight()) && a.components == b.components;
}

// kind "hist": ONE resampler object driven through a history of neff() / resample() calls on two particle-set objects
// P (operands state, mean, cov; N particles) and Q (stateQ, meanQ, covQ; N2 particles) that live for the whole history.
// word ops: one token per step, nP | rP | nQ | rQ (n = neff(target.weight()), r = resample(target, fresh result, parents));
// before step k the log-weights lw_s<k> are written IN PLACE into the target's weight storage (same address: reported
// as same_addr_s<k>).  Every step is reported with the suffix _s<k>; a resample step is never preceded by a hidden neff.
// meta variant=plain|prior (prior: operand ratio, counting initialiser).
static void run_history(const vf::Case& c) {
    const long N = c.mat("state").cols(), N2 = c.mat("stateQ").cols();
    const long dl = c.mi("dl"), dc = c.mi("dc");
    const bool quat = c.mi("quat") != 0;
    const unsigned seed = (unsigned)c.integer("seed");
    const bool prior = c.m("variant") == "prior";
    const double ratio = prior ? c.mat("ratio")(0, 0) : 0.0;
    ParticleSet P(N, dl, dc, quat), Q(N2, dl, dc, quat);
    P.state() = c.mat("state"); P.mean() = c.mat("mean"); P.covariance() = c.mat("cov");
    Q.state() = c.mat("stateQ"); Q.mean() = c.mat("meanQ"); Q.covariance() = c.mat("covQ");
    P.weight().setConstant(-std::log((double)N)); Q.weight().setConstant(-std::log((double)N2));
    const double* addrP = P.weight().data();
    const double* addrQ = Q.weight().data();
    std::unique_ptr<Resampling> r;
    if (prior) r.reset(new ResamplingWithPrior(std::unique_ptr<ParticleSetInitialization>(new CountingInit()), ratio, seed));
    else r.reset(new Resampling(seed));
    std::mt19937_64 mirror(seed);
    const std::vector<std::string>& ops = c.word("ops");
    vf::out_begin(c.id);
    vf::out_int("steps", (long)ops.size());
    for (std::size_t k = 0; k < ops.size(); k++) {
        const std::string sfx = "_s" + std::to_string(k);
        const bool onP = ops[k].size() > 1 && ops[k][1] == 'P';
        ParticleSet& T = onP ? P : Q;
        const long n = onP ? N : N2;
        T.weight() = c.mat("lw" + sfx);                       // in place: the storage is not reallocated
        vf::out_int("same_addr" + sfx, T.weight().data() == (onP ? addrP : addrQ) ? 1 : 0);
        if (ops[k][0] == 'n') {
            double neff = NAN;
            { vf::Entry e("Resampling::neff"); neff = r->neff(T.weight()); }
            vf::out_num("neff" + sfx, neff);
            continue;
        }
        ParticleSet before(T);
        ParticleSet res(n, dl, dc, quat);
        res.state().setConstant(9.5); res.mean().setConstant(-9.5); res.covariance().setConstant(4.25); res.weight().setConstant(0.125);
        VectorXi parents = VectorXi::Constant(n, -7);
        const long np = prior ? (long)std::floor(n * ratio) : 0;
        std::uniform_real_distribution<double> d(0.0, 1.0 / (n - np));
        const double u1 = d(mirror);
        g_init_calls = 0; g_init_size = -1;
        { vf::Entry e(prior ? "ResamplingWithPrior::resample" : "Resampling::resample"); r->resample(T, res, parents); }
        report(res, parents, sfx);
        vf::out_num("u1" + sfx, u1);
        vf::out_int("init_calls" + sfx, g_init_calls);
        vf::out_int("init_size" + sfx, g_init_size);
        vf::out_int("cor_unchanged" + sfx, same_set(T, before) ? 1 : 0);
    }
    vf::out_end();
}

int main() {
    vf::Case c;
    while (vf::read_case(std::cin, c)) {
        if (c.kind == "hist") { run_history(c); continue; }
        const long N = c.mat("lw").rows();
        const long dl = c.mi("dl"), dc = c.mi("dc");
        const unsigned seed = (unsigned)c.integer("seed");
        const long draws = c.has_int("draws") ? c.integer("draws") : 1;
        const bool quat = c.mi("quat") != 0;
        ParticleSet cor(N, dl, dc, quat);
        fill(cor, c);
        ParticleSet cor_copy(cor);
        ParticleSet res(N, dl, dc, quat);
        res.state().setConstant(9.5); res.mean().setConstant(-9.5); res.covariance().setConstant(4.25); res.weight().setConstant(0.125);
        VectorXi parents = VectorXi::Constant(N, -7);
        std::mt19937_64 mirror(seed);
        double u1 = NAN;
        g_init_calls = 0; g_init_size = -1;
        double neff = NAN;
        // the earlier call with another particle count
        const long N1 = c.has_mat("lw_first") ? c.mat("lw_first").rows() : 0;
        ParticleSet first(N1 > 0 ? N1 : 1, dl, dc, quat), first_res(N1 > 0 ? N1 : 1, dl, dc, quat);
        VectorXi first_par = VectorXi::Constant(N1 > 0 ? N1 : 1, -7);
        if (N1 > 0) first.weight() = c.mat("lw_first");
        // meta xfer: the resampler used is obtained from the seeded one by copy / move construction or assignment
        const std::string xfer = c.m("xfer", "none");
        if (c.kind == "plain") {
            Resampling r0_seeded(seed), r0_default;
            Resampling r0(c.m("ctor", "seed") == "default" ? r0_default : r0_seeded);
            Resampling other(seed + 12345u);
            if (xfer == "move_assign") other = std::move(r0);
            else if (xfer == "copy_assign") other = r0;
            Resampling r(xfer == "copy_ctor" ? Resampling(r0) : xfer == "move_ctor" ? Resampling(std::move(r0))
                         : (xfer == "move_assign" || xfer == "copy_assign") ? Resampling(other) : Resampling(r0));
            if (N1 > 0) {
                std::uniform_real_distribution<double> d(0.0, 1.0 / N1);
                (void)d(mirror);
                vf::Entry e("Resampling::resample");
                r.resample(first, first_res, first_par);
            }
            for (long k = 0; k < draws; k++) {
                std::uniform_real_distribution<double> d(0.0, 1.0 / N);
                u1 = d(mirror);
                vf::Entry e("Resampling::resample");
                r.resample(cor, res, parents);
            }
            { vf::Entry e("Resampling::neff"); neff = r.neff(cor.weight()); }
        } else {
            const double ratio = c.mat("ratio")(0, 0);
            std::unique_ptr<ParticleSetInitialization> init;
            // "gridfail": a grid whose size does not match num_prior: initialize() returns false and writes nothing
            if (c.m("init") == "grid" || c.m("init") == "gridfail") init.reset(new GridInit((unsigned)c.mi("nx"), (unsigned)c.mi("ny")));
            else init.reset(new CountingInit());
            const std::string ctor = c.m("ctor", "3");
            ResamplingWithPrior r0(ctor == "1" ? ResamplingWithPrior(std::move(init))
                                   : ctor == "2" ? ResamplingWithPrior(std::move(init), ratio)
                                   : ResamplingWithPrior(std::move(init), ratio, seed));
            ResamplingWithPrior other(std::unique_ptr<ParticleSetInitialization>(new CountingInit()), 0.125, seed + 999u);
            if (xfer == "move_assign") other = std::move(r0);
            ResamplingWithPrior r(xfer == "move_assign" ? std::move(other) : std::move(r0));   // move construction in every case
            if (res.components != (std::size_t)(N + c.mi("presize"))) res = ParticleSet(N + c.mi("presize"), dl, dc, quat);
            if (N1 > 0) {
                const long np1 = (long)std::floor(N1 * ratio);
                std::uniform_real_distribution<double> d(0.0, 1.0 / (N1 - np1));
                (void)d(mirror);
                vf::Entry e("ResamplingWithPrior::resample");
                r.resample(first, first_res, first_par);
                g_init_calls = 0; g_init_size = -1;
            }
            for (long k = 0; k < draws; k++) {
                const long np = (long)std::floor(N * ratio);
                std::uniform_real_distribution<double> d(0.0, 1.0 / (N - np));
                u1 = d(mirror);
                vf::Entry e("ResamplingWithPrior::resample");
                r.resample(cor, res, parents);
            }
            { vf::Entry e("Resampling::neff"); neff = r.neff(cor.weight()); }
        }
        vf::out_begin(c.id);
        report(res, parents);
        vf::out_num("u1", u1);
        vf::out_num("neff", neff);
        vf::out_int("init_calls", g_init_calls);
        vf::out_int("init_size", g_init_size);
        vf::out_int("cor_unchanged", vf::bit_equal(cor.state(), cor_copy.state()) && vf::bit_equal(cor.mean(), cor_copy.mean())
                                         && vf::bit_equal(cor.covariance(), cor_copy.covariance()) && vf::bit_equal(cor.weight(), cor_copy.weight())
                                         && cor.components == cor_copy.components ? 1 : 0);
        vf::out_end();
    }
    return 0;
}
