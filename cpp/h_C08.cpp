// h_C08.cpp — harness for C08: GPFPrediction / GPFCorrection wrapping Gaussian
// steps (KF, additive UKF, SUKF), run over a multi-step history on the two
// persistent buffers of a particle filter (predict: corr -> pred, correct: pred -> corr).
//
// Operands: F, Q (LTI prediction model); measurement function of C05's family
// h(x) = H x + b (+ g sin(G x) | + g (G x)(G2 x)), hkind 0/1/2, noise R; Ft, Qt (transition
// model of the correction step: tkind lingauss = harness LTI model, cauchy = harness density
// with A = Ft, wna1/wna2/wna3 = the library's WhiteNoiseAcceleration(OneD/TwoD/ThreeD, T, q),
// wna = [T q], Ft/Qt its closed form); c_* (corrected buffer = previous set), p_* (content of
// the predicted buffer on entry); ys (m x steps); per step words mv pv iv cv (validity returned
// by measure / predictedMeasure / innovation / getNoiseCovarianceMatrix of the measurement
// model), lok (scripted validity of the likelihood model), skpp skgp skpc skgc (skip flags of
// PFPrediction, GaussianPrediction, PFCorrection, GaussianCorrection); int seed; scale.
//
// TIME-VARYING INPUTS.  Everything the API lets a model report differently from one call to the
// next is served per step from one Shared record that the harness refills before each step:
// F, Q (getStateTransitionMatrix / getNoiseCovarianceMatrix of the prediction's state model),
// H, G, G2, b, g, R (getMeasurementMatrix / predictedMeasure / getNoiseCovarianceMatrix of the
// measurement model; the number of rows of H, i.e. the measurement size, may change too),
// Ft, Qt (transition density of the harness state model; the library's WhiteNoiseAcceleration has
// fixed parameters), scale (GaussianLikelihood::scale_factor_, a protected member the subclass
// may set).  Step k uses mat "<name>_<k>" when the case has it and mat "<name>" otherwise; the
// measurement of step k is the top rows(H_k) rows of column k of ys.  ONE GPFPrediction and ONE
// GPFCorrection object (with its one likelihood model, wrapped correction and transition model)
// live through the whole history, so anything an object caches from an earlier call is stale
// at a later one.
// meta: wrap = kf | ukf | sukf, likkind = gaussian (bfl::GaussianLikelihood) | indep (a
// likelihood model that does not consult the measurement model's validity), optional int
// badlik = +1 / -1 (the likelihood model returns one value too many / too few).
//
// CALLBACK RE-ENTRANCY (meta intrude=1).  Every callback of the subject's models (state model of the wrapped prediction,
// measurement model of the wrapped correction, likelihood model, harness transition model) first calls vf::intrude():
// an independent TWIN particle filter step (its own GPFPrediction / GPFCorrection objects, its own models serving OTHER
// operands of the same shapes from a Shared record of its own, its own particle sets, and its OWN random generator:
// another seed, draws taken from the twin's generator_ only, so the subject's stream and its mirror are not touched)
// runs a complete predict + correct + getLikelihood inside the callback.  The subject's results must not change
// (state shared between objects: function-local statics, globals).  The separately constructed wrapped steps (sep_*)
// serve from a third record and do not intrude.
//
// The draws of GPFCorrection are logged by wrapping the protected gaussian_random_sample_ in
// a subclass (and compared with a mirror mt19937_64(seed) + normal_distribution(0,1)); the
// same subclass observes the library's square-root factor by feeding unit vectors through
// gaussian_random_sample_ into sampleFromProposal(0, P).
#define VF_MAIN
#include "common.hpp"
#include <BayesFilters/AdditiveMeasurementModel.h>
#include <BayesFilters/GPFCorrection.h>
#include <BayesFilters/GPFPrediction.h>
#include <BayesFilters/GaussianLikelihood.h>
#include <BayesFilters/KFCorrection.h>
#include <BayesFilters/KFPrediction.h>
#include <BayesFilters/LTIMeasurementModel.h>
#include <BayesFilters/LTIStateModel.h>
#include <BayesFilters/ParticleSet.h>
#include <BayesFilters/SUKFCorrection.h>
#include <BayesFilters/UKFCorrection.h>
#include <BayesFilters/UKFPrediction.h>
#include <BayesFilters/WhiteNoiseAcceleration.h>
#include <BayesFilters/utils.h>
#include <random>

using namespace bfl;
using namespace Eigen;

struct Family {
    long kind = 0; MatrixXd H, G, G2, b, g;
    MatrixXd eval(const Ref<const MatrixXd>& X) const {
        MatrixXd out = (H * X).colwise() + b.col(0);
        if (kind == 1) out.array() += ((G * X).array().sin()).colwise() * g.col(0).array();
        else if (kind == 2) out.array() += (((G * X).array()).colwise() * g.col(0).array()) * (G2 * X).array();
        return out;
    }
};

// what the models serve at the current step (refilled by the harness before every step)
struct Shared {
    MatrixXd y; bool mv = true, pv = true, iv = true, cv = true, lik_ok = true; long badlik = 0;
    MatrixXd F, Q, Ft, Qt, R; Family f; double scale = 1.0;
    bool intrudes = false;                 // the models serving from this record call vf::intrude() in every callback
    void hook() const { if (intrudes) vf::intrude(); }
};

// value of a per-step operand: mat "<name>_<k>" if present, else mat "<name>"
static const MatrixXd& stepmat(const vf::Case& c, const std::string& name, long k) {
    const std::string nk = name + "_" + std::to_string(k);
    return c.has_mat(nk) ? c.mat(nk) : c.mat(name);
}
static void serve(Shared& sh, const vf::Case& c, long k) {
    sh.F = stepmat(c, "F", k); sh.Q = stepmat(c, "Q", k); sh.Ft = stepmat(c, "Ft", k); sh.Qt = stepmat(c, "Qt", k);
    sh.R = stepmat(c, "R", k);
    // (reproducer files written before the measurement family existed carry the kind of the H matrix under this key: kind 0)
    { const std::string hk = c.m("hkind", "0"); sh.f.kind = (!hk.empty() && hk.find_first_not_of("0123456789") == std::string::npos) ? std::stol(hk) : 0; }
    sh.f.H = stepmat(c, "H", k);
    if (c.has_mat("G")) { sh.f.G = stepmat(c, "G", k); sh.f.G2 = stepmat(c, "G2", k); sh.f.b = stepmat(c, "b", k); sh.f.g = stepmat(c, "g", k); }
    else {   // reproducer files written before the measurement family existed: h(x) = H x
        sh.f.G = MatrixXd::Zero(sh.f.H.rows(), sh.f.H.cols()); sh.f.G2 = sh.f.G; sh.f.b = MatrixXd::Zero(sh.f.H.rows(), 1); sh.f.g = sh.f.b;
    }
    sh.scale = stepmat(c, "scale", k)(0, 0);
    sh.y = c.mat("ys").col(k).topRows(sh.f.H.rows());
}

// C05's family of measurement functions: struct Family above

static std::pair<bool, Data> innov(bool ok, const Data& pred, const Data& meas) {
    MatrixXd i = -(any::any_cast<MatrixXd>(pred).colwise() - any::any_cast<MatrixXd>(meas).col(0));
    return std::make_pair(ok, Data(std::move(i)));
}

// linear model for KFCorrection (hkind 0, b = 0): measurement matrix and noise covariance of the current step
struct ServedLTI : public LTIMeasurementModel {
    const Shared* sh_;
    ServedLTI(const MatrixXd& H, const MatrixXd& R, const Shared* sh) : LTIMeasurementModel(H, R), sh_(sh) {}
    bool freeze(const Data&) override { sh_->hook(); return true; }
    MatrixXd getMeasurementMatrix() const override { sh_->hook(); return sh_->f.H; }
    std::pair<bool, Data> measure(const Data&) const override { sh_->hook(); return std::make_pair(sh_->mv, Data(sh_->y)); }
    std::pair<bool, Data> predictedMeasure(const Ref<const MatrixXd>& X) const override { sh_->hook(); MatrixXd p = sh_->f.H * X; return std::make_pair(sh_->pv, Data(std::move(p))); }
    std::pair<bool, Data> innovation(const Data& p, const Data& m) const override { sh_->hook(); return innov(sh_->iv, p, m); }
    std::pair<bool, MatrixXd> getNoiseCovarianceMatrix() const override { sh_->hook(); return std::make_pair(sh_->cv, sh_->R); }
    VectorDescription getMeasurementDescription() const override { return VectorDescription(sh_->f.H.rows()); }
    VectorDescription getInputDescription() const override { return VectorDescription(sh_->f.H.cols(), 0, sh_->f.H.rows()); }
};

// additive (possibly nonlinear) model for UKFCorrection / SUKFCorrection
struct ServedFamily : public AdditiveMeasurementModel {
    const Shared* sh_;
    explicit ServedFamily(const Shared* sh) : sh_(sh) {}
    bool freeze(const Data&) override { sh_->hook(); return true; }
    std::pair<bool, Data> measure(const Data&) const override { sh_->hook(); return std::make_pair(sh_->mv, Data(sh_->y)); }
    std::pair<bool, Data> predictedMeasure(const Ref<const MatrixXd>& X) const override { sh_->hook(); MatrixXd p = sh_->f.eval(X); return std::make_pair(sh_->pv, Data(std::move(p))); }
    std::pair<bool, Data> innovation(const Data& p, const Data& m) const override { sh_->hook(); return innov(sh_->iv, p, m); }
    std::pair<bool, MatrixXd> getNoiseCovarianceMatrix() const override { sh_->hook(); return std::make_pair(sh_->cv, sh_->R); }
    VectorDescription getMeasurementDescription() const override { return VectorDescription(sh_->f.H.rows()); }
    VectorDescription getInputDescription() const override { return VectorDescription(sh_->f.H.cols(), 0, sh_->f.H.rows()); }
};

// Linear state model whose transition matrix and noise covariance are those of the current step
// (pointers into the Shared record); the transition density is the linear-Gaussian one or the
// harness' Cauchy-like density 1 / (1 + |cur - A prev|^2)
struct LTI : public LTIStateModel {
    long n_; bool cauchy_; const MatrixXd* F_c; const MatrixXd* Q_c; const Shared* sh_;
    LTI(const MatrixXd* F, const MatrixXd* Q, const Shared* sh, bool cauchy = false) : LTIStateModel(*F, *Q), n_(F->rows()), cauchy_(cauchy), F_c(F), Q_c(Q), sh_(sh) {}
    VectorDescription getStateDescription() override { return VectorDescription(n_); }
    MatrixXd getStateTransitionMatrix() override { sh_->hook(); return *F_c; }
    MatrixXd getNoiseCovarianceMatrix() override { sh_->hook(); return *Q_c; }
    MatrixXd getJacobian() override { sh_->hook(); return *F_c; }
    VectorXd getTransitionProbability(const Ref<const MatrixXd>& prev, const Ref<const MatrixXd>& cur) override {
        sh_->hook();
        if (!cauchy_) return utils::multivariate_gaussian_density(cur - *F_c * prev, VectorXd::Zero(n_), *Q_c);
        VectorXd v(cur.cols());
        for (long i = 0; i < cur.cols(); i++) { VectorXd d = cur.col(i) - *F_c * prev.col(i); v(i) = 1.0 / (1.0 + d.squaredNorm()); }
        return v;
    }
};

static std::pair<bool, VectorXd> resize_lik(const Shared* sh, std::pair<bool, VectorXd> r) {
    if (sh->badlik != 0 && r.first) { VectorXd v = r.second; const long k = v.size(); v.conservativeResize(k + sh->badlik); if (sh->badlik > 0) v(k) = 0.5; r.second = v; }
    return r;
}
// bfl::GaussianLikelihood behind a scripted validity
struct ScriptedLik : public GaussianLikelihood {
    const Shared* sh_; bool serve_scale_;
    // serve_scale: the scale factor is the one of the current step (Shared), else the constructor's
    ScriptedLik(double scale, const Shared* sh, bool serve_scale = false) : GaussianLikelihood(scale), sh_(sh), serve_scale_(serve_scale) {}
    std::pair<bool, VectorXd> likelihood(const MeasurementModel& mm, const Ref<const MatrixXd>& states) override {
        sh_->hook();
        if (!sh_->lik_ok) return std::make_pair(false, VectorXd::Zero(1));
        if (serve_scale_) scale_factor_ = sh_->scale;
        return resize_lik(sh_, GaussianLikelihood::likelihood(mm, states));
    }
};
// a likelihood model of its own: scale * N(y - h(x); 0, R), whatever the measurement model says about validity
struct IndepLik : public LikelihoodModel {
    const Shared* sh_;
    explicit IndepLik(const Shared* sh) : sh_(sh) {}
    std::pair<bool, VectorXd> likelihood(const MeasurementModel&, const Ref<const MatrixXd>& states) override {
        sh_->hook();
        if (!sh_->lik_ok) return std::make_pair(false, VectorXd::Zero(1));
        MatrixXd i = -(sh_->f.eval(states).colwise() - sh_->y.col(0));
        VectorXd l = sh_->scale * utils::multivariate_gaussian_density(i, VectorXd::Zero(i.rows()), sh_->R);
        return resize_lik(sh_, std::make_pair(true, l));
    }
};

struct LoggedGPF : public GPFCorrection {
    std::vector<double> zlog;
    std::function<double()> inner_;
    LoggedGPF(std::unique_ptr<LikelihoodModel> l, std::unique_ptr<GaussianCorrection> g, std::unique_ptr<StateModel> s, unsigned seed)
        : GPFCorrection(std::move(l), std::move(g), std::move(s), seed) {
        inner_ = gaussian_random_sample_;
        gaussian_random_sample_ = [this] { double z = inner_(); zlog.push_back(z); return z; };
    }
    double proposal(const VectorXd& x, const VectorXd& m, const MatrixXd& P) { return evaluateProposal(x, m, P); }
    // the library's square-root factor of P: column j = sampleFromProposal(0, P) with the draws e_j
    MatrixXd observed_sqrt(const MatrixXd& P) {
        const long n = P.rows();
        MatrixXd L(n, n);
        std::function<double()> keep = gaussian_random_sample_;
        for (long j = 0; j < n; j++) {
            long cnt = 0;
            gaussian_random_sample_ = [&cnt, j] { return (cnt++ == j) ? 1.0 : 0.0; };
            L.col(j) = sampleFromProposal(VectorXd::Zero(n), P);
        }
        gaussian_random_sample_ = keep;
        return L;
    }
};

static std::unique_ptr<StateModel> make_trans(const vf::Case& c, const Shared* sh) {
    const std::string k = c.m("tkind", "lingauss");
    if (k.substr(0, 3) == "wna") {
        const MatrixXd& w = c.mat("wna");
        const WhiteNoiseAcceleration::Dim d = k == "wna1" ? WhiteNoiseAcceleration::Dim::OneD : (k == "wna3" ? WhiteNoiseAcceleration::Dim::ThreeD : WhiteNoiseAcceleration::Dim::TwoD);
        return std::unique_ptr<StateModel>(new WhiteNoiseAcceleration(d, w(0, 0), w(0, 1)));
    }
    return std::unique_ptr<StateModel>(new LTI(&sh->Ft, &sh->Qt, sh, k == "cauchy"));
}

static std::unique_ptr<GaussianPrediction> make_gp(const vf::Case& c, const Shared* sh) {
    const std::string w = c.m("wrap", "kf");
    if (w == "kf") return std::unique_ptr<GaussianPrediction>(new KFPrediction(std::unique_ptr<LinearStateModel>(new LTI(&sh->F, &sh->Q, sh))));
    const MatrixXd& ut = c.mat("ut");
    return std::unique_ptr<GaussianPrediction>(new UKFPrediction(std::unique_ptr<AdditiveStateModel>(new LTI(&sh->F, &sh->Q, sh)), ut(0, 0), ut(0, 1), ut(0, 2)));
}

static std::unique_ptr<GaussianCorrection> make_gc(const vf::Case& c, const Shared* sh) {
    const std::string w = c.m("wrap", "kf");
    if (w == "kf") return std::unique_ptr<GaussianCorrection>(new KFCorrection(std::unique_ptr<LinearMeasurementModel>(new ServedLTI(sh->f.H, sh->R, sh))));
    const MatrixXd& ut = c.mat("ut");
    std::unique_ptr<AdditiveMeasurementModel> mm(new ServedFamily(sh));
    if (w == "ukf") return std::unique_ptr<GaussianCorrection>(new UKFCorrection(std::move(mm), ut(0, 0), ut(0, 1), ut(0, 2)));
    return std::unique_ptr<GaussianCorrection>(new SUKFCorrection(std::move(mm), ut(0, 0), ut(0, 1), ut(0, 2), c.mat("H").rows(), true));
}

static std::unique_ptr<LikelihoodModel> make_lik(const vf::Case& c, const Shared* sh) {
    if (c.m("likkind", "gaussian") == "indep") return std::unique_ptr<LikelihoodModel>(new IndepLik(sh));
    return std::unique_ptr<LikelihoodModel>(new ScriptedLik(sh->scale, sh, true));
}

static void fill(ParticleSet& ps, const vf::Case& c, const std::string& p) {
    ps.state() = c.mat(p + "_state"); ps.mean() = c.mat(p + "_mean"); ps.covariance() = c.mat(p + "_cov"); ps.weight() = c.mat(p + "_lw");
}
static bool same(const ParticleSet& a, const ParticleSet& b) {
    return a.components == b.components && a.dim == b.dim && vf::bit_equal(a.state(), b.state()) && vf::bit_equal(a.mean(), b.mean())
           && vf::bit_equal(a.covariance(), b.covariance()) && vf::bit_equal(a.weight(), b.weight());
}
static void out_set(const std::string& p, const ParticleSet& ps) {
    vf::out_int(p + "_components", ps.components);
    vf::out_mat(p + "_state", ps.state()); vf::out_mat(p + "_mean", ps.mean());
    vf::out_mat(p + "_cov", ps.covariance()); vf::out_mat(p + "_lw", ps.weight());
}
static bool flag(const vf::Case& c, const std::string& w, long k, bool dflt) {
    const std::vector<std::string>& v = c.word(w);
    return (long)v.size() > k ? v[k] != "0" : dflt;
}

// kinds gpf_fresh / gpf_moved: lifetime of valid_likelihood_ and of the random source
// (findings C08:getLikelihood-valid-before-first-correction, C08:moved-object-draws-from-moved-from-object).
// The objects are placement-constructed in a buffer the harness fills with 0xFF, so that
// what is read from never-written / destroyed storage is deterministic.
alignas(64) static unsigned char g_buf[sizeof(GPFCorrection) + 64];

static void lifetime_case(const vf::Case& c) {
    const long n = c.mi("n"), N = c.mi("N");
    const unsigned seed = (unsigned)c.integer("seed");
    const double scale = c.mat("scale")(0, 0);
    Shared sh; serve(sh, c, 0);
    ParticleSet pred(N, n);
    fill(pred, c, "c");
    vf::out_begin(c.id);
    if (c.kind == "gpf_fresh") {
        std::memset(g_buf, 0xFF, sizeof g_buf);
        GPFCorrection* g = new (g_buf) GPFCorrection(std::unique_ptr<LikelihoodModel>(new ScriptedLik(scale, &sh)), make_gc(c, &sh), make_trans(c, &sh), seed);
        bool ok; VectorXd lik;
        { vf::Entry e("GPFCorrection::getLikelihood"); std::tie(ok, lik) = g->getLikelihood(); }
        vf::out_int("fresh_valid", ok ? 1 : 0);
        vf::out_int("fresh_lik_size", lik.size());
        g->~GPFCorrection();
    } else {
        ParticleSet ca(N, n), cb(N, n), r1(N, n), r2(N, n);
        std::memset(g_buf, 0, sizeof g_buf);
        GPFCorrection* a = new (g_buf) GPFCorrection(std::unique_ptr<LikelihoodModel>(new ScriptedLik(scale, &sh)), make_gc(c, &sh), make_trans(c, &sh), seed);
        { vf::Entry e("GPFCorrection::correct"); a->freeze_measurements(); a->correct(pred, ca); }     // writes valid_likelihood_
        GPFCorrection b(std::move(*a));
        a->~GPFCorrection();
        std::memset(g_buf, 0xFF, sizeof g_buf);
        { vf::Entry e("GPFCorrection::correct(moved-to object)"); b.freeze_measurements(); b.correct(pred, cb); }
        GPFCorrection r(std::unique_ptr<LikelihoodModel>(new ScriptedLik(scale, &sh)), make_gc(c, &sh), make_trans(c, &sh), seed);
        r.freeze_measurements(); r.correct(pred, r1); r.correct(pred, r2);
        vf::out_mat("first_state", ca.state()); vf::out_mat("ref_first_state", r1.state());
        vf::out_mat("moved_state", cb.state()); vf::out_mat("ref_state", r2.state());
        // move assignment, every object alive (no undefined behaviour on any version of the code):
        //   a2 = move(a1); a1 = move(a3); a2.correct(...)
        // a2 must continue a1's seeded stream on its own generator and use a1's likelihood model (scale 1.0)
        {
            ParticleSet t0(N, n), cB(N, n), q1(N, n), q2(N, n);
            GPFCorrection a1(std::unique_ptr<LikelihoodModel>(new ScriptedLik(1.0, &sh)), make_gc(c, &sh), make_trans(c, &sh), seed);
            GPFCorrection a2(std::unique_ptr<LikelihoodModel>(new ScriptedLik(2.5, &sh)), make_gc(c, &sh), make_trans(c, &sh), seed + 1);
            GPFCorrection a3(std::unique_ptr<LikelihoodModel>(new ScriptedLik(4.0, &sh)), make_gc(c, &sh), make_trans(c, &sh), seed + 2);
            a1.freeze_measurements(); a1.correct(pred, t0);
            a2 = std::move(a1);
            a1 = std::move(a3);
            { vf::Entry e("GPFCorrection::correct(move-assigned object)"); a2.freeze_measurements(); a2.correct(pred, cB); }
            bool ok; VectorXd lik; std::tie(ok, lik) = a2.getLikelihood();
            GPFCorrection q(std::unique_ptr<LikelihoodModel>(new ScriptedLik(1.0, &sh)), make_gc(c, &sh), make_trans(c, &sh), seed);
            q.freeze_measurements(); q.correct(pred, q1); q.correct(pred, q2);
            bool qok; VectorXd qlik; std::tie(qok, qlik) = q.getLikelihood();
            vf::out_mat("assign_state", cB.state()); vf::out_mat("ref_assign_state", q2.state());
            vf::out_int("assign_valid", ok ? 1 : 0); vf::out_int("ref_assign_valid", qok ? 1 : 0);
            vf::out_mat("assign_lik", lik); vf::out_mat("ref_assign_lik", qlik);
        }
    }
    vf::out_end();
}

int main() {
    vf::Case c;
    while (vf::read_case(std::cin, c)) {
        if (c.kind == "gpf_fresh" || c.kind == "gpf_moved") { lifetime_case(c); continue; }
        const long n = c.mi("n"), N = c.mi("N"), steps = c.mi("steps");
        const unsigned seed = (unsigned)c.integer("seed");
        Shared sh;
        serve(sh, c, 0);            // the constructors below validate / size themselves on the operands of step 0
        sh.badlik = c.has_int("badlik") ? c.integer("badlik") : 0;
#ifdef NDEBUG
        // a likelihood vector that is too short makes GPFCorrection.cpp:129 read past its end: only run where Eigen's
        // bounds assertions are compiled in (the case documents the length premise of C08_weight_formula)
        if (sh.badlik < 0) { vf::out_begin(c.id); vf::out_int("skipped_ndebug", 1); vf::out_end(); continue; }
#endif
        ParticleSet pred(N, n), corr(N, n);
        fill(pred, c, "p"); fill(corr, c, "c");

        // the separately run wrapped steps serve the same operands from a record of their own (they do not intrude)
        Shared sh_sep = sh;
        // the twin (meta intrude=1): other operands of the same shapes, its own objects, sets and generator
        const bool intrude = c.mi("intrude", 0) != 0;
        Shared sh2 = sh; sh2.badlik = 0;
        auto serve_twin = [&c, &sh2](long k) {
            serve(sh2, c, k);
            sh2.F = (0.5 * sh2.F.array() + 0.125).matrix(); sh2.Q *= 2.0; sh2.Ft = (0.75 * sh2.Ft.array() - 0.0625).matrix(); sh2.Qt *= 1.5;
            sh2.R *= 3.0; sh2.f.H = (-1.75 * sh2.f.H.array() + 0.375).matrix(); sh2.f.b = (sh2.f.b.array() + 0.5).matrix();
            sh2.y = (0.5 * sh2.y.array() - 1.0).matrix(); sh2.scale = 0.5 * sh2.scale + 0.25;
        };
        serve_twin(0);
        GPFPrediction twin_pred(make_gp(c, &sh2));
        GPFCorrection twin_corr(make_lik(c, &sh2), make_gc(c, &sh2), make_trans(c, &sh2), seed + 12345u);
        ParticleSet tw_pred(N, n), tw_corr(N, n);
        long cur_k = 0;
        if (intrude) {
            sh.intrudes = true;
            vf::set_intruder([&]() {
                serve_twin(cur_k);
                fill(tw_pred, c, "p"); fill(tw_corr, c, "c");
                tw_corr.mean() = (0.5 * tw_corr.mean().array() + 1.0).matrix(); tw_corr.covariance() *= 2.0;
                tw_corr.state() = (tw_corr.state().array() - 0.25).matrix();
                twin_pred.predict(tw_corr, tw_pred);
                twin_corr.freeze_measurements(); twin_corr.correct(tw_pred, tw_corr); twin_corr.getLikelihood();
            });
        }
        std::unique_ptr<GaussianPrediction> gp = make_gp(c, &sh);
        GaussianPrediction* gp_raw = gp.get();
        std::unique_ptr<GaussianCorrection> gc = make_gc(c, &sh);
        GaussianCorrection* gc_raw = gc.get();
        GPFPrediction gpf_pred(std::move(gp));
        LoggedGPF gpf_corr(make_lik(c, &sh), std::move(gc), make_trans(c, &sh), seed);
        // the wrapped steps and the transition model, constructed separately
        std::unique_ptr<GaussianPrediction> sep_gp = make_gp(c, &sh_sep);
        std::unique_ptr<GaussianCorrection> sep_gc = make_gc(c, &sh_sep);
        std::unique_ptr<StateModel> sep_trans = make_trans(c, &sh_sep);
        std::mt19937_64 mirror_gen(seed);
        std::normal_distribution<double> mirror_dist(0.0, 1.0);
        bool mirror_ok = true;

        vf::out_begin(c.id);
        for (long k = 0; k < steps; k++) {
            const std::string s = std::to_string(k);
            serve(sh, c, k); cur_k = k;
            sh.mv = flag(c, "mv", k, true); sh.pv = flag(c, "pv", k, true); sh.iv = flag(c, "iv", k, true); sh.cv = flag(c, "cv", k, true);
            sh.lik_ok = flag(c, "lok", k, true);
            sh_sep = sh; sh_sep.intrudes = false;
            const bool skpp = flag(c, "skpp", k, false), skgp = flag(c, "skgp", k, false), skpc = flag(c, "skpc", k, false), skgc = flag(c, "skgc", k, false);
            { vf::Entry e("skip");
              gp_raw->skip("prediction", skgp); sep_gp->skip("prediction", skgp);
              gpf_pred.skip("prediction", skpp);
              if (!skpp && skgp) gp_raw->skip("prediction", true);      // PFPrediction::skip resets the shared state-model flags
              gc_raw->skip(skgc); sep_gc->skip(skgc);
              gpf_corr.skip(skpc); }

            // ---- prediction: corr -> pred
            ParticleSet corr_before(corr), pred_before(pred);
            { vf::Entry e("GPFPrediction::predict"); gpf_pred.predict(corr, pred); }
            vf::out_int("prev_unchanged" + s, same(corr, corr_before) ? 1 : 0);
            out_set("p" + s, pred);
            {
                GaussianMixture in_gm(corr_before), out_gm(pred_before);
                vf::Entry e("GaussianPrediction::predict");
                sep_gp->predict(in_gm, out_gm);
                vf::out_mat("sep_p" + s + "_mean", out_gm.mean()); vf::out_mat("sep_p" + s + "_cov", out_gm.covariance());
            }

            // ---- correction: pred -> corr
            ParticleSet pred_copy(pred), corr_old(corr);
            gpf_corr.zlog.clear();
            { vf::Entry e("GPFCorrection::correct"); gpf_corr.freeze_measurements(); gpf_corr.correct(pred, corr); }
            vf::out_int("pred_unchanged" + s, same(pred, pred_copy) ? 1 : 0);
            out_set("c" + s, corr);
            {
                GaussianMixture in_gm(pred_copy), out_gm(corr_old);
                vf::Entry e("GaussianCorrection::correct");
                sep_gc->freeze_measurements();
                sep_gc->correct(in_gm, out_gm);
                vf::out_mat("sep_c" + s + "_mean", out_gm.mean()); vf::out_mat("sep_c" + s + "_cov", out_gm.covariance());
            }
            bool ok; VectorXd lik;
            { vf::Entry e("GPFCorrection::getLikelihood"); std::tie(ok, lik) = gpf_corr.getLikelihood(); }
            vf::out_int("valid" + s, ok ? 1 : 0);
            vf::out_mat("lik" + s, lik);
            // the draws of this step, column i = particle i
            const long nz = (long)gpf_corr.zlog.size();
            vf::out_int("nz" + s, nz);
            MatrixXd z = MatrixXd::Zero(n, N);
            for (long j = 0; j < nz && j < n * N; j++) z(j % n, j / n) = gpf_corr.zlog[j];
            for (long j = 0; j < nz; j++) { double m = mirror_dist(mirror_gen); mirror_ok = mirror_ok && std::memcmp(&m, &gpf_corr.zlog[j], sizeof m) == 0; }
            vf::out_mat("z" + s, z);
            if (ok && !skpc) {
                // the implementation's own transition and proposal values on the sets it returned
                VectorXd t, q(N);
                { vf::Entry e("StateModel::getTransitionProbability"); t = sep_trans->getTransitionProbability(pred_copy.state(), corr.state()); }
                { vf::Entry e("GPFCorrection::evaluateProposal");
                  for (long i = 0; i < N; i++) q(i) = gpf_corr.proposal(corr.state(i), corr.mean(i), corr.covariance(i)); }
                vf::out_mat("t" + s, t); vf::out_mat("q" + s, q);
                // the library's square-root factors of the corrected covariances
                MatrixXd L(n, n * N);
                { vf::Entry e("GPFCorrection::sampleFromProposal");
                  for (long i = 0; i < N; i++) L.middleCols(n * i, n) = gpf_corr.observed_sqrt(corr.covariance(i)); }
                vf::out_mat("L" + s, L);
            }
        }
        vf::out_int("rng_mirror_ok", mirror_ok ? 1 : 0);
        if (intrude) vf::out_int("intruder_calls", vf::intruder_state().calls);
        vf::clear_intruder();
        vf::out_end();
    }
    return 0;
}
