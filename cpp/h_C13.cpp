// h_C13.cpp — harness for C13: skip commands on assembled filters.
// case kind = kf | ukf | boot | gpf | boot2 (bootstrap filter whose exogenous model is handed to the
// two-argument constructor DrawParticles(state_model, exogenous_model) instead of StateModel::add_exogenous_model); meta exo=0|1, inner=kf|ukf (gpf only), np (particles / components)
// mats F Q (n x n), H (m x n), R (m x m), y (m x 1), noise (n x 1), optional B (n x n), c (n x 1); int seed;
// kind ukfg: GaussianFilter with the GENERIC UKFPrediction constructor (std::unique_ptr<StateModel>, noise-augmented
// sigma points, StateModel::motion) and SUKFCorrection as correction step.
// meta lin, circ, quat: layout of the beliefs (dim_linear, dim_circular, use_quaternion); F is dim x dim, Q is
// dim_covariance x dim_covariance.
// meta sensor=stream (harness sensor serving y + count*dy, counting the freeze calls) | sim (the library's
// SimulatedLinearSensor over a SimulatedStateModel started at x0).
// word ops: "<name>:on" | "<name>:off" | "freeze" | "predict" | "correct" | "predict!" | "correct!" | "move" | "move=" | "move=!";
// "move": the subject filter is replaced by a NEW filter whose prediction and correction steps are MOVE-CONSTRUCTED from the
// steps of the current one (KFPrediction / UKFPrediction / KFCorrection / UKFCorrection / SUKFCorrection / DrawParticles /
// GPFPrediction / BootstrapCorrection / GPFCorrection (KFCorrection&&) ...), whatever commands and steps they received so far;
// "move=": the new filter is built with freshly constructed steps onto which the current ones are MOVE-ASSIGNED (the classes
// that have a move assignment: all but KF/UKF/SUKFCorrection, which are move-constructed); "move=!": the same after the
// target steps were told to skip everything.  The never-skipped twins are never moved.  Token: moved,P=..,S=..,E=..
// "freeze" calls freeze_measurements() on the subject's correction step AND on its never-skipped twins; with "!" the output object
// handed to the step has ANOTHER shape (2 more components, 1 more linear dimension, no circular part) than the input.
// meta intrude=1: an independent filter object of the same configuration (the "intruder") receives OTHER skip commands (a fixed
// cycle over all names, on and off) and a predict + correct on beliefs of its own before every operation of the word, between
// the subject's and the twins' calls, and inside every callback of the models (state / exogenous / measurement) of the subject and of
// the twins (vf::intrude, recursion cut at depth one).  Flags live in the objects: nothing observed may change.
// The commands go through GaussianFilter::skip / ParticleFilter::skip (a GaussianFilter subclass, an
// SIS subclass; the filtering thread is never started); predict / correct are called on the filter's
// own prediction and correction steps with fresh random beliefs.  Per operation one token is printed:
//   skip:    r=<true|false|throw>,P=<0|1>,S=<0|1>,E=<0|1|->   (return value / exception, is_skipping() of the
//            prediction step, the state model, the exogenous model)
//   predict: identity | full | stateonly | exoonly | other   (bitwise comparison with the input, with a
//            never-skipped twin, with a never-skipped twin without exogenous model, with u(X) + noise)
//   correct: identity | run | other
#define VF_MAIN
#include "common.hpp"
#include <BayesFilters/BootstrapCorrection.h>
#include <BayesFilters/DrawParticles.h>
#include <BayesFilters/ExogenousModel.h>
#include <BayesFilters/GPFCorrection.h>
#include <BayesFilters/GPFPrediction.h>
#include <BayesFilters/GaussianFilter.h>
#include <BayesFilters/GaussianLikelihood.h>
#include <BayesFilters/GaussianMixture.h>
#include <BayesFilters/KFCorrection.h>
#include <BayesFilters/KFPrediction.h>
#include <BayesFilters/LTIMeasurementModel.h>
#include <BayesFilters/LTIStateModel.h>
#include <BayesFilters/ParticleSet.h>
#include <BayesFilters/ParticleSetInitialization.h>
#include <BayesFilters/Resampling.h>
#include <BayesFilters/SIS.h>
#include <BayesFilters/SUKFCorrection.h>
#include <BayesFilters/SimulatedLinearSensor.h>
#include <BayesFilters/SimulatedStateModel.h>
#include <BayesFilters/UKFCorrection.h>
#include <BayesFilters/UKFPrediction.h>
#include <functional>
#include <random>

using namespace bfl;
using namespace Eigen;

struct AffineExo : public ExogenousModel {
    MatrixXd B_, c_;
    AffineExo(const MatrixXd& B, const MatrixXd& c) : B_(B), c_(c) {}
    void propagate(const Ref<const MatrixXd>& cur, Ref<MatrixXd> prop) override { vf::intrude(); prop = B_ * cur + c_.replicate(1, cur.cols()); }
    bool setProperty(const std::string&) override { return false; }
    VectorDescription getStateDescription() const override { return VectorDescription(B_.rows()); }
};

struct Layout {
    long lin, circ; bool quat;
    long dim() const { return lin + circ * (quat ? 4 : 1); }
    long dim_cov() const { return lin + circ * (quat ? 3 : 1); }
    VectorDescription desc() const {
        return VectorDescription(lin, circ, 0, quat ? VectorDescription::CircularType::Quaternion : VectorDescription::CircularType::Euler);
    }
};
static Layout layout_of(const vf::Case& c) {
    Layout l; l.circ = c.mi("circ", 0); l.quat = c.mi("quat", 0) != 0; l.lin = c.has_mat("F") ? c.mat("F").rows() - l.circ * (l.quat ? 4 : 1) : 0;
    return l;
}

// linear state model (F of size dim, Q of size dim_covariance) with a history-independent "noise sample"
// (so that a twin that executed a different number of steps still draws the same numbers) and a
// deterministic transition probability
struct TState : public LinearStateModel {
    MatrixXd F_, Q_, noise_; Layout l_;
    TState(const MatrixXd& F, const MatrixXd& Q, const MatrixXd& noise, const Layout& l) : F_(F), Q_(Q), noise_(noise), l_(l) {}
    MatrixXd getStateTransitionMatrix() override { vf::intrude(); return F_; }
    MatrixXd getNoiseCovarianceMatrix() override { vf::intrude(); return Q_; }
    MatrixXd getJacobian() override { vf::intrude(); return F_; }
    bool setProperty(const std::string&) override { return false; }
    VectorDescription getStateDescription() override { return l_.desc(); }
    MatrixXd getNoiseSample(const std::size_t num) override {
        vf::intrude();
        MatrixXd r(F_.rows(), num);
        for (std::size_t j = 0; j < num; j++) r.col(j) = noise_ * (1.0 + 0.25 * static_cast<double>(j));
        return r;
    }
    VectorXd getTransitionProbability(const Ref<const MatrixXd>& prev, const Ref<const MatrixXd>& cur) override {
        vf::intrude();
        MatrixXd d = cur - F_ * prev;
        VectorXd p(cur.cols());
        for (long j = 0; j < cur.cols(); j++) p(j) = 0.1 + 0.3 * std::exp(-0.5 * d.col(j).squaredNorm());
        return p;
    }
};

// the same model seen as a generic (non-additive) StateModel: the noise enters through the
// augmented input of motion() (linear / Euler layouts: noise dimension = state dimension)
struct GenState : public TState {
    using TState::TState;
    void motion(const Ref<const MatrixXd>& cur, Ref<MatrixXd> mot) override {
        vf::intrude();
        const long d = F_.rows();
        MatrixXd x = cur.topRows(d);
        MatrixXd out(d, cur.cols()); out.setConstant(-11.5);
        propagate(x, out);
        mot = out + cur.bottomRows(cur.rows() - d);
    }
};

// stream-like sensor: every freeze() advances the source; measure() serves the measurement frozen last
// (y, y + dy, y + 2 dy, ...); the number of freeze calls received is observable
struct TMeas : public LTIMeasurementModel {
    MatrixXd y0_, dy_, cur_;
    long count_ = 0;
    Layout l_;
    TMeas(const MatrixXd& H, const MatrixXd& R, const MatrixXd& y, const Layout& l) : LTIMeasurementModel(H, R), y0_(y), cur_(y), l_(l) {
        dy_ = (y.array() * 0.25 + 0.5).matrix();
    }
    bool freeze(const Data&) override { vf::intrude(); ++count_; cur_ = y0_ + dy_ * static_cast<double>(count_); return true; }
    std::pair<bool, Data> measure(const Data&) const override { vf::intrude(); return std::make_pair(true, Data(cur_)); }
    VectorDescription getInputDescription() const override { return l_.desc(); }
    VectorDescription getMeasurementDescription() const override { return VectorDescription(H_.rows()); }
};

struct NoInit : public ParticleSetInitialization { bool initialize(ParticleSet&) override { return true; } };

// meta direct=1 (stand-alone use of the steps): the commands are given to the step objects themselves, Prediction::skip(name, status)
// and Correction::skip(status), as a user holding the steps without a filter does ('all' = both, as the words of the property say)
template <typename P, typename C> static bool direct_skip(P& p, C& c, const std::string& w, bool s) {
    if (w == "prediction" || w == "state" || w == "exogenous") return p.skip(w, s);
    if (w == "correction") return c.skip(s);
    if (w == "all") { bool r = p.skip("prediction", s); r = c.skip(s) && r; return r; }
    return false;
}

struct GF : public GaussianFilter {
    GF(std::unique_ptr<GaussianPrediction> p, std::unique_ptr<GaussianCorrection> c) : GaussianFilter(std::move(p), std::move(c)) {}
    bool initialization_step() override { return true; }
    void filtering_step() override {}
    bool run_condition() override { return false; }
    GaussianPrediction& P() { return prediction(); }
    GaussianCorrection& C() { return correction(); }
    bool skip_steps(const std::string& w, bool s) { return direct_skip(P(), C(), w, s); }
};

struct PF : public SIS {
    PF(unsigned np, const Layout& l, std::unique_ptr<PFPrediction> p, std::unique_ptr<PFCorrection> c)
        : SIS(np, l.lin, l.circ, std::unique_ptr<ParticleSetInitialization>(new NoInit()), std::move(p), std::move(c), std::unique_ptr<Resampling>(new Resampling(1))) {}
    bool run_condition() override { return false; }
    PFPrediction& P() { return prediction(); }
    PFCorrection& C() { return correction(); }
    bool skip_steps(const std::string& w, bool s) { return direct_skip(P(), C(), w, s); }
};

// ---- object lifetimes: step objects obtained by move construction / move assignment ----
template <typename T, typename Base> static bool move_ctor(Base& b, std::unique_ptr<Base>& out, const char* what) {
    T* p = dynamic_cast<T*>(&b);
    if (!p) return false;
    vf::Entry e(what);
    out.reset(new T(std::move(*p)));
    return true;
}
template <typename T, typename Base> static bool move_assign(Base& src, Base& dst, const char* what) {
    T* s = dynamic_cast<T*>(&src); T* d = dynamic_cast<T*>(&dst);
    if (!s || !d) return false;
    vf::Entry e(what);
    *d = std::move(*s);
    return true;
}
static std::unique_ptr<GaussianPrediction> moved(GaussianPrediction& b) {
    std::unique_ptr<GaussianPrediction> o;
    if (move_ctor<KFPrediction>(b, o, "KFPrediction(KFPrediction&&)") || move_ctor<UKFPrediction>(b, o, "UKFPrediction(UKFPrediction&&)")) return o;
    throw std::runtime_error("harness: unknown Gaussian prediction class");
}
static std::unique_ptr<GaussianCorrection> moved(GaussianCorrection& b) {
    std::unique_ptr<GaussianCorrection> o;
    if (move_ctor<KFCorrection>(b, o, "KFCorrection(KFCorrection&&)") || move_ctor<UKFCorrection>(b, o, "UKFCorrection(UKFCorrection&&)")
        || move_ctor<SUKFCorrection>(b, o, "SUKFCorrection(SUKFCorrection&&)")) return o;
    throw std::runtime_error("harness: unknown Gaussian correction class");
}
static std::unique_ptr<PFPrediction> moved(PFPrediction& b) {
    std::unique_ptr<PFPrediction> o;
    if (move_ctor<DrawParticles>(b, o, "DrawParticles(DrawParticles&&)") || move_ctor<GPFPrediction>(b, o, "GPFPrediction(GPFPrediction&&)")) return o;
    throw std::runtime_error("harness: unknown particle prediction class");
}
static std::unique_ptr<PFCorrection> moved(PFCorrection& b) {
    std::unique_ptr<PFCorrection> o;
    if (move_ctor<BootstrapCorrection>(b, o, "BootstrapCorrection(BootstrapCorrection&&)") || move_ctor<GPFCorrection>(b, o, "GPFCorrection(GPFCorrection&&)")) return o;
    throw std::runtime_error("harness: unknown particle correction class");
}
static void assign(GaussianPrediction& src, GaussianPrediction& dst) {
    if (move_assign<KFPrediction>(src, dst, "KFPrediction::operator=(KFPrediction&&)") || move_assign<UKFPrediction>(src, dst, "UKFPrediction::operator=(UKFPrediction&&)")) return;
    throw std::runtime_error("harness: Gaussian prediction classes differ");
}
static void assign(PFPrediction& src, PFPrediction& dst) {
    if (move_assign<DrawParticles>(src, dst, "DrawParticles::operator=(DrawParticles&&)") || move_assign<GPFPrediction>(src, dst, "GPFPrediction::operator=(GPFPrediction&&)")) return;
    throw std::runtime_error("harness: particle prediction classes differ");
}
static void assign(PFCorrection& src, PFCorrection& dst) {
    if (move_assign<BootstrapCorrection>(src, dst, "BootstrapCorrection::operator=(BootstrapCorrection&&)") || move_assign<GPFCorrection>(src, dst, "GPFCorrection::operator=(GPFCorrection&&)")) return;
    throw std::runtime_error("harness: particle correction classes differ");
}

struct Setup {
    const vf::Case& c;
    bool exo;
    Layout l;
    explicit Setup(const vf::Case& cc, bool e) : c(cc), exo(e), l(layout_of(cc)) {}
    template <typename SM, typename Impl = TState> std::unique_ptr<SM> state() const {
        std::unique_ptr<TState> s(new Impl(c.mat("F"), c.mat("Q"), c.mat("noise"), l));
        if (exo) s->add_exogenous_model(std::unique_ptr<ExogenousModel>(new AffineExo(c.mat("B"), c.mat("c"))));
        return std::unique_ptr<SM>(s.release());
    }
    template <typename MM> std::unique_ptr<MM> meas() const {
        if (c.m("sensor", "stream") == "sim") {
            // the library's own stream: SimulatedLinearSensor over a SimulatedStateModel (freeze -> bufferData advances the trajectory)
            const MatrixXd& R = c.mat("R");
            std::unique_ptr<StateModel> target(new TState(c.mat("F"), c.mat("Q"), c.mat("noise"), l));
            std::unique_ptr<SimulatedStateModel> sim(new SimulatedStateModel(std::move(target), c.mat("x0").col(0), static_cast<unsigned int>(c.mi("traj", 64))));
            std::vector<std::size_t> idx; for (long i = 0; i < R.rows(); i++) idx.push_back(static_cast<std::size_t>(i));
            return std::unique_ptr<MM>(new SimulatedLinearSensor(std::move(sim), LinearModel::LinearMatrixComponent{static_cast<std::size_t>(l.dim()), idx}, R));
        }
        return std::unique_ptr<MM>(new TMeas(c.mat("H"), c.mat("R"), c.mat("y"), l));
    }
    std::unique_ptr<GaussianPrediction> gpred(const std::string& k) const {
        if (k == "kf") return std::unique_ptr<GaussianPrediction>(new KFPrediction(state<LinearStateModel>()));
        if (k == "ukfg") return std::unique_ptr<GaussianPrediction>(new UKFPrediction(state<StateModel, GenState>(), 1.0, 2.0, 0.0));   // generic constructor
        return std::unique_ptr<GaussianPrediction>(new UKFPrediction(state<AdditiveStateModel>(), 1.0, 2.0, 0.0));
    }
    std::unique_ptr<GaussianCorrection> gcorr(const std::string& k) const {
        if (k == "kf") return std::unique_ptr<GaussianCorrection>(new KFCorrection(meas<LinearMeasurementModel>()));
        if (k == "ukfg") return std::unique_ptr<GaussianCorrection>(new SUKFCorrection(meas<AdditiveMeasurementModel>(), 1.0, 2.0, 0.0, 1, false));
        return std::unique_ptr<GaussianCorrection>(new UKFCorrection(meas<AdditiveMeasurementModel>(), 1.0, 2.0, 0.0));
    }
    std::unique_ptr<GF> gaussian(const std::string& k) const { return std::unique_ptr<GF>(new GF(gpred(k), gcorr(k))); }
    // mode 0: move construction; 1: move assignment onto freshly constructed steps; 2: onto steps told to skip everything
    std::unique_ptr<GF> regaussian(GF& old, const std::string& k, int mode) const {
        std::unique_ptr<GaussianCorrection> nc = moved(old.C());        // the Gaussian corrections have a move constructor only
        if (mode == 0) return std::unique_ptr<GF>(new GF(moved(old.P()), std::move(nc)));
        std::unique_ptr<GaussianPrediction> np = gpred(k);
        if (mode == 2) np->skip("prediction", true);
        assign(old.P(), *np);
        return std::unique_ptr<GF>(new GF(std::move(np), std::move(nc)));
    }
    std::unique_ptr<PF> reparticle(PF& old, const std::string& k, unsigned np, int mode) const {
        if (mode == 0) return std::unique_ptr<PF>(new PF(np, l, moved(old.P()), moved(old.C())));
        std::unique_ptr<PF> nf = particle(k, np);
        if (mode == 2) nf->skip("all", true);
        assign(old.P(), nf->P());
        assign(old.C(), nf->C());
        return nf;
    }
    std::unique_ptr<PF> particle(const std::string& k, unsigned np) const {
        if (k == "boot2") {
            // the exogenous model goes to DrawParticles' own constructor, the state model gets none
            std::unique_ptr<StateModel> sm(new TState(c.mat("F"), c.mat("Q"), c.mat("noise"), l));
            std::unique_ptr<PFPrediction> dp(exo ? new DrawParticles(std::move(sm), std::unique_ptr<ExogenousModel>(new AffineExo(c.mat("B"), c.mat("c"))))
                                                 : new DrawParticles(std::move(sm)));
            return std::unique_ptr<PF>(new PF(np, l, std::move(dp),
                                              std::unique_ptr<PFCorrection>(new BootstrapCorrection(meas<MeasurementModel>(), std::unique_ptr<LikelihoodModel>(new GaussianLikelihood())))));
        }
        if (k == "boot")
            return std::unique_ptr<PF>(new PF(np, l, std::unique_ptr<PFPrediction>(new DrawParticles(state<StateModel>())),
                                              std::unique_ptr<PFCorrection>(new BootstrapCorrection(meas<MeasurementModel>(), std::unique_ptr<LikelihoodModel>(new GaussianLikelihood())))));
        const std::string inner = c.m("inner", "kf");
        return std::unique_ptr<PF>(new PF(np, l, std::unique_ptr<PFPrediction>(new GPFPrediction(gpred(inner))),
                                          std::unique_ptr<PFCorrection>(new GPFCorrection(std::unique_ptr<LikelihoodModel>(new GaussianLikelihood()), gcorr(inner),
                                                                                          state<StateModel>(), 7u))));
    }
};

static bool eq(const GaussianMixture& a, const GaussianMixture& b) {
    return a.components == b.components && a.dim == b.dim && a.dim_linear == b.dim_linear && a.dim_circular == b.dim_circular
           && a.dim_noise == b.dim_noise && a.dim_covariance == b.dim_covariance && a.use_quaternion == b.use_quaternion
           && vf::bit_equal(a.mean(), b.mean()) && vf::bit_equal(a.covariance(), b.covariance()) && vf::bit_equal(a.weight(), b.weight());
}
static bool eq(const ParticleSet& a, const ParticleSet& b) {
    return eq(static_cast<const GaussianMixture&>(a), static_cast<const GaussianMixture&>(b)) && vf::bit_equal(a.state(), b.state());
}

struct Rng {
    std::mt19937_64 g; std::normal_distribution<double> d{0.0, 1.0};
    explicit Rng(unsigned long s) : g(s) {}
    double operator()() { return d(g); }
    MatrixXd mat(long r, long c, double s = 1.0) { MatrixXd m(r, c); for (long i = 0; i < r; i++) for (long j = 0; j < c; j++) m(i, j) = s * (*this)(); return m; }
};

static void unit_quaternions(Ref<MatrixXd> m, long lin, long circ) {
    for (long j = 0; j < m.cols(); j++) for (long q = 0; q < circ; q++) {
        double nrm = m.col(j).segment(lin + 4 * q, 4).norm();
        if (nrm < 1e-3) { m.col(j).segment(lin + 4 * q, 4) << 1.0, 0.0, 0.0, 0.0; } else m.col(j).segment(lin + 4 * q, 4) /= nrm;
    }
}
static void fill_gm(GaussianMixture& g, Rng& r) {
    const long n = g.dim, k = g.components, dc = g.dim_covariance;
    g.mean() = r.mat(n, k, g.dim_circular > 0 ? 1.0 : 3.0);
    if (g.use_quaternion) unit_quaternions(g.mean(), g.dim_linear, g.dim_circular);
    for (long i = 0; i < k; i++) { MatrixXd a = r.mat(dc, dc, g.dim_circular > 0 ? 0.3 : 1.0); g.covariance(i) = a * a.transpose() + 0.5 * MatrixXd::Identity(dc, dc) * (g.dim_circular > 0 ? 0.1 : 1.0); }
    VectorXd w(k); for (long i = 0; i < k; i++) w(i) = std::abs(r()) + 0.1;
    g.weight() = (w / w.sum()).array().log().matrix();
}
static void fill(GaussianMixture& g, Rng& r) { fill_gm(g, r); }
static void fill(ParticleSet& p, Rng& r) {
    fill_gm(p, r); p.state() = r.mat(p.dim, p.components, p.dim_circular > 0 ? 1.0 : 3.0);
    if (p.use_quaternion) unit_quaternions(p.state(), p.dim_linear, p.dim_circular);
}
static void junk(GaussianMixture& g) { g.mean().setConstant(7.25); g.covariance().setConstant(-3.5); g.weight().setConstant(0.125); }
static void junk(ParticleSet& p) { junk(static_cast<GaussianMixture&>(p)); p.state().setConstant(-11.5); }

// DrawParticles with the state part skipped and the exogenous part active: the state is the
// exogenous contribution plus the noise sample, weights are copied, mean / covariance are not written
static bool exo_only_match(const vf::Case& c, const ParticleSet& in, const ParticleSet& out) {
    const long n = in.dim, np = in.components;
    TState ns(c.mat("F"), c.mat("Q"), c.mat("noise"), layout_of(c));
    ParticleSet o(np, n); junk(o);
    MatrixXd st = c.mat("B") * in.state() + c.mat("c").replicate(1, np);
    st += ns.getNoiseSample(np);
    o.state() = st; o.weight() = in.weight();
    return eq(out, o);
}
static bool exo_only_match(const vf::Case&, const GaussianMixture&, const GaussianMixture&) { return false; }

// runs one word of operations on a fresh subject filter (and fresh never-skipped twins); returns the trace
template <typename Filter, typename Belief, typename Make, typename Remake>
static std::vector<std::string> run_word(const vf::Case& c, Make make, Remake remake, bool exo, const std::string& cfg,
                                         const std::vector<std::string>& ops, unsigned long seed, bool& inputs_kept) {
    const Layout l = layout_of(c); const long n = l.dim(); const long np = c.mi("np", 3);
    std::unique_ptr<Filter> subp = make(exo), twinp = make(exo), t0p;
    if (exo) t0p = make(false);
    Filter& twin = *twinp; Filter* twin_noexo = t0p.get();      // the subject is *subp: a move replaces it
    Rng rng(seed);
    const bool direct = c.mi("direct", 0) != 0;
    std::vector<std::string> trace;
    // the intruder: another filter of the same configuration with commands, measurements and beliefs of its own
    struct Clear { ~Clear() { vf::clear_intruder(); } } clear_at_exit;
    std::unique_ptr<Filter> intrp;
    std::shared_ptr<Rng> irng(new Rng(seed ^ 0x9e3779b97f4a7c15ul));
    std::shared_ptr<long> icount(new long(0));
    if (c.mi("intrude", 0) != 0) {
        intrp = make(exo);
        Filter* intr = intrp.get();
        vf::set_intruder([intr, irng, icount, l, np]() {
            static const char* names[10] = {"all", "state", "correction", "exogenous", "prediction", "all", "state", "exogenous", "correction", "prediction"};
            static const bool status[10] = {true, false, false, false, true, false, true, true, true, false};
            const long k = (*icount)++;
            try { intr->skip(names[k % 10], status[k % 10]); } catch (const std::exception&) {}
            if (k == 0) intr->C().freeze_measurements();     // once: the simulated trajectory behind the library's sensor is finite
            Belief in(np, l.lin, l.circ, l.quat); fill(in, *irng);
            Belief mid(np, l.lin, l.circ, l.quat), out(np, l.lin, l.circ, l.quat); junk(mid); junk(out);
            intr->P().predict(in, mid);
            if (!l.quat) intr->C().correct(in, out);        // UKFCorrection on a quaternion state: open finding of C14, not exercised
        });
    }
    auto flags = [&]() {
        Filter& sub = *subp; StateModel& sm = sub.P().getStateModel();
        std::string s = std::string("P=") + (sub.P().is_skipping() ? "1" : "0") + ",S=" + (sm.is_skipping() ? "1" : "0") + ",E=";
        s += sm.have_exogenous_model() ? (sm.exogenous_model().is_skipping() ? "1" : "0") : "-";
        return s;
    };
    trace.push_back("init," + flags());
    // the measurement the correction would use now: the subject's against the never-skipped twin's
    auto same_measurement = [&]() {
        bool v1, v2; Data d1, d2;
        std::tie(v1, d1) = subp->C().getMeasurementModel().measure();
        std::tie(v2, d2) = twin.C().getMeasurementModel().measure();
        if (!v1 || !v2) return v1 == v2;
        return vf::bit_equal(any::any_cast<MatrixXd>(d1), any::any_cast<MatrixXd>(d2));
    };
    for (const std::string& op0 : ops) {
        vf::intrude();
        const bool other_shape = !op0.empty() && op0[op0.size() - 1] == '!';
        const std::string op = other_shape ? op0.substr(0, op0.size() - 1) : op0;
        if (op0 == "move" || op0 == "move=" || op0 == "move=!") {
            std::unique_ptr<Filter> nf = remake(*subp, op0 == "move" ? 0 : (op0 == "move=" ? 1 : 2));
            subp = std::move(nf);          // the filter holding the moved-from steps is destroyed
            trace.push_back("moved," + flags());
            continue;
        }
        Filter& sub = *subp;
        if (op == "predict" || op == "correct") {
            Belief in(np, l.lin, l.circ, l.quat); fill(in, rng);
            Belief in_copy(in);
            // the output object: the input's shape, or (for "!") two more components, one more dimension, all linear
            Belief out = other_shape ? Belief(np + 2, n + 1) : Belief(np, l.lin, l.circ, l.quat); junk(out);
            std::string tok;
            if (op == "predict") {
                { vf::Entry e("Prediction::predict"); sub.P().predict(in, out); }
                if (eq(out, in)) tok = "identity";
                else {
                    Belief o2(np, l.lin, l.circ, l.quat); junk(o2); twin.P().predict(in, o2);
                    if (eq(out, o2)) tok = "full";
                    else {
                        tok = "other";
                        if (twin_noexo) { Belief o3(np, l.lin, l.circ, l.quat); junk(o3); twin_noexo->P().predict(in, o3); if (eq(out, o3)) tok = "stateonly"; }
                        if (tok == "other" && exo && (cfg == "boot" || cfg == "boot2") && exo_only_match(c, in, out)) tok = "exoonly";
                    }
                }
            } else {
                { vf::Entry e("Correction::correct"); sub.C().correct(in, out); }
                if (eq(out, in)) tok = "identity";
                else {
                    // the twin executes exactly the corrections the subject executes (keeps seeded generators in step)
                    Belief o2(np, l.lin, l.circ, l.quat); junk(o2); twin.C().correct(in, o2);
                    tok = eq(out, o2) ? "run" : "other";
                }
            }
            inputs_kept = inputs_kept && eq(in, in_copy);
            trace.push_back(tok);
        } else if (op == "freeze") {
            // freeze_measurements() on the correction step of the subject and, identically, of its never-skipped twins
            bool r;
            { vf::Entry e("Correction::freeze_measurements"); r = sub.C().freeze_measurements(); }
            twin.C().freeze_measurements();
            if (twin_noexo) twin_noexo->C().freeze_measurements();
            TMeas* tm = dynamic_cast<TMeas*>(&sub.C().getMeasurementModel());
            trace.push_back(std::string("freeze=") + (r ? "true" : "false") + ",meas=" + (same_measurement() ? "same" : "differs")
                            + ",n=" + (tm ? std::to_string(tm->count_) : std::string("-")));
        } else {
            auto p = op.find(':');
            const std::string name = op.substr(0, p); const bool status = op.substr(p + 1) == "on";
            std::string r;
            try {
                if (direct) { vf::Entry e("Prediction::skip / Correction::skip"); r = sub.skip_steps(name, status) ? "true" : "false"; }
                else { vf::Entry e("Filter::skip"); r = sub.skip(name, status) ? "true" : "false"; }
            }
            catch (const std::exception& ex) { r = "throw"; }
            trace.push_back("r=" + r + "," + flags());
        }
    }
    return trace;
}

// compact form of the trace of "<commands> predict correct": one letter per answer, final flags, the two step tokens
static std::string compress(const std::vector<std::string>& trace) {
    std::string rs, fl = trace[0].substr(5);
    for (std::size_t i = 1; i + 2 < trace.size(); i++) {
        const std::string& t = trace[i];
        if (t.compare(0, 6, "moved,") == 0) continue;
        if (t.compare(0, 7, "freeze=") == 0) {
            // z: forwarded, same measurement as the twin; Z: forwarded, another measurement; n: freeze returned false
            rs += t.compare(7, 4, "true") != 0 ? 'n' : (t.find("meas=same") != std::string::npos ? 'z' : 'Z');
            continue;
        }
        rs += t[2] == 't' && t[3] == 'r' ? 't' : (t[2] == 'f' ? 'f' : 'x');
        fl = t.substr(t.find(',') + 1);
    }
    return rs + "," + fl + "," + trace[trace.size() - 2] + "," + trace[trace.size() - 1];
}

template <typename Filter, typename Belief, typename Make, typename Remake>
static void drive(const vf::Case& c, Make make, Remake remake, bool exo, const std::string& cfg) {
    bool inputs_kept = true;
    const unsigned long seed = static_cast<unsigned long>(c.integer("seed"));
    vf::out_begin(c.id);
    if (c.has_int("ext")) {
        // all extensions of the prefix by `ext` commands over the alphabet, in lexicographic order
        const std::vector<std::string>& alpha = c.word("alphabet");
        const long ext = c.integer("ext"), a = static_cast<long>(alpha.size());
        long total = 1; for (long i = 0; i < ext; i++) total *= a;
        std::vector<std::string> res;
        res.reserve(total);
        for (long w = 0; w < total; w++) {
            std::vector<std::string> ops; ops.push_back("freeze");      // every word starts with one freeze
            for (const std::string& x : c.word("prefix")) ops.push_back(x);
            std::vector<long> idx(ext); long r = w;
            for (long i = ext - 1; i >= 0; i--) { idx[i] = r % a; r /= a; }
            for (long i = 0; i < ext; i++) ops.push_back(alpha[idx[i]]);
            ops.push_back("predict"); ops.push_back("correct");
            res.push_back(compress(run_word<Filter, Belief>(c, make, remake, exo, cfg, ops, seed + static_cast<unsigned long>(w), inputs_kept)));
        }
        vf::out_word("enum", res);
    } else {
        vf::out_word("trace", run_word<Filter, Belief>(c, make, remake, exo, cfg, c.word("ops"), seed, inputs_kept));
    }
    vf::out_int("inputs_unchanged", inputs_kept ? 1 : 0);
    vf::out_end();
}

int main() {
    vf::Case c;
    while (vf::read_case(std::cin, c)) {
        const bool exo = c.mi("exo") != 0;
        const unsigned np = static_cast<unsigned>(c.mi("np", 3));
        const std::string kind = c.kind;
        if (kind == "kf" || kind == "ukf" || kind == "ukfg") {
            auto make = [&](bool e) { return Setup(c, e).gaussian(kind); };
            auto remake = [&](GF& old, int mode) { return Setup(c, exo).regaussian(old, kind, mode); };
            drive<GF, GaussianMixture>(c, make, remake, exo, kind);
        } else {
            auto make = [&](bool e) { return Setup(c, e).particle(kind, np); };
            auto remake = [&](PF& old, int mode) { return Setup(c, exo).reparticle(old, kind, np, mode); };
            drive<PF, ParticleSet>(c, make, remake, exo, kind);
        }
    }
    return 0;
}
