// h_C12.cpp — harness for C12: every correction class of the library driven
// through a sequence of steps, each with its own fault pattern, over
// fault-injecting measurement / likelihood models that log the calls made.
//
// Case: kind = kf | ukf_gen | ukf_add | sukf | gl | boot_gl | boot_custom |
//              gpf_<inner>_<lik> (inner kf|ukfgen|ukfadd, lik gl|custom) | sis
//   meta  n m comps steps sub risky skip iskip emptyR alias online reduced
//         (skip_: driven correction / correction wrapped by GPF; failing noise-covariance call returns an empty matrix;
//          correct(p, p); UKF update_weights_online; SUKF reduced noise covariance)
//   word  pat  <6 bits per step: measure predictedMeasure innovation noisecov freeze likelihood;
//               gpf_*: optionally 12 bits, the second six apply while the likelihood model is evaluated>
//   mat   H R ; per step k: y<k> means<k> covs<k> weights<k> [states<k>]
//   mat   omeans ocovs oweights [ostates]   previous content of the output object
// Output per step k: ident<k> (whole object bit-identical to the predicted one)
// and its parts, the raw matrices, log<k> (calls made by correct), lik_valid<k>,
// lik<k>, liklog<k> (calls made by getLikelihood), pred_unchanged<k>.
// Cases marked risky=1 run in a forked child so that a redirected Eigen
// assertion / sanitizer abort ends the case, not the run; the parent then
// closes the record with crashed / crash_* fields.
#define VF_MAIN
#include "common.hpp"
#include <BayesFilters/BootstrapCorrection.h>
#include <BayesFilters/GPFCorrection.h>
#include <BayesFilters/GaussianLikelihood.h>
#include <BayesFilters/GaussianMixture.h>
#include <BayesFilters/KFCorrection.h>
#include <BayesFilters/LinearMeasurementModel.h>
#include <BayesFilters/ParticleSet.h>
#include <BayesFilters/Resampling.h>
#include <BayesFilters/SIS.h>
#include <BayesFilters/SUKFCorrection.h>
#include <BayesFilters/StateModel.h>
#include <BayesFilters/UKFCorrection.h>
#include <BayesFilters/utils.h>
#include <Eigen/Cholesky>
#include <random>
#include <cstring>
#include <fcntl.h>
#include <memory>
#include <sys/wait.h>
#include <unistd.h>

using namespace bfl;
using namespace Eigen;

enum { S_M = 0, S_P, S_I, S_N, S_F, S_L };

struct Shared {
    std::string bits = "000000";    // pattern of the step
    std::string bits2 = "000000";   // pattern while a PhaseLik-wrapped likelihood model is being evaluated (GPF's second phase)
    int phase = 0;
    bool empty_on_fail = false;     // a failing getNoiseCovarianceMatrix returns an empty matrix next to its flag
    MatrixXd y;
    std::vector<std::string> log;
    bool fails(int s) const { const std::string& b = phase ? bits2 : bits; return s < (int)b.size() && b[s] == '1'; }
};

// fault-injecting linear sensor; usable as Linear-, Additive- and plain MeasurementModel
class FaultyModel : public LinearMeasurementModel {
public:
    FaultyModel(std::shared_ptr<Shared> sh, const MatrixXd& H, const MatrixXd& R, bool noise_in_input, long reduced_to = 0)
        : sh_(sh), H_(H), R_(R), noise_in_input_(noise_in_input) { if (reduced_to > 0) Rret_ = R.topLeftCorner(reduced_to, reduced_to); else Rret_ = R; }
    bool freeze(const Data&) override { sh_->log.push_back("F"); return !sh_->fails(S_F); }
    std::pair<bool, Data> measure(const Data&) const override {
        sh_->log.push_back("M");
        if (sh_->fails(S_M)) return std::make_pair(false, Data());
        return std::make_pair(true, Data(sh_->y));
    }
    std::pair<bool, Data> predictedMeasure(const Ref<const MatrixXd>& x) const override {
        sh_->log.push_back("P");
        if (sh_->fails(S_P)) return std::make_pair(false, Data());
        MatrixXd pr;
        if (x.rows() == H_.cols() + H_.rows()) pr = H_ * x.topRows(H_.cols()) + x.bottomRows(H_.rows());   // state + noise rows
        else pr = H_ * x;
        return std::make_pair(true, Data(std::move(pr)));
    }
    std::pair<bool, Data> innovation(const Data& pred, const Data& meas) const override {
        sh_->log.push_back("I");
        if (sh_->fails(S_I)) return std::make_pair(false, Data());
        MatrixXd inn = -(any::any_cast<MatrixXd>(pred).colwise() - any::any_cast<MatrixXd>(meas).col(0));
        return std::make_pair(true, Data(std::move(inn)));
    }
    std::pair<bool, MatrixXd> getNoiseCovarianceMatrix() const override {
        sh_->log.push_back("N");
        if (sh_->fails(S_N)) return std::make_pair(false, sh_->empty_on_fail ? MatrixXd() : Rret_);
        return std::make_pair(true, Rret_);
    }
    // getters: logged too (they cannot signal unavailability)
    MatrixXd getMeasurementMatrix() const override { sh_->log.push_back("H"); return H_; }
    VectorDescription getInputDescription() const override { sh_->log.push_back("Di"); return VectorDescription(H_.cols(), 0, noise_in_input_ ? H_.rows() : 0); }
    VectorDescription getMeasurementDescription() const override { sh_->log.push_back("D"); return VectorDescription(H_.rows()); }
private:
    std::shared_ptr<Shared> sh_;
    MatrixXd H_, R_, Rret_;
    bool noise_in_input_;
};

// user-supplied likelihood model with its own validity flag; does not consult the measurement model
class FaultyLik : public LikelihoodModel {
public:
    explicit FaultyLik(std::shared_ptr<Shared> sh) : sh_(sh) {}
    std::pair<bool, VectorXd> likelihood(const MeasurementModel&, const Ref<const MatrixXd>& states) override {
        sh_->log.push_back("L");
        if (sh_->fails(S_L)) return std::make_pair(false, VectorXd::Zero(1));
        return std::make_pair(true, value(states, sh_->y));
    }
    static VectorXd value(const Ref<const MatrixXd>& states, const MatrixXd& y) {
        VectorXd v(states.cols());
        for (long i = 0; i < states.cols(); i++) v(i) = 0.25 + 1.0 / (1.0 + states.col(i).squaredNorm() + y.squaredNorm());
        return v;
    }
private:
    std::shared_ptr<Shared> sh_;
};

// marks the calls made on behalf of the likelihood evaluation
class PhaseLik : public LikelihoodModel {
public:
    PhaseLik(std::shared_ptr<Shared> sh, std::unique_ptr<LikelihoodModel> inner) : sh_(sh), inner_(std::move(inner)) {}
    std::pair<bool, VectorXd> likelihood(const MeasurementModel& mm, const Ref<const MatrixXd>& states) override {
        sh_->phase = 1;
        auto r = inner_->likelihood(mm, states);
        sh_->phase = 0;
        return r;
    }
private:
    std::shared_ptr<Shared> sh_;
    std::unique_ptr<LikelihoodModel> inner_;
};

class StubState : public StateModel {
public:
    explicit StubState(long n) : n_(n) {}
    void propagate(const Ref<const MatrixXd>& cur, Ref<MatrixXd> prop) override { prop = cur; }
    void motion(const Ref<const MatrixXd>& cur, Ref<MatrixXd> mot) override { mot = cur; }
    bool setProperty(const std::string&) override { return false; }
    VectorDescription getInputDescription() override { return VectorDescription(n_); }
    VectorDescription getStateDescription() override { return VectorDescription(n_); }
    VectorXd getTransitionProbability(const Ref<const MatrixXd>&, const Ref<const MatrixXd>& cur) override { return VectorXd::Constant(cur.cols(), 0.5); }
private:
    long n_;
};

static void fill(GaussianMixture& g, const MatrixXd& means, const MatrixXd& covs, const MatrixXd& w) {
    g.mean() = means; g.covariance() = covs; g.weight() = w.col(0);
}
static GaussianMixture make_gm(const vf::Case& c, const std::string& sfx, const std::string& pfx = "") {
    const MatrixXd& means = c.mat(pfx + "means" + sfx);
    GaussianMixture g(means.cols(), means.rows());
    fill(g, means, c.mat(pfx + "covs" + sfx), c.mat(pfx + "weights" + sfx));
    return g;
}
static ParticleSet make_ps(const vf::Case& c, const std::string& sfx, const std::string& pfx = "") {
    const MatrixXd& means = c.mat(pfx + "means" + sfx);
    ParticleSet p(means.cols(), means.rows());
    fill(p, means, c.mat(pfx + "covs" + sfx), c.mat(pfx + "weights" + sfx));
    p.state() = c.mat(pfx + "states" + sfx);
    return p;
}
static bool same_shape(const GaussianMixture& a, const GaussianMixture& b) {
    return a.components == b.components && a.use_quaternion == b.use_quaternion && a.dim_circular_component == b.dim_circular_component
        && a.dim == b.dim && a.dim_linear == b.dim_linear && a.dim_circular == b.dim_circular && a.dim_noise == b.dim_noise
        && a.dim_covariance == b.dim_covariance;
}
static void out_log(const std::string& name, const std::vector<std::string>& l) {
    if (l.empty()) vf::out_word(name, {"-"}); else vf::out_word(name, l);
}
// identity is judged against the copy of the predicted belief taken before the call (with correct(p, p) the
// predicted object itself is the output)
static void emit_gm(const std::string& k, const GaussianMixture& pred, const GaussianMixture& pred_copy, const GaussianMixture& out) {
    bool im = vf::bit_equal(out.mean(), pred_copy.mean()), ic = vf::bit_equal(out.covariance(), pred_copy.covariance()),
         iw = vf::bit_equal(out.weight(), pred_copy.weight()), is = same_shape(out, pred_copy);
    vf::out_int("ident_mean" + k, im); vf::out_int("ident_cov" + k, ic); vf::out_int("ident_w" + k, iw); vf::out_int("ident_shape" + k, is);
    vf::out_int("ident_g" + k, im && ic && iw && is);
    vf::out_int("components" + k, out.components);
    vf::out_mat("mean" + k, out.mean()); vf::out_mat("cov" + k, out.covariance()); vf::out_mat("w" + k, out.weight());
    vf::out_int("pred_unchanged" + k, vf::bit_equal(pred.mean(), pred_copy.mean()) && vf::bit_equal(pred.covariance(), pred_copy.covariance())
                                          && vf::bit_equal(pred.weight(), pred_copy.weight()) && same_shape(pred, pred_copy));
}
static void emit_ps(const std::string& k, const ParticleSet& pred, const ParticleSet& pred_copy, const ParticleSet& out) {
    emit_gm(k, pred, pred_copy, out);
    bool ist = vf::bit_equal(out.state(), pred_copy.state());
    vf::out_int("ident_state" + k, ist);
    vf::out_mat("state" + k, out.state());
    vf::out_int("pred_state_unchanged" + k, vf::bit_equal(pred.state(), pred_copy.state()));
}
static void emit_lik(const std::string& k, bool ok, const VectorXd& lik, const std::vector<std::string>& log) {
    vf::out_int("lik_valid" + k, ok ? 1 : 0);
    vf::out_mat("lik" + k, lik);
    out_log("liklog" + k, log);
    std::cout << std::flush;
}

static void set_step(const vf::Case& c, Shared& sh, long k) {
    const std::string& tok = c.word("pat")[k];
    sh.bits = tok.substr(0, 6);
    sh.bits2 = tok.size() >= 12 ? tok.substr(6, 6) : sh.bits;
    sh.phase = 0;
    sh.y = c.mat("y" + std::to_string(k));
    sh.log.clear();
}

// a GaussianCorrection driven through the steps; the output object is reused (alias: the predicted object is the output)
static void run_gauss(const vf::Case& c, GaussianCorrection& corr, Shared& sh, const char* l_correct, const char* l_lik) {
    GaussianMixture out = make_gm(c, "", "o");
    const long steps = c.mi("steps");
    const bool alias = c.mi("alias") == 1;
    if (c.mi("skip") == 1) corr.skip(true);
    for (long k = 0; k < steps; k++) {
        const std::string ks = std::to_string(k);
        set_step(c, sh, k);
        GaussianMixture pred = make_gm(c, ks), pred_copy(pred);
        GaussianMixture& o = alias ? pred : out;
        vf::out_int("step_begin" + ks, 1); std::cout << std::flush;
        { vf::Entry e(l_correct); corr.correct(pred, o); }
        emit_gm(ks, pred, pred_copy, o);
        vf::out_int("ident" + ks, vf::bit_equal(o.mean(), pred_copy.mean()) && vf::bit_equal(o.covariance(), pred_copy.covariance())
                                       && vf::bit_equal(o.weight(), pred_copy.weight()) && same_shape(o, pred_copy));
        out_log("log" + ks, sh.log);
        sh.log.clear();
        vf::out_int("lik_begin" + ks, 1); std::cout << std::flush;
        bool ok; VectorXd lik;
        { vf::Entry e(l_lik); std::tie(ok, lik) = corr.getLikelihood(); }
        emit_lik(ks, ok, lik, sh.log);
    }
}

// what the known finding "GPFCorrection does not notice that the wrapped correction could not use the
// measurement" must produce and nothing else: states re-drawn around the PREDICTED moments with the
// correction's own generator (seed 7, first draws), weights from the predicted weights, the likelihood at
// the new states, the transition probability 0.5 of the stub state model and the proposal density
static void emit_gpf_mirror(const std::string& ks, const vf::Case& c, const ParticleSet& pred, const ParticleSet& out,
                            const MatrixXd& H, const MatrixXd& R, const MatrixXd& y, bool custom) {
    std::mt19937_64 gen(7);
    std::normal_distribution<double> dist(0.0, 1.0);
    const long n = pred.dim, N = pred.components;
    MatrixXd states(n, N);
    for (long i = 0; i < N; i++) {
        MatrixXd cov = pred.covariance(i); VectorXd mean = pred.mean(i);
        LDLT<MatrixXd> chol_ldlt(cov);
        MatrixXd sqrt_P = (chol_ldlt.transpositionsP() * MatrixXd::Identity(mean.size(), mean.size())).transpose() *
                          chol_ldlt.matrixL() * chol_ldlt.vectorD().real().cwiseSqrt().asDiagonal();
        VectorXd z(mean.size());
        for (int r = 0; r < z.size(); r++) z(r) = dist(gen);
        states.col(i) = mean + sqrt_P * z;
    }
    VectorXd lik;
    if (custom) lik = FaultyLik::value(states, y);
    else {
        auto sh2 = std::make_shared<Shared>(); sh2->y = y;
        FaultyModel fm(sh2, H, R, false);
        GaussianLikelihood gl_obj; LikelihoodModel& gl = gl_obj;
        bool ok; std::tie(ok, lik) = gl.likelihood(fm, states);
    }
    const double eps = std::numeric_limits<double>::min();
    VectorXd w(N);
    for (long i = 0; i < N; i++) {
        double q = utils::multivariate_gaussian_density(states.col(i), pred.mean(i), pred.covariance(i)).coeff(0);
        w(i) = pred.weight(i) + std::log(lik(i) + eps) + std::log(0.5 + eps) - std::log(q + eps);
    }
    auto maxdiff = [](const MatrixXd& a, const MatrixXd& b) {
        if (a.rows() != b.rows() || a.cols() != b.cols()) return (double)INFINITY;
        double d = 0; for (long i = 0; i < a.rows(); i++) for (long j = 0; j < a.cols(); j++) { double e = std::fabs(a(i, j) - b(i, j)); if (!(e <= d)) d = e; } return d; };
    vf::out_int("mirror_state_bits" + ks, vf::bit_equal(states, out.state()));
    vf::out_num("mirror_state_diff" + ks, maxdiff(states, out.state()));
    vf::out_int("mirror_w_bits" + ks, vf::bit_equal(w, out.weight()));
    vf::out_num("mirror_w_diff" + ks, maxdiff(w, out.weight()));
}

static void run_pf(const vf::Case& c, PFCorrection& corr, Shared& sh, const char* l_correct, const char* l_lik, int gpf_custom = -1) {
    ParticleSet out = make_ps(c, "", "o");
    const long steps = c.mi("steps");
    const bool alias = c.mi("alias") == 1;
    if (c.mi("skip") == 1) corr.skip(true);
    for (long k = 0; k < steps; k++) {
        const std::string ks = std::to_string(k);
        set_step(c, sh, k);
        ParticleSet pred = make_ps(c, ks), pred_copy(pred);
        ParticleSet& o = alias ? pred : out;
        vf::out_int("step_begin" + ks, 1); std::cout << std::flush;
        { vf::Entry e(l_correct); corr.correct(pred, o); }
        emit_ps(ks, pred, pred_copy, o);
        vf::out_int("ident" + ks, vf::bit_equal(o.mean(), pred_copy.mean()) && vf::bit_equal(o.covariance(), pred_copy.covariance())
                                       && vf::bit_equal(o.weight(), pred_copy.weight()) && same_shape(o, pred_copy)
                                       && vf::bit_equal(o.state(), pred_copy.state()));
        out_log("log" + ks, sh.log);
        if (gpf_custom >= 0 && k == 0 && !alias) emit_gpf_mirror(ks, c, pred_copy, o, c.mat("H"), c.mat("R"), sh.y, gpf_custom == 1);
        sh.log.clear();
        vf::out_int("lik_begin" + ks, 1); std::cout << std::flush;
        bool ok; VectorXd lik;
        { vf::Entry e(l_lik); std::tie(ok, lik) = corr.getLikelihood(); }
        emit_lik(ks, ok, lik, sh.log);
    }
}

// ---- SIS: the real filtering thread runs a scripted number of steps over a real BootstrapCorrection
// (GaussianLikelihood over the faulty sensor), a prediction that logs, and the library's Resampling
struct CaseInit : public ParticleSetInitialization {
    ParticleSet p;
    explicit CaseInit(const ParticleSet& q) : p(q) {}
    bool initialize(ParticleSet& particles) override { particles = p; return true; }
};
struct StubPrediction : public PFPrediction {
    StubState sm;
    std::shared_ptr<Shared> sh;
    StubPrediction(long n, std::shared_ptr<Shared> s) : sm(n), sh(s) {}
    StateModel& getStateModel() noexcept override { return sm; }
protected:
    void predictStep(const ParticleSet& prev, ParticleSet& pred) override {
        sh->log.push_back("predict");
        pred = prev;
        pred.state().array() += 0.5;
    }
};
struct LoggingBootstrap : public BootstrapCorrection {
    std::shared_ptr<Shared> sh;
    LoggingBootstrap(std::shared_ptr<Shared> s, std::unique_ptr<MeasurementModel> m, std::unique_ptr<LikelihoodModel> l)
        : BootstrapCorrection(std::move(m), std::move(l)), sh(s) {}
protected:
    void correctStep(const ParticleSet& pred, ParticleSet& cor) override { sh->log.push_back("C"); BootstrapCorrection::correctStep(pred, cor); }
};
struct LoggingResampling : public Resampling {
    std::shared_ptr<Shared> sh;
    explicit LoggingResampling(std::shared_ptr<Shared> s) : Resampling(11), sh(s) {}
    void resample(const ParticleSet& cor, ParticleSet& res, Ref<VectorXi> parents) override { sh->log.push_back("resample"); Resampling::resample(cor, res, parents); }
};
struct StepRecord { ParticleSet pred_at_log, cor_at_log, cor_end; std::vector<std::string> log; bool logged = false; };
struct ScriptedSIS : public SIS {
    const vf::Case* c = nullptr;
    std::shared_ptr<Shared> sh;
    long k = 0, steps = 0;
    std::vector<StepRecord> rec;
    using SIS::SIS;
    ParticleSet& cor() { return cor_particle_; }
protected:
    bool run_condition() override { return k < steps; }
    void filtering_step() override {
        vf::Entry e("SIS::filtering_step");
        set_step(*c, *sh, k);
        rec.emplace_back();
        SIS::filtering_step();
        rec.back().cor_end = cor_particle_;
        rec.back().log = sh->log;
        k++;
    }
    void log() override { rec.back().pred_at_log = pred_particle_; rec.back().cor_at_log = cor_particle_; rec.back().logged = true; SIS::log(); }
};
static bool ps_equal(const ParticleSet& a, const ParticleSet& b) {
    return vf::bit_equal(a.mean(), b.mean()) && vf::bit_equal(a.covariance(), b.covariance()) && vf::bit_equal(a.weight(), b.weight())
        && same_shape(a, b) && vf::bit_equal(a.state(), b.state());
}

static void run_case(const vf::Case& c) {
    const std::string& kind = c.kind;
    const long n = c.mi("n"), m = c.mi("m");
    const MatrixXd& H = c.mat("H"); const MatrixXd& R = c.mat("R");
    auto sh = std::make_shared<Shared>();
    sh->empty_on_fail = c.mi("emptyR") == 1;
    const double alpha = 1.0, beta = 2.0, kappa = 0.0;
    vf::out_begin(c.id);
    std::cout << std::flush;
    if (kind == "kf") {
        KFCorrection corr(std::unique_ptr<LinearMeasurementModel>(new FaultyModel(sh, H, R, false)));
        run_gauss(c, corr, *sh, "KFCorrection::correct", "KFCorrection::getLikelihood");
    } else if (kind == "ukf_gen") {
        UKFCorrection corr(std::unique_ptr<MeasurementModel>(new FaultyModel(sh, H, R, true)), alpha, beta, kappa, c.mi("online") == 1);
        sh->log.clear();
        run_gauss(c, corr, *sh, "UKFCorrection(generic)::correct", "UKFCorrection(generic)::getLikelihood");
    } else if (kind == "ukf_add") {
        UKFCorrection corr(std::unique_ptr<AdditiveMeasurementModel>(new FaultyModel(sh, H, R, false)), alpha, beta, kappa);
        run_gauss(c, corr, *sh, "UKFCorrection(additive)::correct", "UKFCorrection(additive)::getLikelihood");
    } else if (kind == "sukf") {
        const bool reduced = c.mi("reduced") == 1;
        SUKFCorrection corr(std::unique_ptr<AdditiveMeasurementModel>(new FaultyModel(sh, H, R, false, reduced ? c.mi("sub") : 0)), alpha, beta, kappa, c.mi("sub"), reduced);
        run_gauss(c, corr, *sh, "SUKFCorrection::correct", "SUKFCorrection::getLikelihood");
    } else if (kind == "gl") {
        FaultyModel fm(sh, H, R, false);
        GaussianLikelihood gl_obj;
        LikelihoodModel& gl = gl_obj;   // likelihood() is protected in GaussianLikelihood, public in the interface
        const long steps = c.mi("steps");
        for (long k = 0; k < steps; k++) {
            const std::string ks = std::to_string(k);
            set_step(c, *sh, k);
            const MatrixXd& states = c.mat("states" + ks);
            vf::out_int("step_begin" + ks, 1);
            vf::out_int("lik_begin" + ks, 1); std::cout << std::flush;
            bool ok; VectorXd lik;
            { vf::Entry e("GaussianLikelihood::likelihood"); std::tie(ok, lik) = gl.likelihood(fm, states); }
            out_log("log" + ks, sh->log);
            emit_lik(ks, ok, lik, {});
        }
    } else if (kind == "boot_gl" || kind == "boot_custom") {
        std::unique_ptr<LikelihoodModel> lm;
        if (kind == "boot_gl") lm.reset(new GaussianLikelihood()); else lm.reset(new FaultyLik(sh));
        BootstrapCorrection corr(std::unique_ptr<MeasurementModel>(new FaultyModel(sh, H, R, false)), std::move(lm));
        run_pf(c, corr, *sh, "BootstrapCorrection::correct", "BootstrapCorrection::getLikelihood");
    } else if (kind.rfind("gpf_", 0) == 0) {
        const bool custom = kind.find("_custom") != std::string::npos;
        std::unique_ptr<LikelihoodModel> lm;
        if (custom) lm.reset(new FaultyLik(sh)); else lm.reset(new GaussianLikelihood());
        std::unique_ptr<GaussianCorrection> gc;
        if (kind.find("_kf_") != std::string::npos)
            gc.reset(new KFCorrection(std::unique_ptr<LinearMeasurementModel>(new FaultyModel(sh, H, R, false))));
        else if (kind.find("_ukfgen_") != std::string::npos)
            gc.reset(new UKFCorrection(std::unique_ptr<MeasurementModel>(new FaultyModel(sh, H, R, true)), alpha, beta, kappa));
        else if (kind.find("_ukfadd_") != std::string::npos)
            gc.reset(new UKFCorrection(std::unique_ptr<AdditiveMeasurementModel>(new FaultyModel(sh, H, R, false)), alpha, beta, kappa));
        else
            gc.reset(new SUKFCorrection(std::unique_ptr<AdditiveMeasurementModel>(new FaultyModel(sh, H, R, false)), alpha, beta, kappa, c.mi("sub"), false));
        if (c.mi("iskip") == 1) gc->skip(true);
        std::unique_ptr<LikelihoodModel> plm(new PhaseLik(sh, std::move(lm)));
        GPFCorrection corr(std::move(plm), std::move(gc), std::unique_ptr<StateModel>(new StubState(n)), 7);
        sh->log.clear();
        run_pf(c, corr, *sh, "GPFCorrection::correct", "GPFCorrection::getLikelihood", custom ? 1 : 0);
    } else if (kind == "sis") {
        ParticleSet pred0 = make_ps(c, "0");
        ParticleSet cor0 = make_ps(c, "", "o");
        const long N = pred0.components;
        ScriptedSIS sis(N, n, std::unique_ptr<ParticleSetInitialization>(new CaseInit(pred0)),
                        std::unique_ptr<PFPrediction>(new StubPrediction(n, sh)),
                        std::unique_ptr<PFCorrection>(new LoggingBootstrap(sh, std::unique_ptr<MeasurementModel>(new FaultyModel(sh, H, R, false)),
                                                                           std::unique_ptr<LikelihoodModel>(new GaussianLikelihood()))),
                        std::unique_ptr<Resampling>(new LoggingResampling(sh)));
        sis.c = &c; sis.sh = sh; sis.steps = c.mi("steps");
        sis.cor() = cor0;
        vf::out_int("step_begin0", 1); std::cout << std::flush;
        { vf::Entry e("SIS::boot/run/wait"); sis.boot(); sis.run(); sis.wait(); }
        vf::out_int("steps_run", (long)sis.rec.size());
        for (long k = 0; k < (long)sis.rec.size(); k++) {
            const std::string ks = std::to_string(k);
            const StepRecord& r = sis.rec[k];
            out_log("events" + ks, r.log);
            vf::out_int("logged" + ks, r.logged);
            vf::out_int("ident_atlog" + ks, r.logged && ps_equal(r.cor_at_log, r.pred_at_log));
            vf::out_int("ident_atlog_w" + ks, r.logged && vf::bit_equal(r.cor_at_log.weight(), r.pred_at_log.weight()));
            vf::out_int("ident_atlog_state" + ks, r.logged && vf::bit_equal(r.cor_at_log.state(), r.pred_at_log.state()));
            vf::out_int("cor_is_atlog" + ks, r.logged && ps_equal(r.cor_end, r.cor_at_log));
            long nc = 0, nr = 0; for (auto& t : r.log) { if (t == "C") nc++; if (t == "resample") nr++; }
            vf::out_int("correct_calls" + ks, nc);
            vf::out_int("resampled" + ks, nr);
            if (r.logged) { vf::out_mat("atlog_w" + ks, r.cor_at_log.weight()); vf::out_mat("pred_w" + ks, r.pred_at_log.weight()); }
        }
    } else {
        std::fprintf(stderr, "BFL_VERIF_HARNESS unknown kind %s\n", kind.c_str());
        std::exit(3);
    }
    vf::out_end();
}

static std::string sanitize(std::string s) {
    for (auto& ch : s) if (ch == ' ' || ch == '\t' || ch == '\n') ch = '_';
    return s.empty() ? "-" : s;
}

// runs the case in a child; returns after printing a complete record
static void run_forked(const vf::Case& c) {
    std::cout << std::flush; std::fflush(stdout);
    int po[2];
    if (pipe(po) != 0) { std::perror("pipe"); std::exit(3); }
    char errname[] = "/tmp/C12_harness_err_XXXXXX";
    int efd = mkstemp(errname);
    pid_t pid = fork();
    if (pid == 0) {
        close(po[0]);
        dup2(po[1], 1); close(po[1]);
        if (efd >= 0) { dup2(efd, 2); close(efd); }
        run_case(c);
        std::cout << std::flush; std::fflush(stdout);
        _exit(0);
    }
    close(po[1]);
    std::string text; char buf[65536]; ssize_t r;
    while ((r = read(po[0], buf, sizeof buf)) > 0) text.append(buf, r);
    close(po[0]);
    int status = 0; waitpid(pid, &status, 0);
    std::string err;
    if (efd >= 0) {
        lseek(efd, 0, SEEK_SET);
        while ((r = read(efd, buf, sizeof buf)) > 0) err.append(buf, r);
        close(efd); unlink(errname);
    }
    const bool complete = text.size() >= 4 && text.compare(text.size() - 4, 4, "end\n") == 0;
    if (complete && WIFEXITED(status) && WEXITSTATUS(status) == 0) { std::cout << text << std::flush; return; }
    // abnormal end: close the partial record
    if (complete) text.erase(text.size() - 4);
    if (text.empty()) text = "out " + c.id + "\n";
    if (text.back() != '\n') { auto p = text.rfind('\n'); text.erase(p == std::string::npos ? 0 : p + 1); }
    std::cout << text;
    vf::out_int("crashed", 1);
    vf::out_int("crash_rc", WIFEXITED(status) ? WEXITSTATUS(status) : -WTERMSIG(status));
    std::string kind = "crash", entry = "-", cond = "-", where = "-";
    auto p = err.find("BFL_VERIF_EIGEN_ASSERT");
    if (p != std::string::npos) {
        kind = "eigen-assert";
        auto line = err.substr(p, err.find('\n', p) - p);
        auto e0 = line.find("entry="); auto c0 = line.find(" cond=["); auto a0 = line.find("] at "); auto i0 = line.find(" in ", a0 == std::string::npos ? 0 : a0);
        if (e0 != std::string::npos && c0 != std::string::npos) entry = line.substr(e0 + 6, c0 - e0 - 6);
        if (c0 != std::string::npos && a0 != std::string::npos) cond = line.substr(c0 + 7, a0 - c0 - 7);
        if (a0 != std::string::npos) where = line.substr(a0 + 5, (i0 == std::string::npos ? line.size() : i0) - a0 - 5);
    } else if (err.find("AddressSanitizer") != std::string::npos) kind = "asan";
    else if (err.find("runtime error") != std::string::npos) kind = "ubsan";
    else if (err.find("terminate called") != std::string::npos) kind = "uncaught-exception";
    vf::out_str("crash_kind", kind);
    vf::out_str("crash_entry", sanitize(entry));
    vf::out_str("crash_cond", sanitize(cond));
    vf::out_str("crash_where", sanitize(where));
    if (kind != "eigen-assert") std::fprintf(stderr, "BFL_VERIF_CHILD case %s: %s\n", c.id.c_str(), err.substr(0, 1500).c_str());
    vf::out_end();
}

int main() {
    vf::Case c;
    while (vf::read_case(std::cin, c)) {
        if (c.mi("risky") == 1) run_forked(c); else run_case(c);
    }
    return 0;
}
