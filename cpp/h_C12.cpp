// h_C12.cpp — harness for C12: every correction class of the library driven
// through a sequence of steps, each with its own fault pattern, over
// fault-injecting measurement / likelihood models that log the calls made.
//
// Case: kind = kf | ukf_gen | ukf_add | sukf | gl | boot_gl | boot_custom |
//              gpf_<inner>_<lik> (inner kf|ukfgen|ukfadd, lik gl|custom) | sis
//   meta  n m comps steps sub risky
//   word  pat  <6 bits per step: measure predictedMeasure innovation noisecov freeze likelihood;
//               gpf_*: optionally 12 bits, the second six apply while the likelihood model is evaluated>
//   mat   H R ; per step k: y<k> means<k> covs<k> weights<k> [states<k>]
//   mat   omeans ocovs oweights [ostates]   previous content of the output object
// Output per step k: ident<k> (whole object bit-identical to the predicted one)
// and its parts, the raw matrices, log<k> (calls made by correct), lik_valid<k>,
// lik<k>, liklog<k> (calls made by getLikelihood), pred_unchanged<k>.
// Cases marked risky=1 run in a forked child so that a redirected Eigen
// assertion / sanitizer abort ends the case, not the run; the parent then
// closes the record with crashed / crash_* fields.
#define VF_MAIN
#include "common.hpp"
#include <BayesFilters/BootstrapCorrection.h>
#include <BayesFilters/GPFCorrection.h>
#include <BayesFilters/GaussianLikelihood.h>
#include <BayesFilters/GaussianMixture.h>
#include <BayesFilters/KFCorrection.h>
#include <BayesFilters/LinearMeasurementModel.h>
#include <BayesFilters/ParticleSet.h>
#include <BayesFilters/Resampling.h>
#include <BayesFilters/SIS.h>
#include <BayesFilters/SUKFCorrection.h>
#include <BayesFilters/StateModel.h>
#include <BayesFilters/UKFCorrection.h>
#include <cstring>
#include <fcntl.h>
#include <memory>
#include <sys/wait.h>
#include <unistd.h>

using namespace bfl;
using namespace Eigen;

enum { S_M = 0, S_P, S_I, S_N, S_F, S_L };

struct Shared {
    std::string bits = "000000";    // pattern of the step
    std::string bits2 = "000000";   // pattern while a PhaseLik-wrapped likelihood model is being evaluated (GPF's second phase)
    int phase = 0;
    MatrixXd y;
    std::vector<std::string> log;
    bool fails(int s) const { const std::string& b = phase ? bits2 : bits; return s < (int)b.size() && b[s] == '1'; }
};

// fault-injecting linear sensor; usable as Linear-, Additive- and plain MeasurementModel
class FaultyModel : public LinearMeasurementModel {
public:
    FaultyModel(std::shared_ptr<Shared> sh, const MatrixXd& H, const MatrixXd& R, bool noise_in_input)
        : sh_(sh), H_(H), R_(R), noise_in_input_(noise_in_input) {}
    bool freeze(const Data&) override { sh_->log.push_back("F"); return !sh_->fails(S_F); }
    std::pair<bool, Data> measure(const Data&) const override {
        sh_->log.push_back("M");
        if (sh_->fails(S_M)) return std::make_pair(false, Data());
        return std::make_pair(true, Data(sh_->y));
    }
    std::pair<bool, Data> predictedMeasure(const Ref<const MatrixXd>& x) const override {
        sh_->log.push_back("P");
        if (sh_->fails(S_P)) return std::make_pair(false, Data());
        MatrixXd pr;
        if (x.rows() == H_.cols() + H_.rows()) pr = H_ * x.topRows(H_.cols()) + x.bottomRows(H_.rows());   // state + noise rows
        else pr = H_ * x;
        return std::make_pair(true, Data(std::move(pr)));
    }
    std::pair<bool, Data> innovation(const Data& pred, const Data& meas) const override {
        sh_->log.push_back("I");
        if (sh_->fails(S_I)) return std::make_pair(false, Data());
        MatrixXd inn = -(any::any_cast<MatrixXd>(pred).colwise() - any::any_cast<MatrixXd>(meas).col(0));
        return std::make_pair(true, Data(std::move(inn)));
    }
    std::pair<bool, MatrixXd> getNoiseCovarianceMatrix() const override {
        sh_->log.push_back("N");
        return std::make_pair(!sh_->fails(S_N), R_);
    }
    MatrixXd getMeasurementMatrix() const override { return H_; }
    VectorDescription getInputDescription() const override { return VectorDescription(H_.cols(), 0, noise_in_input_ ? H_.rows() : 0); }
    VectorDescription getMeasurementDescription() const override { return VectorDescription(H_.rows()); }
private:
    std::shared_ptr<Shared> sh_;
    MatrixXd H_, R_;
    bool noise_in_input_;
};

// user-supplied likelihood model with its own validity flag; does not consult the measurement model
class FaultyLik : public LikelihoodModel {
public:
    explicit FaultyLik(std::shared_ptr<Shared> sh) : sh_(sh) {}
    std::pair<bool, VectorXd> likelihood(const MeasurementModel&, const Ref<const MatrixXd>& states) override {
        sh_->log.push_back("L");
        if (sh_->fails(S_L)) return std::make_pair(false, VectorXd::Zero(1));
        VectorXd v(states.cols());
        for (long i = 0; i < states.cols(); i++) v(i) = 0.25 + 1.0 / (1.0 + states.col(i).squaredNorm() + sh_->y.squaredNorm());
        return std::make_pair(true, v);
    }
private:
    std::shared_ptr<Shared> sh_;
};

// marks the calls made on behalf of the likelihood evaluation
class PhaseLik : public LikelihoodModel {
public:
    PhaseLik(std::shared_ptr<Shared> sh, std::unique_ptr<LikelihoodModel> inner) : sh_(sh), inner_(std::move(inner)) {}
    std::pair<bool, VectorXd> likelihood(const MeasurementModel& mm, const Ref<const MatrixXd>& states) override {
        sh_->phase = 1;
        auto r = inner_->likelihood(mm, states);
        sh_->phase = 0;
        return r;
    }
private:
    std::shared_ptr<Shared> sh_;
    std::unique_ptr<LikelihoodModel> inner_;
};

class StubState : public StateModel {
public:
    explicit StubState(long n) : n_(n) {}
    void propagate(const Ref<const MatrixXd>& cur, Ref<MatrixXd> prop) override { prop = cur; }
    void motion(const Ref<const MatrixXd>& cur, Ref<MatrixXd> mot) override { mot = cur; }
    bool setProperty(const std::string&) override { return false; }
    VectorDescription getInputDescription() override { return VectorDescription(n_); }
    VectorDescription getStateDescription() override { return VectorDescription(n_); }
    VectorXd getTransitionProbability(const Ref<const MatrixXd>&, const Ref<const MatrixXd>& cur) override { return VectorXd::Constant(cur.cols(), 0.5); }
private:
    long n_;
};

static void fill(GaussianMixture& g, const MatrixXd& means, const MatrixXd& covs, const MatrixXd& w) {
    g.mean() = means; g.covariance() = covs; g.weight() = w.col(0);
}
static GaussianMixture make_gm(const vf::Case& c, const std::string& sfx, const std::string& pfx = "") {
    const MatrixXd& means = c.mat(pfx + "means" + sfx);
    GaussianMixture g(means.cols(), means.rows());
    fill(g, means, c.mat(pfx + "covs" + sfx), c.mat(pfx + "weights" + sfx));
    return g;
}
static ParticleSet make_ps(const vf::Case& c, const std::string& sfx, const std::string& pfx = "") {
    const MatrixXd& means = c.mat(pfx + "means" + sfx);
    ParticleSet p(means.cols(), means.rows());
    fill(p, means, c.mat(pfx + "covs" + sfx), c.mat(pfx + "weights" + sfx));
    p.state() = c.mat(pfx + "states" + sfx);
    return p;
}
static bool same_shape(const GaussianMixture& a, const GaussianMixture& b) {
    return a.components == b.components && a.use_quaternion == b.use_quaternion && a.dim_circular_component == b.dim_circular_component
        && a.dim == b.dim && a.dim_linear == b.dim_linear && a.dim_circular == b.dim_circular && a.dim_noise == b.dim_noise
        && a.dim_covariance == b.dim_covariance;
}
static void out_log(const std::string& name, const std::vector<std::string>& l) {
    if (l.empty()) vf::out_word(name, {"-"}); else vf::out_word(name, l);
}
static void emit_gm(const std::string& k, const GaussianMixture& pred, const GaussianMixture& pred_copy, const GaussianMixture& out) {
    bool im = vf::bit_equal(out.mean(), pred.mean()), ic = vf::bit_equal(out.covariance(), pred.covariance()),
         iw = vf::bit_equal(out.weight(), pred.weight()), is = same_shape(out, pred);
    vf::out_int("ident_mean" + k, im); vf::out_int("ident_cov" + k, ic); vf::out_int("ident_w" + k, iw); vf::out_int("ident_shape" + k, is);
    vf::out_int("ident_g" + k, im && ic && iw && is);
    vf::out_int("components" + k, out.components);
    vf::out_mat("mean" + k, out.mean()); vf::out_mat("cov" + k, out.covariance()); vf::out_mat("w" + k, out.weight());
    vf::out_int("pred_unchanged" + k, vf::bit_equal(pred.mean(), pred_copy.mean()) && vf::bit_equal(pred.covariance(), pred_copy.covariance())
                                          && vf::bit_equal(pred.weight(), pred_copy.weight()) && same_shape(pred, pred_copy));
}
static void emit_ps(const std::string& k, const ParticleSet& pred, const ParticleSet& pred_copy, const ParticleSet& out) {
    emit_gm(k, pred, pred_copy, out);
    bool ist = vf::bit_equal(out.state(), pred.state());
    vf::out_int("ident_state" + k, ist);
    vf::out_mat("state" + k, out.state());
    vf::out_int("pred_state_unchanged" + k, vf::bit_equal(pred.state(), pred_copy.state()));
}
static void emit_lik(const std::string& k, bool ok, const VectorXd& lik, const std::vector<std::string>& log) {
    vf::out_int("lik_valid" + k, ok ? 1 : 0);
    vf::out_mat("lik" + k, lik);
    out_log("liklog" + k, log);
    std::cout << std::flush;
}

static void set_step(const vf::Case& c, Shared& sh, long k) {
    const std::string& tok = c.word("pat")[k];
    sh.bits = tok.substr(0, 6);
    sh.bits2 = tok.size() >= 12 ? tok.substr(6, 6) : sh.bits;
    sh.phase = 0;
    sh.y = c.mat("y" + std::to_string(k));
    sh.log.clear();
}

// a GaussianCorrection driven through the steps; the output object is reused
static void run_gauss(const vf::Case& c, GaussianCorrection& corr, Shared& sh, const char* l_correct, const char* l_lik) {
    GaussianMixture out = make_gm(c, "", "o");
    const long steps = c.mi("steps");
    for (long k = 0; k < steps; k++) {
        const std::string ks = std::to_string(k);
        set_step(c, sh, k);
        GaussianMixture pred = make_gm(c, ks), pred_copy(pred);
        vf::out_int("step_begin" + ks, 1); std::cout << std::flush;
        { vf::Entry e(l_correct); corr.correct(pred, out); }
        emit_gm(ks, pred, pred_copy, out);
        vf::out_int("ident" + ks, vf::bit_equal(out.mean(), pred.mean()) && vf::bit_equal(out.covariance(), pred.covariance())
                                       && vf::bit_equal(out.weight(), pred.weight()) && same_shape(out, pred));
        out_log("log" + ks, sh.log);
        sh.log.clear();
        vf::out_int("lik_begin" + ks, 1); std::cout << std::flush;
        bool ok; VectorXd lik;
        { vf::Entry e(l_lik); std::tie(ok, lik) = corr.getLikelihood(); }
        emit_lik(ks, ok, lik, sh.log);
    }
}

static void run_pf(const vf::Case& c, PFCorrection& corr, Shared& sh, const char* l_correct, const char* l_lik) {
    ParticleSet out = make_ps(c, "", "o");
    const long steps = c.mi("steps");
    for (long k = 0; k < steps; k++) {
        const std::string ks = std::to_string(k);
        set_step(c, sh, k);
        ParticleSet pred = make_ps(c, ks), pred_copy(pred);
        vf::out_int("step_begin" + ks, 1); std::cout << std::flush;
        { vf::Entry e(l_correct); corr.correct(pred, out); }
        emit_ps(ks, pred, pred_copy, out);
        vf::out_int("ident" + ks, vf::bit_equal(out.mean(), pred.mean()) && vf::bit_equal(out.covariance(), pred.covariance())
                                       && vf::bit_equal(out.weight(), pred.weight()) && same_shape(out, pred)
                                       && vf::bit_equal(out.state(), pred.state()));
        out_log("log" + ks, sh.log);
        sh.log.clear();
        vf::out_int("lik_begin" + ks, 1); std::cout << std::flush;
        bool ok; VectorXd lik;
        { vf::Entry e(l_lik); std::tie(ok, lik) = corr.getLikelihood(); }
        emit_lik(ks, ok, lik, sh.log);
    }
}

// SIS: initialization_step and filtering_step called directly (step_number() = 0: no prediction)
struct CaseInit : public ParticleSetInitialization {
    ParticleSet p;
    explicit CaseInit(const ParticleSet& q) : p(q) {}
    bool initialize(ParticleSet& particles) override { particles = p; return true; }
};
struct StubPrediction : public PFPrediction {
    StubState sm;
    std::shared_ptr<Shared> sh;
    StubPrediction(long n, std::shared_ptr<Shared> s) : sm(n), sh(s) {}
    StateModel& getStateModel() noexcept override { return sm; }
protected:
    void predictStep(const ParticleSet& prev, ParticleSet& pred) override { sh->log.push_back("predict"); pred = prev; }
};
struct LoggingCorrection : public PFCorrection {
    std::shared_ptr<Shared> sh;
    std::unique_ptr<FaultyModel> mm;
    FaultyLik lm;
    LoggingCorrection(std::shared_ptr<Shared> s, std::unique_ptr<FaultyModel> m) : sh(s), mm(std::move(m)), lm(s) {}
    MeasurementModel& getMeasurementModel() noexcept override { return *mm; }
    LikelihoodModel& getLikelihoodModel() noexcept override { return lm; }
    std::pair<bool, VectorXd> getLikelihood() override { return std::make_pair(false, VectorXd()); }
protected:
    void correctStep(const ParticleSet& pred, ParticleSet& cor) override {
        sh->log.push_back("C");
        cor = pred;
        for (long i = 0; i < (long)cor.components; i++) cor.weight(i) += 0.125 * (i + 1);
    }
};
struct NeverResample : public Resampling {
    std::shared_ptr<Shared> sh;
    explicit NeverResample(std::shared_ptr<Shared> s) : sh(s) {}
    double neff(const Ref<const VectorXd>& w) override { return static_cast<double>(w.size()); }
    void resample(const ParticleSet&, ParticleSet&, Ref<VectorXi>) override { sh->log.push_back("resample"); }
};
struct OpenSIS : public SIS {
    using SIS::SIS;
    bool init() { return initialization_step(); }
    void step() { filtering_step(); }
    ParticleSet& pred() { return pred_particle_; }
    ParticleSet& cor() { return cor_particle_; }
};

static void run_case(const vf::Case& c) {
    const std::string& kind = c.kind;
    const long n = c.mi("n"), m = c.mi("m");
    const MatrixXd& H = c.mat("H"); const MatrixXd& R = c.mat("R");
    auto sh = std::make_shared<Shared>();
    const double alpha = 1.0, beta = 2.0, kappa = 0.0;
    vf::out_begin(c.id);
    std::cout << std::flush;
    if (kind == "kf") {
        KFCorrection corr(std::unique_ptr<LinearMeasurementModel>(new FaultyModel(sh, H, R, false)));
        run_gauss(c, corr, *sh, "KFCorrection::correct", "KFCorrection::getLikelihood");
    } else if (kind == "ukf_gen") {
        UKFCorrection corr(std::unique_ptr<MeasurementModel>(new FaultyModel(sh, H, R, true)), alpha, beta, kappa);
        run_gauss(c, corr, *sh, "UKFCorrection(generic)::correct", "UKFCorrection(generic)::getLikelihood");
    } else if (kind == "ukf_add") {
        UKFCorrection corr(std::unique_ptr<AdditiveMeasurementModel>(new FaultyModel(sh, H, R, false)), alpha, beta, kappa);
        run_gauss(c, corr, *sh, "UKFCorrection(additive)::correct", "UKFCorrection(additive)::getLikelihood");
    } else if (kind == "sukf") {
        SUKFCorrection corr(std::unique_ptr<AdditiveMeasurementModel>(new FaultyModel(sh, H, R, false)), alpha, beta, kappa, c.mi("sub"), false);
        run_gauss(c, corr, *sh, "SUKFCorrection::correct", "SUKFCorrection::getLikelihood");
    } else if (kind == "gl") {
        FaultyModel fm(sh, H, R, false);
        GaussianLikelihood gl_obj;
        LikelihoodModel& gl = gl_obj;   // likelihood() is protected in GaussianLikelihood, public in the interface
        const long steps = c.mi("steps");
        for (long k = 0; k < steps; k++) {
            const std::string ks = std::to_string(k);
            set_step(c, *sh, k);
            const MatrixXd& states = c.mat("states" + ks);
            vf::out_int("step_begin" + ks, 1);
            vf::out_int("lik_begin" + ks, 1); std::cout << std::flush;
            bool ok; VectorXd lik;
            { vf::Entry e("GaussianLikelihood::likelihood"); std::tie(ok, lik) = gl.likelihood(fm, states); }
            out_log("log" + ks, sh->log);
            emit_lik(ks, ok, lik, {});
        }
    } else if (kind == "boot_gl" || kind == "boot_custom") {
        std::unique_ptr<LikelihoodModel> lm;
        if (kind == "boot_gl") lm.reset(new GaussianLikelihood()); else lm.reset(new FaultyLik(sh));
        BootstrapCorrection corr(std::unique_ptr<MeasurementModel>(new FaultyModel(sh, H, R, false)), std::move(lm));
        run_pf(c, corr, *sh, "BootstrapCorrection::correct", "BootstrapCorrection::getLikelihood");
    } else if (kind.rfind("gpf_", 0) == 0) {
        const bool custom = kind.find("_custom") != std::string::npos;
        std::unique_ptr<LikelihoodModel> lm;
        if (custom) lm.reset(new FaultyLik(sh)); else lm.reset(new GaussianLikelihood());
        std::unique_ptr<GaussianCorrection> gc;
        if (kind.find("_kf_") != std::string::npos)
            gc.reset(new KFCorrection(std::unique_ptr<LinearMeasurementModel>(new FaultyModel(sh, H, R, false))));
        else if (kind.find("_ukfgen_") != std::string::npos)
            gc.reset(new UKFCorrection(std::unique_ptr<MeasurementModel>(new FaultyModel(sh, H, R, true)), alpha, beta, kappa));
        else
            gc.reset(new UKFCorrection(std::unique_ptr<AdditiveMeasurementModel>(new FaultyModel(sh, H, R, false)), alpha, beta, kappa));
        std::unique_ptr<LikelihoodModel> plm(new PhaseLik(sh, std::move(lm)));
        GPFCorrection corr(std::move(plm), std::move(gc), std::unique_ptr<StateModel>(new StubState(n)), 7);
        run_pf(c, corr, *sh, "GPFCorrection::correct", "GPFCorrection::getLikelihood");
    } else if (kind == "sis") {
        set_step(c, *sh, 0);
        ParticleSet pred0 = make_ps(c, "0");
        ParticleSet cor0 = make_ps(c, "", "o");
        const long N = pred0.components;
        OpenSIS sis(N, n, std::unique_ptr<ParticleSetInitialization>(new CaseInit(pred0)),
                    std::unique_ptr<PFPrediction>(new StubPrediction(n, sh)),
                    std::unique_ptr<PFCorrection>(new LoggingCorrection(sh, std::unique_ptr<FaultyModel>(new FaultyModel(sh, H, R, false)))),
                    std::unique_ptr<Resampling>(new NeverResample(sh)));
        { vf::Entry e("SIS::initialization_step"); sis.init(); }
        sis.cor() = cor0;
        ParticleSet pred_copy(sis.pred());
        sh->log.clear();
        vf::out_int("step_begin0", 1); std::cout << std::flush;
        { vf::Entry e("SIS::filtering_step"); sis.step(); }
        emit_ps("0", sis.pred(), pred_copy, sis.cor());
        vf::out_int("ident0", vf::bit_equal(sis.cor().mean(), sis.pred().mean()) && vf::bit_equal(sis.cor().covariance(), sis.pred().covariance())
                                  && vf::bit_equal(sis.cor().weight(), sis.pred().weight()) && same_shape(sis.cor(), sis.pred())
                                  && vf::bit_equal(sis.cor().state(), sis.pred().state()));
        out_log("log0", sh->log);
        long ncorrect = 0; for (auto& s : sh->log) if (s == "C") ncorrect++;
        vf::out_int("correct_calls", ncorrect);
    } else {
        std::fprintf(stderr, "BFL_VERIF_HARNESS unknown kind %s\n", kind.c_str());
        std::exit(3);
    }
    vf::out_end();
}

static std::string sanitize(std::string s) {
    for (auto& ch : s) if (ch == ' ' || ch == '\t' || ch == '\n') ch = '_';
    return s.empty() ? "-" : s;
}

// runs the case in a child; returns after printing a complete record
static void run_forked(const vf::Case& c) {
    std::cout << std::flush; std::fflush(stdout);
    int po[2];
    if (pipe(po) != 0) { std::perror("pipe"); std::exit(3); }
    char errname[] = "/tmp/C12_harness_err_XXXXXX";
    int efd = mkstemp(errname);
    pid_t pid = fork();
    if (pid == 0) {
        close(po[0]);
        dup2(po[1], 1); close(po[1]);
        if (efd >= 0) { dup2(efd, 2); close(efd); }
        run_case(c);
        std::cout << std::flush; std::fflush(stdout);
        _exit(0);
    }
    close(po[1]);
    std::string text; char buf[65536]; ssize_t r;
    while ((r = read(po[0], buf, sizeof buf)) > 0) text.append(buf, r);
    close(po[0]);
    int status = 0; waitpid(pid, &status, 0);
    std::string err;
    if (efd >= 0) {
        lseek(efd, 0, SEEK_SET);
        while ((r = read(efd, buf, sizeof buf)) > 0) err.append(buf, r);
        close(efd); unlink(errname);
    }
    const bool complete = text.size() >= 4 && text.compare(text.size() - 4, 4, "end\n") == 0;
    if (complete && WIFEXITED(status) && WEXITSTATUS(status) == 0) { std::cout << text << std::flush; return; }
    // abnormal end: close the partial record
    if (complete) text.erase(text.size() - 4);
    if (text.empty()) text = "out " + c.id + "\n";
    if (text.back() != '\n') { auto p = text.rfind('\n'); text.erase(p == std::string::npos ? 0 : p + 1); }
    std::cout << text;
    vf::out_int("crashed", 1);
    vf::out_int("crash_rc", WIFEXITED(status) ? WEXITSTATUS(status) : -WTERMSIG(status));
    std::string kind = "crash", entry = "-", cond = "-", where = "-";
    auto p = err.find("BFL_VERIF_EIGEN_ASSERT");
    if (p != std::string::npos) {
        kind = "eigen-assert";
        auto line = err.substr(p, err.find('\n', p) - p);
        auto e0 = line.find("entry="); auto c0 = line.find(" cond=["); auto a0 = line.find("] at "); auto i0 = line.find(" in ", a0 == std::string::npos ? 0 : a0);
        if (e0 != std::string::npos && c0 != std::string::npos) entry = line.substr(e0 + 6, c0 - e0 - 6);
        if (c0 != std::string::npos && a0 != std::string::npos) cond = line.substr(c0 + 7, a0 - c0 - 7);
        if (a0 != std::string::npos) where = line.substr(a0 + 5, (i0 == std::string::npos ? line.size() : i0) - a0 - 5);
    } else if (err.find("AddressSanitizer") != std::string::npos) kind = "asan";
    else if (err.find("runtime error") != std::string::npos) kind = "ubsan";
    else if (err.find("terminate called") != std::string::npos) kind = "uncaught-exception";
    vf::out_str("crash_kind", kind);
    vf::out_str("crash_entry", sanitize(entry));
    vf::out_str("crash_cond", sanitize(cond));
    vf::out_str("crash_where", sanitize(where));
    if (kind != "eigen-assert") std::fprintf(stderr, "BFL_VERIF_CHILD case %s: %s\n", c.id.c_str(), err.substr(0, 1500).c_str());
    vf::out_end();
}

int main() {
    vf::Case c;
    while (vf::read_case(std::cin, c)) {
        if (c.mi("risky") == 1) run_forked(c); else run_case(c);
    }
    return 0;
}
