// h_C12.cpp — harness for C12: every correction class of the library driven
// through a history of steps on ONE object, each step with its own fault pattern,
// payloads, sizes, layout and skip commands, over fault-injecting measurement /
// likelihood models that log the calls made.
//
// Case: kind = kf | ukf_gen | ukf_add | sukf | gl | boot_gl | boot_custom |
//              gpf_<inner>_<lik> (inner kf|ukfgen|ukfadd|sukf, lik gl|custom) | sis
//   meta  n m comps steps sub risky skip iskip emptyR alias online reduced
//         (skip_ set once on the driven correction / on the correction wrapped by GPF; legacy: a failing
//          noise-covariance call returns an empty matrix; correct(p, p); UKF update_weights_online; SUKF reduced R)
//         life   fresh | mc | mcu | vec | ma | mau   how the subject is obtained: as constructed; move-constructed from a
//                fresh object / from one that has run step 0; element 0 of a std::vector that has grown; move-assigned
//                (classes that have the operator) from a fresh / used object onto an object with its own, other models and
//                the opposite skip flag.  Skip flags are set on the SOURCE only: the new object must carry them
//         intr   1: inside every callback of the subject's models an independent twin object of the same class runs a
//                complete step (its own models, other data of the same shapes, pattern tpat<k>) and getLikelihood
//         conc   1 (kind gl): the steps are also evaluated from one thread each at the same time
//         mcirc  circular components at the end of the measurement description
//   words, one token per step:
//     pat   6 bits measure predictedMeasure innovation noisecov freeze likelihood;
//           gpf_*: optionally 12 bits, the second six apply while the likelihood model is evaluated
//     pay   5 letters: what the failing call M P I N L hands back NEXT TO its false flag
//           M P I (bfl::Data): e empty Data, s a matrix of another shape, t a stale matrix (the last value the call
//                 delivered, right shape), x a std::string;   N (MatrixXd): R the covariance itself, e empty,
//                 s another shape, t another SPD matrix of the right shape;   L (VectorXd): z Zero(1), e empty,
//                 s another length, t the right length
//     skc / isk  skip command issued before the step on the driven / wrapped correction: - none, 1 skip(true), 0 skip(false)
//     lay   <linear>.<circular>.<0|1 quaternion> layout of the step's predicted belief;  flay: of a new output object
//     tpat  the twin's pattern (intr=1)
//     scmd  (sis) c1 / c0: ParticleFilter::skip("correction", on/off) before the step; r: reset() during the step
//   mat   H R (or per step H<k> R<k>); per step k: y<k> means<k> covs<k> weights<k> [states<k>]
//   mat   omeans ocovs oweights [ostates] (layout meta olay)  previous content of the output object;
//         fmeans<k> ... : a NEW output object handed to step k
// Output per step k: ident<k> (whole object bit-identical to the predicted one)
// and its parts, the raw matrices, log<k> (calls made by correct), lik_valid<k>,
// lik<k>, liklog<k> (calls made by getLikelihood), pred_unchanged<k>; threw_correct<k> / threw_lik<k> with the
// exception text when correct() / getLikelihood() let an exception escape (the record then ends: aborted_at).
// Cases marked risky=1 run in a forked child so that a redirected Eigen
// assertion / sanitizer abort ends the case, not the run; the parent then
// closes the record with crashed / crash_* fields.
#define VF_MAIN
#include "common.hpp"
#include <BayesFilters/BootstrapCorrection.h>
#include <BayesFilters/GPFCorrection.h>
#include <BayesFilters/GaussianLikelihood.h>
#include <BayesFilters/GaussianMixture.h>
#include <BayesFilters/KFCorrection.h>
#include <BayesFilters/LinearMeasurementModel.h>
#include <BayesFilters/ParticleSet.h>
#include <BayesFilters/Resampling.h>
#include <BayesFilters/SIS.h>
#include <BayesFilters/SUKFCorrection.h>
#include <BayesFilters/StateModel.h>
#include <BayesFilters/UKFCorrection.h>
#include <BayesFilters/utils.h>
#include <Eigen/Cholesky>
#include <random>
#include <cstring>
#include <fcntl.h>
#include <memory>
#include <type_traits>
#include <sys/wait.h>
#include <unistd.h>

using namespace bfl;
using namespace Eigen;

enum { S_M = 0, S_P, S_I, S_N, S_F, S_L };

struct Layout {
    long lin = 0, circ = 0; bool quat = false;
    long dim() const { return lin + (quat ? 4 : 1) * circ; }
    long dim_cov() const { return lin + (quat ? 3 : 1) * circ; }
};
static Layout parse_layout(const std::string& tok, long n_default) {
    Layout l; l.lin = n_default;
    if (tok.empty() || tok == "-") return l;
    long a = 0, b = 0, q = 0;
    if (std::sscanf(tok.c_str(), "%ld.%ld.%ld", &a, &b, &q) == 3) { l.lin = a; l.circ = b; l.quat = q != 0; }
    return l;
}

struct Shared {
    std::string bits = "000000";    // pattern of the step
    std::string bits2 = "000000";   // pattern while a PhaseLik-wrapped likelihood model is being evaluated (GPF's second phase)
    std::string pay = "eeeRz";      // payload classes of the step's failing calls
    int phase = 0;
    bool intrudes = false;          // the subject's models give the intruder a chance in every callback
    MatrixXd y, H, R;               // the sensor of this step
    Layout in;                      // layout of the belief handed to the correction (input description)
    long mcirc = 0;
    MatrixXd last[3];               // last values delivered by measure / predictedMeasure / innovation
    std::vector<std::string> log;
    bool fails(int s) const { const std::string& b = phase ? bits2 : bits; return s < (int)b.size() && b[s] == '1'; }
    char cls(int s) const { int i = s == S_L ? 4 : s; return i < (int)pay.size() ? pay[i] : 'e'; }
};

// what a failing call of measure / predictedMeasure / innovation hands back next to its false flag
static Data data_payload(char cls, const MatrixXd& would, const MatrixXd& last) {
    switch (cls) {
    case 's': return Data(MatrixXd(MatrixXd::Constant(would.rows() + 1, would.cols() + 2, 7.5)));
    case 't': return Data(MatrixXd(last.size() > 0 ? last : would));
    case 'x': return Data(std::string("unavailable"));
    default:  return Data();
    }
}

// fault-injecting linear sensor; usable as Linear-, Additive- and plain MeasurementModel
class FaultyModel : public LinearMeasurementModel {
public:
    FaultyModel(std::shared_ptr<Shared> sh, bool noise_in_input, long reduced_to = 0)
        : sh_(sh), noise_in_input_(noise_in_input), reduced_to_(reduced_to) { }
    void hook() const { if (sh_->intrudes) vf::intrude(); }
    bool freeze(const Data&) override { sh_->log.push_back("F"); hook(); return !sh_->fails(S_F); }
    std::pair<bool, Data> measure(const Data&) const override {
        sh_->log.push_back("M"); hook();
        if (sh_->fails(S_M)) return std::make_pair(false, data_payload(sh_->cls(S_M), sh_->y, sh_->last[S_M]));
        sh_->last[S_M] = sh_->y;
        return std::make_pair(true, Data(sh_->y));
    }
    std::pair<bool, Data> predictedMeasure(const Ref<const MatrixXd>& x) const override {
        sh_->log.push_back("P"); hook();
        const MatrixXd& H = sh_->H;
        MatrixXd pr;
        if (x.rows() == H.cols() + H.rows()) pr = H * x.topRows(H.cols()) + x.bottomRows(H.rows());   // state + noise rows
        else if (x.rows() == H.cols()) pr = H * x;
        else pr = MatrixXd::Zero(H.rows(), x.cols());
        if (sh_->fails(S_P)) return std::make_pair(false, data_payload(sh_->cls(S_P), pr, sh_->last[S_P]));
        sh_->last[S_P] = pr;
        return std::make_pair(true, Data(std::move(pr)));
    }
    std::pair<bool, Data> innovation(const Data& pred, const Data& meas) const override {
        sh_->log.push_back("I"); hook();
        MatrixXd inn = -(any::any_cast<MatrixXd>(pred).colwise() - any::any_cast<MatrixXd>(meas).col(0));
        if (sh_->fails(S_I)) return std::make_pair(false, data_payload(sh_->cls(S_I), inn, sh_->last[S_I]));
        sh_->last[S_I] = inn;
        return std::make_pair(true, Data(std::move(inn)));
    }
    std::pair<bool, MatrixXd> getNoiseCovarianceMatrix() const override {
        sh_->log.push_back("N"); hook();
        MatrixXd Rret = reduced_to_ > 0 ? MatrixXd(sh_->R.topLeftCorner(reduced_to_, reduced_to_)) : sh_->R;
        if (sh_->fails(S_N)) {
            switch (sh_->cls(S_N)) {
            case 'e': return std::make_pair(false, MatrixXd());
            case 's': return std::make_pair(false, MatrixXd(MatrixXd::Identity(Rret.rows() + 1, Rret.cols() + 1)));
            case 't': return std::make_pair(false, MatrixXd(1.5 * Rret + MatrixXd::Identity(Rret.rows(), Rret.cols())));
            default:  return std::make_pair(false, Rret);
            }
        }
        return std::make_pair(true, Rret);
    }
    // getters: logged too (they cannot signal unavailability)
    MatrixXd getMeasurementMatrix() const override { sh_->log.push_back("H"); hook(); return sh_->H; }
    VectorDescription getInputDescription() const override {
        sh_->log.push_back("Di"); hook();
        return VectorDescription(sh_->in.lin, sh_->in.circ, noise_in_input_ ? sh_->H.rows() : 0,
                                 sh_->in.quat ? VectorDescription::CircularType::Quaternion : VectorDescription::CircularType::Euler);
    }
    VectorDescription getMeasurementDescription() const override {
        sh_->log.push_back("D"); hook();
        return VectorDescription(sh_->H.rows() - sh_->mcirc, sh_->mcirc);
    }
private:
    std::shared_ptr<Shared> sh_;
    bool noise_in_input_;
    long reduced_to_;
};

// user-supplied likelihood model with its own validity flag; does not consult the measurement model
class FaultyLik : public LikelihoodModel {
public:
    explicit FaultyLik(std::shared_ptr<Shared> sh) : sh_(sh) {}
    std::pair<bool, VectorXd> likelihood(const MeasurementModel&, const Ref<const MatrixXd>& states) override {
        sh_->log.push_back("L");
        if (sh_->intrudes) vf::intrude();
        if (sh_->fails(S_L)) {
            switch (sh_->cls(S_L)) {
            case 'e': return std::make_pair(false, VectorXd());
            case 's': return std::make_pair(false, VectorXd(VectorXd::Constant(states.cols() + 1, 0.5)));
            case 't': return std::make_pair(false, VectorXd(VectorXd::Constant(states.cols(), 0.75)));
            default:  return std::make_pair(false, VectorXd(VectorXd::Zero(1)));
            }
        }
        return std::make_pair(true, value(states, sh_->y));
    }
    static VectorXd value(const Ref<const MatrixXd>& states, const MatrixXd& y) {
        VectorXd v(states.cols());
        for (long i = 0; i < states.cols(); i++) v(i) = 0.25 + 1.0 / (1.0 + states.col(i).squaredNorm() + y.squaredNorm());
        return v;
    }
private:
    std::shared_ptr<Shared> sh_;
};

// marks the calls made on behalf of the likelihood evaluation
class PhaseLik : public LikelihoodModel {
public:
    PhaseLik(std::shared_ptr<Shared> sh, std::unique_ptr<LikelihoodModel> inner) : sh_(sh), inner_(std::move(inner)) {}
    std::pair<bool, VectorXd> likelihood(const MeasurementModel& mm, const Ref<const MatrixXd>& states) override {
        sh_->phase = 1;
        struct Back { Shared& s; ~Back() { s.phase = 0; } } back{*sh_};
        return inner_->likelihood(mm, states);
    }
private:
    std::shared_ptr<Shared> sh_;
    std::unique_ptr<LikelihoodModel> inner_;
};

class StubState : public StateModel {
public:
    explicit StubState(long n) : n_(n) {}
    void propagate(const Ref<const MatrixXd>& cur, Ref<MatrixXd> prop) override { prop = cur; }
    void motion(const Ref<const MatrixXd>& cur, Ref<MatrixXd> mot) override { mot = cur; }
    bool setProperty(const std::string&) override { return false; }
    VectorDescription getInputDescription() override { return VectorDescription(n_); }
    VectorDescription getStateDescription() override { return VectorDescription(n_); }
    VectorXd getTransitionProbability(const Ref<const MatrixXd>&, const Ref<const MatrixXd>& cur) override { return VectorXd::Constant(cur.cols(), 0.5); }
private:
    long n_;
};

static void fill(GaussianMixture& g, const MatrixXd& means, const MatrixXd& covs, const MatrixXd& w) {
    g.mean() = means; g.covariance() = covs; g.weight() = w.col(0);
}
static GaussianMixture make_gm(const vf::Case& c, const std::string& sfx, const std::string& pfx, const Layout& l) {
    const MatrixXd& means = c.mat(pfx + "means" + sfx);
    GaussianMixture g(means.cols(), l.lin, l.circ, l.quat);
    fill(g, means, c.mat(pfx + "covs" + sfx), c.mat(pfx + "weights" + sfx));
    return g;
}
static ParticleSet make_ps(const vf::Case& c, const std::string& sfx, const std::string& pfx, const Layout& l) {
    const MatrixXd& means = c.mat(pfx + "means" + sfx);
    ParticleSet p(means.cols(), l.lin, l.circ, l.quat);
    fill(p, means, c.mat(pfx + "covs" + sfx), c.mat(pfx + "weights" + sfx));
    p.state() = c.mat(pfx + "states" + sfx);
    return p;
}
static GaussianMixture make_belief(const vf::Case& c, const std::string& sfx, const std::string& pfx, const Layout& l, const GaussianMixture*) { return make_gm(c, sfx, pfx, l); }
static ParticleSet make_belief(const vf::Case& c, const std::string& sfx, const std::string& pfx, const Layout& l, const ParticleSet*) { return make_ps(c, sfx, pfx, l); }

static bool same_shape(const GaussianMixture& a, const GaussianMixture& b) {
    return a.components == b.components && a.use_quaternion == b.use_quaternion && a.dim_circular_component == b.dim_circular_component
        && a.dim == b.dim && a.dim_linear == b.dim_linear && a.dim_circular == b.dim_circular && a.dim_noise == b.dim_noise
        && a.dim_covariance == b.dim_covariance;
}
static void out_log(const std::string& name, const std::vector<std::string>& l) {
    if (l.empty()) vf::out_word(name, {"-"}); else vf::out_word(name, l);
}
static std::string sanitize(std::string s) {
    for (auto& ch : s) if (ch == ' ' || ch == '\t' || ch == '\n' || ch == '\r') ch = '_';
    return s.empty() ? "-" : s;
}
// identity is judged against the copy of the predicted belief taken before the call (with correct(p, p) the
// predicted object itself is the output)
static bool emit_gm(const std::string& k, const GaussianMixture& pred, const GaussianMixture& pred_copy, const GaussianMixture& out) {
    bool im = vf::bit_equal(out.mean(), pred_copy.mean()), ic = vf::bit_equal(out.covariance(), pred_copy.covariance()),
         iw = vf::bit_equal(out.weight(), pred_copy.weight()), is = same_shape(out, pred_copy);
    vf::out_int("ident_mean" + k, im); vf::out_int("ident_cov" + k, ic); vf::out_int("ident_w" + k, iw); vf::out_int("ident_shape" + k, is);
    vf::out_int("ident_g" + k, im && ic && iw && is);
    vf::out_int("components" + k, out.components);
    vf::out_mat("mean" + k, out.mean()); vf::out_mat("cov" + k, out.covariance()); vf::out_mat("w" + k, out.weight());
    vf::out_int("pred_unchanged" + k, vf::bit_equal(pred.mean(), pred_copy.mean()) && vf::bit_equal(pred.covariance(), pred_copy.covariance())
                                          && vf::bit_equal(pred.weight(), pred_copy.weight()) && same_shape(pred, pred_copy));
    return im && ic && iw && is;
}
static bool emit_belief(const std::string& k, const GaussianMixture& pred, const GaussianMixture& pred_copy, const GaussianMixture& out) {
    return emit_gm(k, pred, pred_copy, out);
}
static bool emit_belief(const std::string& k, const ParticleSet& pred, const ParticleSet& pred_copy, const ParticleSet& out) {
    bool g = emit_gm(k, pred, pred_copy, out);
    bool ist = vf::bit_equal(out.state(), pred_copy.state());
    vf::out_int("ident_state" + k, ist);
    vf::out_mat("state" + k, out.state());
    vf::out_int("pred_state_unchanged" + k, vf::bit_equal(pred.state(), pred_copy.state()));
    return g && ist;
}
static void emit_lik(const std::string& k, bool ok, const VectorXd& lik, const std::vector<std::string>& log) {
    vf::out_int("lik_valid" + k, ok ? 1 : 0);
    vf::out_mat("lik" + k, lik);
    out_log("liklog" + k, log);
    std::cout << std::flush;
}

static const MatrixXd& step_mat(const vf::Case& c, const std::string& name, long k) {
    const std::string nk = name + std::to_string(k);
    return c.has_mat(nk) ? c.mat(nk) : c.mat(name);
}
static std::string tok(const vf::Case& c, const std::string& word, long k, const std::string& dflt) {
    const std::vector<std::string>& w = c.word(word);
    return k < (long)w.size() ? w[k] : dflt;
}
static Layout step_layout(const vf::Case& c, long k) { return parse_layout(tok(c, "lay", k, "-"), c.mi("n")); }

static void set_step(const vf::Case& c, Shared& sh, long k) {
    const std::string t = c.word("pat")[k];
    sh.bits = t.substr(0, 6);
    sh.bits2 = t.size() >= 12 ? t.substr(6, 6) : sh.bits;
    sh.pay = tok(c, "pay", k, c.mi("emptyR") == 1 ? "eeeez" : "eeeRz");
    sh.phase = 0;
    sh.y = c.mat("y" + std::to_string(k));
    sh.H = step_mat(c, "H", k);
    sh.R = step_mat(c, "R", k);
    sh.in = step_layout(c, k);
    sh.mcirc = c.mi("mcirc", 0);
    sh.log.clear();
}

// ------------------------------------------------------------------ construction of subjects and twins
struct Cfg { long n, sub; bool online, reduced; double alpha = 1.0, beta = 2.0, kappa = 0.0; std::string kind; };

static std::unique_ptr<KFCorrection> make_kf(std::shared_ptr<Shared> sh, const Cfg&) {
    return std::unique_ptr<KFCorrection>(new KFCorrection(std::unique_ptr<LinearMeasurementModel>(new FaultyModel(sh, false))));
}
static std::unique_ptr<UKFCorrection> make_ukf_gen(std::shared_ptr<Shared> sh, const Cfg& g) {
    std::unique_ptr<UKFCorrection> u(new UKFCorrection(std::unique_ptr<MeasurementModel>(new FaultyModel(sh, true)), g.alpha, g.beta, g.kappa, g.online));
    sh->log.clear();
    return u;
}
static std::unique_ptr<UKFCorrection> make_ukf_add(std::shared_ptr<Shared> sh, const Cfg& g) {
    std::unique_ptr<UKFCorrection> u(new UKFCorrection(std::unique_ptr<AdditiveMeasurementModel>(new FaultyModel(sh, false)), g.alpha, g.beta, g.kappa));
    sh->log.clear();
    return u;
}
static std::unique_ptr<SUKFCorrection> make_sukf(std::shared_ptr<Shared> sh, const Cfg& g) {
    std::unique_ptr<SUKFCorrection> u(new SUKFCorrection(std::unique_ptr<AdditiveMeasurementModel>(new FaultyModel(sh, false, g.reduced ? g.sub : 0)),
                                                          g.alpha, g.beta, g.kappa, g.sub, g.reduced));
    sh->log.clear();
    return u;
}
static std::unique_ptr<BootstrapCorrection> make_boot(std::shared_ptr<Shared> sh, const Cfg& g) {
    std::unique_ptr<LikelihoodModel> lm;
    if (g.kind == "boot_gl") lm.reset(new GaussianLikelihood()); else lm.reset(new FaultyLik(sh));
    return std::unique_ptr<BootstrapCorrection>(new BootstrapCorrection(std::unique_ptr<MeasurementModel>(new FaultyModel(sh, false)), std::move(lm)));
}
// GPFCorrection offers no access to the wrapped correction: skip commands for it go through this side door
struct InnerSkip { GaussianCorrection* gc = nullptr; };

// ------------------------------------------------------------------ the step loop
// belief of the same shape as pred with other content
static void other_content(GaussianMixture& t) {
    for (long j = 0; j < t.mean().cols(); j++) for (long i = 0; i < t.mean().rows(); i++) t.mean()(i, j) = 0.1 * (i + 1) - 0.05 * j;
    if (t.use_quaternion)
        for (long j = 0; j < t.mean().cols(); j++)
            for (long q = 0; q < (long)t.dim_circular; q++) { t.mean().col(j).segment(t.dim_linear + 4 * q, 4) << 1.0, 0.0, 0.0, 0.0; }
    const long d = t.dim_covariance;
    for (long j = 0; j < (long)t.components; j++) t.covariance(j) = 2.0 * MatrixXd::Identity(d, d) + MatrixXd::Constant(d, d, 0.1);
    t.weight().setConstant(-std::log(static_cast<double>(t.components)));
}
static GaussianMixture twin_belief(const GaussianMixture& pred) { GaussianMixture t(pred); other_content(t); return t; }
static ParticleSet twin_belief(const ParticleSet& pred) {
    ParticleSet t(pred); other_content(t);
    for (long j = 0; j < t.state().cols(); j++) for (long i = 0; i < t.state().rows(); i++) t.state()(i, j) = 0.2 * (i + 1) + 0.03 * j;
    if (t.use_quaternion) t.state() = t.mean();
    return t;
}

template <class Corr, class Belief>
struct Runner {
    const vf::Case& c;
    std::shared_ptr<Shared> sh;
    const char* l_correct; const char* l_lik;
    int gpf_custom;                 // -1: not a GPF; 0 / 1: mirror of the known finding with GaussianLikelihood / custom likelihood
    InnerSkip inner;
    Belief out;
    bool aborted = false;
    // twin (callback re-entrancy)
    std::shared_ptr<Shared> tsh;
    std::unique_ptr<Corr> twin;
    long twin_calls = 0;

    Runner(const vf::Case& cc, std::shared_ptr<Shared> s, const char* lc, const char* ll, int gc)
        : c(cc), sh(s), l_correct(lc), l_lik(ll), gpf_custom(gc),
          out(make_belief(cc, "", "o", parse_layout(cc.m("olay", "-"), cc.mi("n")), static_cast<const Belief*>(nullptr))) { }

    void run(Corr& corr, long from, long to);
};

static void emit_gpf_mirror(const std::string& ks, const ParticleSet& pred, const ParticleSet& out,
                            const MatrixXd& H, const MatrixXd& R, const MatrixXd& y, bool custom);
static void maybe_mirror(int, const std::string&, const GaussianMixture&, const GaussianMixture&, const Shared&) { }
static void maybe_mirror(int gpf_custom, const std::string& ks, const ParticleSet& pred_copy, const ParticleSet& o, const Shared& sh) {
    if (gpf_custom >= 0) emit_gpf_mirror(ks, pred_copy, o, sh.H, sh.R, sh.y, gpf_custom == 1);
}

template <class Corr, class Belief>
void Runner<Corr, Belief>::run(Corr& corr, long from, long to) {
    const bool alias = c.mi("alias") == 1;
    const bool intr = c.mi("intr", 0) == 1;
    for (long k = from; k < to && !aborted; k++) {
        const std::string ks = std::to_string(k);
        set_step(c, *sh, k);
        // commands that stay in force
        const std::string skc = tok(c, "skc", k, "-"), isk = tok(c, "isk", k, "-");
        if (skc == "1") corr.skip(true); else if (skc == "0") corr.skip(false);
        if (inner.gc) { if (isk == "1") inner.gc->skip(true); else if (isk == "0") inner.gc->skip(false); }
        const Layout lay = step_layout(c, k);
        Belief pred = make_belief(c, ks, "", lay, static_cast<const Belief*>(nullptr)), pred_copy(pred);
        if (c.has_mat("fmeans" + ks)) out = make_belief(c, ks, "f", parse_layout(tok(c, "flay", k, "-"), c.mi("n")), static_cast<const Belief*>(nullptr));
        Belief& o = alias ? pred : out;
        // the twin: an independent object of the same class with its own models, run inside every callback of the subject's
        Belief tpred = twin_belief(pred), tout(tpred);
        if (intr && twin) {
            *tsh = *sh; tsh->intrudes = false; tsh->log.clear();
            tsh->bits = tok(c, "tpat", k, "000000"); tsh->bits2 = tsh->bits; tsh->pay = "eeeRz";
            tsh->y = MatrixXd::Constant(sh->y.rows(), sh->y.cols(), 0.3);
            for (auto& l : tsh->last) l.resize(0, 0);
            Corr* tw = twin.get(); Belief* tp = &tpred; Belief* to2 = &tout; long* calls = &twin_calls;
            vf::set_intruder([tw, tp, to2, calls]() { tw->correct(*tp, *to2); tw->getLikelihood(); (*calls)++; });
            sh->intrudes = true;
        }
        vf::out_int("step_begin" + ks, 1); std::cout << std::flush;
        bool threw = false; std::string what;
        try { vf::Entry e(l_correct); corr.correct(pred, o); }
        catch (const std::exception& e) { threw = true; what = e.what(); }
        catch (...) { threw = true; what = "not-a-std-exception"; }
        sh->phase = 0;
        vf::out_int("threw_correct" + ks, threw);
        if (threw) vf::out_str("threw_what" + ks, sanitize(what));
        bool id = emit_belief(ks, pred, pred_copy, o);
        vf::out_int("ident" + ks, id);
        out_log("log" + ks, sh->log);
        if (!threw && k == 0 && !alias) maybe_mirror(gpf_custom, ks, pred_copy, o, *sh);
        sh->log.clear();
        if (threw) { aborted = true; vf::out_int("aborted_at", k); sh->intrudes = false; vf::clear_intruder(); break; }
        vf::out_int("lik_begin" + ks, 1); std::cout << std::flush;
        bool ok = false; VectorXd lik;
        try { vf::Entry e(l_lik); std::tie(ok, lik) = corr.getLikelihood(); }
        catch (const std::exception& e) { threw = true; what = e.what(); }
        catch (...) { threw = true; what = "not-a-std-exception"; }
        vf::out_int("threw_lik" + ks, threw);
        if (threw) { vf::out_str("threw_what" + ks, sanitize(what)); aborted = true; vf::out_int("aborted_at", k); sh->intrudes = false; vf::clear_intruder(); break; }
        emit_lik(ks, ok, lik, sh->log);
        sh->intrudes = false; vf::clear_intruder();
    }
    if (intr && to == c.mi("steps")) vf::out_int("intruder_calls", twin_calls);
}

// how the subject was obtained
template <class T> static void assign_from(T& target, T& donor, std::true_type) { target = std::move(donor); }
template <class T> static void assign_from(T&, T&, std::false_type) { std::fprintf(stderr, "BFL_VERIF_HARNESS class has no move assignment\n"); std::exit(3); }

template <class Corr, class Belief>
static void drive(const vf::Case& c, std::shared_ptr<Shared> sh, const Cfg& g, Runner<Corr, Belief>& r,
                  std::function<std::unique_ptr<Corr>(std::shared_ptr<Shared>, const Cfg&, InnerSkip*)> make) {
    const long steps = c.mi("steps");
    const std::string life = c.m("life", "fresh");
    // the layout the constructors see (unscented weights are computed from the input description at construction)
    set_step(c, *sh, 0);
    std::unique_ptr<Corr> first = make(sh, g, &r.inner);
    if (c.mi("intr", 0) == 1) {
        r.tsh = std::make_shared<Shared>(*sh);
        r.tsh->intrudes = false;
        InnerSkip dummy;
        r.twin = make(r.tsh, g, &dummy);
    }
    if (c.mi("skip") == 1) first->skip(true);
    if (life == "fresh") { r.run(*first, 0, steps); return; }
    long from = 0;
    if (life == "mcu" || life == "mau") { r.run(*first, 0, 1); from = 1; }
    if (r.aborted) return;
    // another object of the same class with ITS OWN models (vector neighbour / target of the assignment): a sensor and a
    // likelihood that never report unavailability and log elsewhere, so a subject that kept them instead of the source's
    // is seen at the first failing step
    auto osh = std::make_shared<Shared>(*sh);
    osh->bits = "000000"; osh->bits2 = "000000"; osh->intrudes = false;
    InnerSkip oinner;
    if (life == "mc" || life == "mcu") {
        vf::Entry e("move constructor");
        Corr moved(std::move(*first)); first.reset();
        r.run(moved, from, steps);
    } else if (life == "vec") {
        std::vector<Corr> v; v.reserve(1);
        v.push_back(std::move(*first)); first.reset();
        { std::unique_ptr<Corr> other = make(osh, g, &oinner); v.push_back(std::move(*other)); }   // growth moves element 0 again
        r.run(v[0], from, steps);
    } else if (life == "ma" || life == "mau") {
        std::unique_ptr<Corr> target = make(osh, g, &oinner);
        target->skip(c.mi("skip") != 1);          // the target's own flag is the opposite of the donor's
        assign_from(*target, *first, typename std::is_move_assignable<Corr>::type());
        first.reset();
        r.run(*target, from, steps);
    } else { std::fprintf(stderr, "BFL_VERIF_HARNESS unknown life %s\n", life.c_str()); std::exit(3); }
}

// what the known finding "GPFCorrection does not notice that the wrapped correction could not use the
// measurement" must produce and nothing else: states re-drawn around the PREDICTED moments with the
// correction's own generator (seed 7, first draws), weights from the predicted weights, the likelihood at
// the new states, the transition probability 0.5 of the stub state model and the proposal density
static void emit_gpf_mirror(const std::string& ks, const ParticleSet& pred, const ParticleSet& out,
                            const MatrixXd& H, const MatrixXd& R, const MatrixXd& y, bool custom) {
    std::mt19937_64 gen(7);
    std::normal_distribution<double> dist(0.0, 1.0);
    const long n = pred.dim, N = pred.components;
    if (pred.use_quaternion) return;
    MatrixXd states(n, N);
    for (long i = 0; i < N; i++) {
        MatrixXd cov = pred.covariance(i); VectorXd mean = pred.mean(i);
        LDLT<MatrixXd> chol_ldlt(cov);
        MatrixXd sqrt_P = (chol_ldlt.transpositionsP() * MatrixXd::Identity(mean.size(), mean.size())).transpose() *
                          chol_ldlt.matrixL() * chol_ldlt.vectorD().real().cwiseSqrt().asDiagonal();
        VectorXd z(mean.size());
        for (int r = 0; r < z.size(); r++) z(r) = dist(gen);
        states.col(i) = mean + sqrt_P * z;
    }
    VectorXd lik;
    if (custom) lik = FaultyLik::value(states, y);
    else {
        auto sh2 = std::make_shared<Shared>(); sh2->y = y; sh2->H = H; sh2->R = R;
        FaultyModel fm(sh2, false);
        GaussianLikelihood gl_obj; LikelihoodModel& gl = gl_obj;
        bool ok; std::tie(ok, lik) = gl.likelihood(fm, states);
    }
    const double eps = std::numeric_limits<double>::min();
    VectorXd w(N);
    for (long i = 0; i < N; i++) {
        double q = utils::multivariate_gaussian_density(states.col(i), pred.mean(i), pred.covariance(i)).coeff(0);
        w(i) = pred.weight(i) + std::log(lik(i) + eps) + std::log(0.5 + eps) - std::log(q + eps);
    }
    auto maxdiff = [](const MatrixXd& a, const MatrixXd& b) {
        if (a.rows() != b.rows() || a.cols() != b.cols()) return (double)INFINITY;
        double d = 0; for (long i = 0; i < a.rows(); i++) for (long j = 0; j < a.cols(); j++) { double e = std::fabs(a(i, j) - b(i, j)); if (!(e <= d)) d = e; } return d; };
    vf::out_int("mirror_state_bits" + ks, vf::bit_equal(states, out.state()));
    vf::out_num("mirror_state_diff" + ks, maxdiff(states, out.state()));
    vf::out_int("mirror_w_bits" + ks, vf::bit_equal(w, out.weight()));
    vf::out_num("mirror_w_diff" + ks, maxdiff(w, out.weight()));
    // magnitudes the comparison is relative to: the spread the draws were scaled by, the largest term of a weight
    double spread = 0; for (long i = 0; i < N; i++) spread = std::max(spread, std::sqrt(std::fabs(pred.covariance(i).diagonal().maxCoeff())));
    vf::out_num("mirror_spread" + ks, spread + pred.mean().cwiseAbs().maxCoeff());
}

// ---- SIS: the real filtering thread runs a scripted number of steps over a real BootstrapCorrection
// (GaussianLikelihood over the faulty sensor), a prediction that logs, and the library's Resampling
struct CaseInit : public ParticleSetInitialization {
    ParticleSet p;
    explicit CaseInit(const ParticleSet& q) : p(q) {}
    bool initialize(ParticleSet& particles) override { particles = p; return true; }
};
struct StubPrediction : public PFPrediction {
    StubState sm;
    std::shared_ptr<Shared> sh;
    StubPrediction(long n, std::shared_ptr<Shared> s) : sm(n), sh(s) {}
    StateModel& getStateModel() noexcept override { return sm; }
protected:
    void predictStep(const ParticleSet& prev, ParticleSet& pred) override {
        sh->log.push_back("predict");
        pred = prev;
        pred.state().array() += 0.5;
    }
};
struct LoggingBootstrap : public BootstrapCorrection {
    std::shared_ptr<Shared> sh;
    LoggingBootstrap(std::shared_ptr<Shared> s, std::unique_ptr<MeasurementModel> m, std::unique_ptr<LikelihoodModel> l)
        : BootstrapCorrection(std::move(m), std::move(l)), sh(s) {}
protected:
    void correctStep(const ParticleSet& pred, ParticleSet& cor) override { sh->log.push_back("C"); BootstrapCorrection::correctStep(pred, cor); }
};
struct LoggingResampling : public Resampling {
    std::shared_ptr<Shared> sh;
    explicit LoggingResampling(std::shared_ptr<Shared> s) : Resampling(11), sh(s) {}
    void resample(const ParticleSet& cor, ParticleSet& res, Ref<VectorXi> parents) override { sh->log.push_back("resample"); Resampling::resample(cor, res, parents); }
};
struct StepRecord { ParticleSet pred_at_log, cor_at_log, cor_end; std::vector<std::string> log; bool logged = false; long step_number = -1; bool threw = false; std::string what; };
struct ScriptedSIS : public SIS {
    const vf::Case* c = nullptr;
    std::shared_ptr<Shared> sh;
    long k = 0, steps = 0;
    std::vector<StepRecord> rec;
    using SIS::SIS;
    ParticleSet& cor() { return cor_particle_; }
protected:
    bool run_condition() override { return k < steps; }
    void filtering_step() override {
        vf::Entry e("SIS::filtering_step");
        set_step(*c, *sh, k);
        const std::string cmd = tok(*c, "scmd", k, "-");
        if (cmd.find("c1") != std::string::npos) skip("correction", true);
        if (cmd.find("c0") != std::string::npos) skip("correction", false);
        rec.emplace_back();
        rec.back().step_number = step_number();
        try { SIS::filtering_step(); }
        catch (const std::exception& ex) { rec.back().threw = true; rec.back().what = ex.what(); k = steps; }
        catch (...) { rec.back().threw = true; rec.back().what = "not-a-std-exception"; k = steps; }
        rec.back().cor_end = cor_particle_;
        rec.back().log = sh->log;
        if (cmd.find('r') != std::string::npos) reset();
        k++;
    }
    void log() override { rec.back().pred_at_log = pred_particle_; rec.back().cor_at_log = cor_particle_; rec.back().logged = true; SIS::log(); }
};
static bool ps_equal(const ParticleSet& a, const ParticleSet& b) {
    return vf::bit_equal(a.mean(), b.mean()) && vf::bit_equal(a.covariance(), b.covariance()) && vf::bit_equal(a.weight(), b.weight())
        && same_shape(a, b) && vf::bit_equal(a.state(), b.state());
}

// GaussianLikelihood::likelihood evaluated for every step at the same time, one thread per step, each with its own
// sensor object: [valid; values] must be what the sequential evaluation gives
static void run_gl_concurrent(const vf::Case& c) {
    const long steps = c.mi("steps");
    std::vector<std::function<MatrixXd()>> jobs;
    std::vector<std::shared_ptr<Shared>> shs;
    std::vector<std::shared_ptr<FaultyModel>> fms;
    for (long k = 0; k < steps; k++) {
        auto s = std::make_shared<Shared>();
        set_step(c, *s, k);
        shs.push_back(s);
        fms.push_back(std::make_shared<FaultyModel>(s, false));
    }
    for (long k = 0; k < steps; k++) {
        std::shared_ptr<FaultyModel> fm = fms[k];
        const MatrixXd states = c.mat("states" + std::to_string(k));
        jobs.push_back([fm, states]() {
            GaussianLikelihood gl_obj; LikelihoodModel& gl = gl_obj;
            bool ok = false; VectorXd lik;
            // (an exception is reported by the sequential run of the same step; here it must not end the process)
            try { std::tie(ok, lik) = gl.likelihood(*fm, states); } catch (...) { return MatrixXd(MatrixXd::Constant(1, 1, -1.0)); }
            MatrixXd r(lik.size() + 1, 1); r(0, 0) = ok ? 1.0 : 0.0; r.bottomRows(lik.size()) = lik; return r; });
    }
    vf::Entry e("GaussianLikelihood::likelihood(concurrent)");
    vf::out_int("conc_ok", vf::concurrent_same(jobs, 40) ? 1 : 0);
}

static void run_case(const vf::Case& c) {
    const std::string& kind = c.kind;
    const long n = c.mi("n");
    auto sh = std::make_shared<Shared>();
    Cfg g; g.n = n; g.sub = c.mi("sub"); g.online = c.mi("online") == 1; g.reduced = c.mi("reduced") == 1; g.kind = kind;
    vf::out_begin(c.id);
    std::cout << std::flush;
    if (kind == "kf") {
        Runner<KFCorrection, GaussianMixture> r(c, sh, "KFCorrection::correct", "KFCorrection::getLikelihood", -1);
        drive<KFCorrection, GaussianMixture>(c, sh, g, r, [](std::shared_ptr<Shared> s, const Cfg& q, InnerSkip*) { return make_kf(s, q); });
    } else if (kind == "ukf_gen") {
        Runner<UKFCorrection, GaussianMixture> r(c, sh, "UKFCorrection(generic)::correct", "UKFCorrection(generic)::getLikelihood", -1);
        drive<UKFCorrection, GaussianMixture>(c, sh, g, r, [](std::shared_ptr<Shared> s, const Cfg& q, InnerSkip*) { return make_ukf_gen(s, q); });
    } else if (kind == "ukf_add") {
        Runner<UKFCorrection, GaussianMixture> r(c, sh, "UKFCorrection(additive)::correct", "UKFCorrection(additive)::getLikelihood", -1);
        drive<UKFCorrection, GaussianMixture>(c, sh, g, r, [](std::shared_ptr<Shared> s, const Cfg& q, InnerSkip*) { return make_ukf_add(s, q); });
    } else if (kind == "sukf") {
        Runner<SUKFCorrection, GaussianMixture> r(c, sh, "SUKFCorrection::correct", "SUKFCorrection::getLikelihood", -1);
        drive<SUKFCorrection, GaussianMixture>(c, sh, g, r, [](std::shared_ptr<Shared> s, const Cfg& q, InnerSkip*) { return make_sukf(s, q); });
    } else if (kind == "gl") {
        FaultyModel fm(sh, false);
        GaussianLikelihood gl_obj;
        LikelihoodModel& gl = gl_obj;   // likelihood() is protected in GaussianLikelihood, public in the interface
        const long steps = c.mi("steps");
        // callback re-entrancy: another GaussianLikelihood object evaluated over another sensor inside every callback
        auto tsh = std::make_shared<Shared>();
        FaultyModel tfm(tsh, false);
        GaussianLikelihood tgl_obj; LikelihoodModel& tgl = tgl_obj;
        for (long k = 0; k < steps; k++) {
            const std::string ks = std::to_string(k);
            set_step(c, *sh, k);
            const MatrixXd& states = c.mat("states" + ks);
            MatrixXd tstates = MatrixXd::Constant(states.rows(), states.cols(), 0.4);
            if (c.mi("intr", 0) == 1) {
                *tsh = *sh; tsh->intrudes = false; tsh->bits = tok(c, "tpat", k, "000000"); tsh->bits2 = tsh->bits; tsh->pay = "eeeRz";
                tsh->y = MatrixXd::Constant(sh->y.rows(), sh->y.cols(), 0.3);
                LikelihoodModel* tg = &tgl; FaultyModel* tf = &tfm; MatrixXd* ts = &tstates;
                vf::set_intruder([tg, tf, ts]() { tg->likelihood(*tf, *ts); });
                sh->intrudes = true;
            }
            vf::out_int("step_begin" + ks, 1);
            vf::out_int("lik_begin" + ks, 1); std::cout << std::flush;
            bool ok = false; VectorXd lik; bool threw = false; std::string what;
            try { vf::Entry e("GaussianLikelihood::likelihood"); std::tie(ok, lik) = gl.likelihood(fm, states); }
            catch (const std::exception& e) { threw = true; what = e.what(); }
            catch (...) { threw = true; what = "not-a-std-exception"; }
            sh->intrudes = false; vf::clear_intruder();
            vf::out_int("threw_correct" + ks, threw);
            if (threw) vf::out_str("threw_what" + ks, sanitize(what));
            out_log("log" + ks, sh->log);
            if (threw) { vf::out_int("aborted_at", k); break; }
            emit_lik(ks, ok, lik, {});
        }
        if (c.mi("conc", 0) == 1) run_gl_concurrent(c);
    } else if (kind == "boot_gl" || kind == "boot_custom") {
        Runner<BootstrapCorrection, ParticleSet> r(c, sh, "BootstrapCorrection::correct", "BootstrapCorrection::getLikelihood", -1);
        drive<BootstrapCorrection, ParticleSet>(c, sh, g, r, [](std::shared_ptr<Shared> s, const Cfg& q, InnerSkip*) { return make_boot(s, q); });
    } else if (kind.rfind("gpf_", 0) == 0) {
        const bool custom = kind.find("_custom") != std::string::npos;
        const bool iskip = c.mi("iskip") == 1;
        Runner<GPFCorrection, ParticleSet> r(c, sh, "GPFCorrection::correct", "GPFCorrection::getLikelihood", custom ? 1 : 0);
        // the subject's generator is seeded with 7 (the mirror of the known finding replays its first draws); every other object with 11
        bool first_made = false;
        drive<GPFCorrection, ParticleSet>(c, sh, g, r, [&first_made, iskip](std::shared_ptr<Shared> s, const Cfg& q, InnerSkip* in) {
            // the wrapped correction is reachable only before it is handed over
            const std::string& kd = q.kind;
            const bool cust = kd.find("_custom") != std::string::npos;
            std::unique_ptr<LikelihoodModel> lm;
            if (cust) lm.reset(new FaultyLik(s)); else lm.reset(new GaussianLikelihood());
            std::unique_ptr<GaussianCorrection> gc;
            if (kd.find("_kf_") != std::string::npos) gc = make_kf(s, q);
            else if (kd.find("_ukfgen_") != std::string::npos) { Cfg h = q; h.online = false; gc = make_ukf_gen(s, h); }
            else if (kd.find("_ukfadd_") != std::string::npos) gc = make_ukf_add(s, q);
            else { Cfg h = q; h.reduced = false; gc = make_sukf(s, h); }
            if (iskip) gc->skip(true);
            if (in) in->gc = gc.get();
            std::unique_ptr<LikelihoodModel> plm(new PhaseLik(s, std::move(lm)));
            const unsigned seed = first_made ? 11 : 7; first_made = true;
            std::unique_ptr<GPFCorrection> p(new GPFCorrection(std::move(plm), std::move(gc), std::unique_ptr<StateModel>(new StubState(q.n)), seed));
            s->log.clear();
            return p; });
    } else if (kind == "sis") {
        const Layout lay = step_layout(c, 0);
        ParticleSet pred0 = make_ps(c, "0", "", lay);
        ParticleSet cor0 = make_ps(c, "", "o", parse_layout(c.m("olay", "-"), n));
        const long N = pred0.components;
        set_step(c, *sh, 0);
        ScriptedSIS sis(N, n, std::unique_ptr<ParticleSetInitialization>(new CaseInit(pred0)),
                        std::unique_ptr<PFPrediction>(new StubPrediction(n, sh)),
                        std::unique_ptr<PFCorrection>(new LoggingBootstrap(sh, std::unique_ptr<MeasurementModel>(new FaultyModel(sh, false)),
                                                                           std::unique_ptr<LikelihoodModel>(new GaussianLikelihood()))),
                        std::unique_ptr<Resampling>(new LoggingResampling(sh)));
        sis.c = &c; sis.sh = sh; sis.steps = c.mi("steps");
        sis.cor() = cor0;
        vf::out_int("step_begin0", 1); std::cout << std::flush;
        { vf::Entry e("SIS::boot/run/wait"); sis.boot(); sis.run(); sis.wait(); }
        vf::out_int("steps_run", (long)sis.rec.size());
        for (long k = 0; k < (long)sis.rec.size(); k++) {
            const std::string ks = std::to_string(k);
            const StepRecord& r = sis.rec[k];
            out_log("events" + ks, r.log);
            vf::out_int("logged" + ks, r.logged);
            vf::out_int("step_number" + ks, r.step_number);
            vf::out_int("threw_correct" + ks, r.threw);
            if (r.threw) vf::out_str("threw_what" + ks, sanitize(r.what));
            vf::out_int("ident_atlog" + ks, r.logged && ps_equal(r.cor_at_log, r.pred_at_log));
            vf::out_int("ident_atlog_w" + ks, r.logged && vf::bit_equal(r.cor_at_log.weight(), r.pred_at_log.weight()));
            vf::out_int("ident_atlog_state" + ks, r.logged && vf::bit_equal(r.cor_at_log.state(), r.pred_at_log.state()));
            vf::out_int("cor_is_atlog" + ks, r.logged && ps_equal(r.cor_end, r.cor_at_log));
            long nc = 0, nr = 0; for (auto& t : r.log) { if (t == "C") nc++; if (t == "resample") nr++; }
            vf::out_int("correct_calls" + ks, nc);
            vf::out_int("resampled" + ks, nr);
            if (r.logged) { vf::out_mat("atlog_w" + ks, r.cor_at_log.weight()); vf::out_mat("pred_w" + ks, r.pred_at_log.weight()); }
        }
    } else {
        std::fprintf(stderr, "BFL_VERIF_HARNESS unknown kind %s\n", kind.c_str());
        std::exit(3);
    }
    vf::out_end();
}

// runs the case in a child; returns after printing a complete record
static void run_forked(const vf::Case& c) {
    std::cout << std::flush; std::fflush(stdout);
    int po[2];
    if (pipe(po) != 0) { std::perror("pipe"); std::exit(3); }
    char errname[] = "/tmp/C12_harness_err_XXXXXX";
    int efd = mkstemp(errname);
    pid_t pid = fork();
    if (pid == 0) {
        close(po[0]);
        dup2(po[1], 1); close(po[1]);
        if (efd >= 0) { dup2(efd, 2); close(efd); }
        run_case(c);
        std::cout << std::flush; std::fflush(stdout);
        _exit(0);
    }
    close(po[1]);
    std::string text; char buf[65536]; ssize_t r;
    while ((r = read(po[0], buf, sizeof buf)) > 0) text.append(buf, r);
    close(po[0]);
    int status = 0; waitpid(pid, &status, 0);
    std::string err;
    if (efd >= 0) {
        lseek(efd, 0, SEEK_SET);
        while ((r = read(efd, buf, sizeof buf)) > 0) err.append(buf, r);
        close(efd); unlink(errname);
    }
    const bool complete = text.size() >= 4 && text.compare(text.size() - 4, 4, "end\n") == 0;
    if (complete && WIFEXITED(status) && WEXITSTATUS(status) == 0) { std::cout << text << std::flush; return; }
    // abnormal end: close the partial record
    if (complete) text.erase(text.size() - 4);
    if (text.empty()) text = "out " + c.id + "\n";
    if (text.back() != '\n') { auto p = text.rfind('\n'); text.erase(p == std::string::npos ? 0 : p + 1); }
    std::cout << text;
    vf::out_int("crashed", 1);
    vf::out_int("crash_rc", WIFEXITED(status) ? WEXITSTATUS(status) : -WTERMSIG(status));
    std::string kind = "crash", entry = "-", cond = "-", where = "-";
    auto p = err.find("BFL_VERIF_EIGEN_ASSERT");
    if (p != std::string::npos) {
        kind = "eigen-assert";
        auto line = err.substr(p, err.find('\n', p) - p);
        auto e0 = line.find("entry="); auto c0 = line.find(" cond=["); auto a0 = line.find("] at "); auto i0 = line.find(" in ", a0 == std::string::npos ? 0 : a0);
        if (e0 != std::string::npos && c0 != std::string::npos) entry = line.substr(e0 + 6, c0 - e0 - 6);
        if (c0 != std::string::npos && a0 != std::string::npos) cond = line.substr(c0 + 7, a0 - c0 - 7);
        if (a0 != std::string::npos) where = line.substr(a0 + 5, (i0 == std::string::npos ? line.size() : i0) - a0 - 5);
    } else if (err.find("AddressSanitizer") != std::string::npos) kind = "asan";
    else if (err.find("runtime error") != std::string::npos) kind = "ubsan";
    else if (err.find("terminate called") != std::string::npos) kind = "uncaught-exception";
    vf::out_str("crash_kind", kind);
    vf::out_str("crash_entry", sanitize(entry));
    vf::out_str("crash_cond", sanitize(cond));
    vf::out_str("crash_where", sanitize(where));
    if (kind != "eigen-assert") std::fprintf(stderr, "BFL_VERIF_CHILD case %s: %s\n", c.id.c_str(), err.substr(0, 1500).c_str());
    vf::out_end();
}

int main() {
    vf::Case c;
    while (vf::read_case(std::cin, c)) {
        if (c.mi("risky") == 1) run_forked(c); else run_case(c);
    }
    return 0;
}
