// h_C04.cpp — harness for C04: UKFPrediction / UKFCorrection (additive and generic
// constructors) against KFPrediction / KFCorrection of the implementation itself,
// on linear-Gaussian models.
// kind predict: ints n q generic skip_pred skip_state; mats params (alpha beta kappa), F (n x n),
//               B (n x q), A (additive: F; generic: [F B]), Q (additive: n x n; generic: Qw q x q),
//               means (n x comps), covs (n x n*comps), weights (comps x 1); optional exo_c (n x 1, additive
//               only: constant exogenous input attached to both state models), out_shape (extra components /
//               rows of the output object handed to UKFPrediction).
// kind correct: ints n q m generic skip have_y fail online; mats params, H (m x n), D (m x q),
//               A (additive: H; generic: [H D]), R (additive: m x m; generic: Rv q x q), y (m x 1),
//               means, covs, weights, old_means, old_covs, old_weights (content of the output object);
//               optional int mnoise (noise components declared by getMeasurementDescription);
//               optional int warm + mat y0: the same object first performs a successful correction with y0.
#define VF_MAIN
#include "common.hpp"
#include <BayesFilters/ExogenousModel.h>
#include <BayesFilters/GaussianMixture.h>
#include <BayesFilters/KFCorrection.h>
#include <BayesFilters/KFPrediction.h>
#include <BayesFilters/LTIMeasurementModel.h>
#include <BayesFilters/LTIStateModel.h>
#include <BayesFilters/UKFCorrection.h>
#include <BayesFilters/UKFPrediction.h>

using namespace bfl;
using namespace Eigen;

// constant exogenous input u(X) = c 1^T
struct ConstExo : public ExogenousModel {
    MatrixXd c_;
    explicit ConstExo(const MatrixXd& c) : c_(c) {}
    void propagate(const Ref<const MatrixXd>& cur, Ref<MatrixXd> prop) override { prop = c_.replicate(1, cur.cols()); }
    bool setProperty(const std::string&) override { return false; }
    VectorDescription getStateDescription() const override { return VectorDescription(c_.rows()); }
};

// x' = F x + w, additive
struct LTI : public LTIStateModel {
    long n_;
    LTI(const MatrixXd& F, const MatrixXd& Q) : LTIStateModel(F, Q), n_(F.rows()) {}
    VectorDescription getStateDescription() override { return VectorDescription(n_); }
};

// x' = [F B] [x; w], noise enters through the model
struct NoiseInputStateModel : public StateModel {
    MatrixXd A_, Qw_; long n_, q_;
    NoiseInputStateModel(const MatrixXd& A, const MatrixXd& Qw, long n, long q) : A_(A), Qw_(Qw), n_(n), q_(q) {}
    void propagate(const Ref<const MatrixXd>& cur, Ref<MatrixXd> prop) override { prop = A_.leftCols(n_) * cur.topRows(n_); }
    void motion(const Ref<const MatrixXd>& cur, Ref<MatrixXd> mot) override { mot = A_ * cur; }
    bool setProperty(const std::string&) override { return false; }
    MatrixXd getNoiseCovarianceMatrix() override { return Qw_; }
    VectorDescription getInputDescription() override { return VectorDescription(n_, 0, q_); }
    VectorDescription getStateDescription() override { return VectorDescription(n_); }
};

// y = H x + v, additive; serves the case's measurement
struct ServedLTI : public LTIMeasurementModel {
    MatrixXd y_; bool have_y_, fail_; long n_; long mnoise_ = 0;
    ServedLTI(const MatrixXd& H, const MatrixXd& R, const MatrixXd& y, bool have_y, bool fail)
        : LTIMeasurementModel(H, R), y_(y), have_y_(have_y), fail_(fail), n_(H.cols()) {}
    bool freeze(const Data&) override { return true; }
    std::pair<bool, Data> measure(const Data&) const override { return std::make_pair(have_y_, Data(y_)); }
    std::pair<bool, Data> predictedMeasure(const Ref<const MatrixXd>& cur) const override {
        if (fail_) return std::make_pair(false, Data());
        return LTIMeasurementModel::predictedMeasure(cur);
    }
    VectorDescription getInputDescription() const override { return VectorDescription(n_, 0, H_.rows()); }
    VectorDescription getMeasurementDescription() const override { return VectorDescription(H_.rows(), 0, mnoise_); }
};

// y = [H D] [x; v], noise enters through the model
struct NoiseInputMeasModel : public MeasurementModel {
    MatrixXd A_, Rv_, y_; bool have_y_, fail_; long n_, q_; long mnoise_ = 0;
    NoiseInputMeasModel(const MatrixXd& A, const MatrixXd& Rv, const MatrixXd& y, bool have_y, bool fail, long n, long q)
        : A_(A), Rv_(Rv), y_(y), have_y_(have_y), fail_(fail), n_(n), q_(q) {}
    bool freeze(const Data&) override { return true; }
    std::pair<bool, Data> measure(const Data&) const override { return std::make_pair(have_y_, Data(y_)); }
    std::pair<bool, Data> predictedMeasure(const Ref<const MatrixXd>& cur) const override {
        if (fail_) return std::make_pair(false, Data());
        MatrixXd p = A_ * cur;
        return std::make_pair(true, Data(std::move(p)));
    }
    std::pair<bool, Data> innovation(const Data& pred, const Data& meas) const override {
        MatrixXd innovation = -(any::any_cast<MatrixXd>(pred).colwise() - any::any_cast<MatrixXd>(meas).col(0));
        return std::make_pair(true, Data(std::move(innovation)));
    }
    std::pair<bool, MatrixXd> getNoiseCovarianceMatrix() const override { return std::make_pair(true, Rv_); }
    VectorDescription getInputDescription() const override { return VectorDescription(n_, 0, q_); }
    VectorDescription getMeasurementDescription() const override { return VectorDescription(A_.rows(), 0, mnoise_); }
};

static void dump(const std::string& pre, const GaussianMixture& g) {
    for (long i = 0; i < (long)g.components; i++) {
        vf::out_mat(pre + "mean" + std::to_string(i), g.mean(i));
        vf::out_mat(pre + "cov" + std::to_string(i), g.covariance(i));
    }
}
static bool same(const GaussianMixture& a, const GaussianMixture& b) {
    return vf::bit_equal(a.mean(), b.mean()) && vf::bit_equal(a.covariance(), b.covariance()) && vf::bit_equal(a.weight(), b.weight());
}

int main() {
    vf::Case c;
    while (vf::read_case(std::cin, c)) {
        const MatrixXd& params = c.mat("params");
        const double alpha = params(0, 0), beta = params(0, 1), kappa = params(0, 2);
        const long n = c.integer("n"), q = c.integer("q"); const bool generic = c.integer("generic") != 0;
        const MatrixXd& means = c.mat("means"); const MatrixXd& covs = c.mat("covs");
        const long comps = means.cols();
        GaussianMixture in(comps, n);
        in.mean() = means; in.covariance() = covs; in.weight() = c.mat("weights");
        GaussianMixture in_copy(in);
        vf::out_begin(c.id);
        if (c.kind == "predict") {
            const MatrixXd& F = c.mat("F"); const MatrixXd& Q = c.mat("Q"); const MatrixXd& A = c.mat("A");
            std::unique_ptr<UKFPrediction> ukf;
            MatrixXd Qeff = Q;
            {
                vf::Entry e("UKFPrediction::UKFPrediction");
                if (generic) {
                    const MatrixXd& B = c.mat("B");
                    Qeff = B * Q * B.transpose();
                    ukf.reset(new UKFPrediction(std::unique_ptr<StateModel>(new NoiseInputStateModel(A, Q, n, q)), alpha, beta, kappa));
                } else {
                    std::unique_ptr<AdditiveStateModel> sm(new LTI(F, Q));
                    if (c.has_mat("exo_c")) sm->add_exogenous_model(std::unique_ptr<ExogenousModel>(new ConstExo(c.mat("exo_c"))));
                    ukf.reset(new UKFPrediction(std::move(sm), alpha, beta, kappa));
                }
            }
            if (c.integer("skip_pred")) ukf->skip("prediction", true);
            else if (c.integer("skip_state")) ukf->skip("state", true);
            // the output object may have another shape: the unscented prediction assigns the whole mixture
            const long dshape = c.has_int("out_shape") ? c.integer("out_shape") : 0;
            GaussianMixture pred(comps + dshape, n + dshape);
            pred.mean().setConstant(7.25); pred.covariance().setConstant(-3.5); pred.weight().setConstant(0.125);
            { vf::Entry e("UKFPrediction::predict"); ukf->predict(in, pred); }
            vf::out_int("components", pred.components);
            vf::out_int("dim", pred.dim);
            dump("", pred);
            vf::out_mat("weights", pred.weight().transpose());
            // the implementation's own Kalman prediction on the same inputs
            std::unique_ptr<LinearStateModel> ksm(new LTI(F, Qeff));
            if (!generic && c.has_mat("exo_c")) ksm->add_exogenous_model(std::unique_ptr<ExogenousModel>(new ConstExo(c.mat("exo_c"))));
            KFPrediction kf(std::move(ksm));
            GaussianMixture kpred(comps, n);
            { vf::Entry e("KFPrediction::predict"); kf.predict(in, kpred); }
            dump("kf_", kpred);
        } else {
            const long m = c.integer("m");
            const MatrixXd& H = c.mat("H"); const MatrixXd& R = c.mat("R"); const MatrixXd& A = c.mat("A"); const MatrixXd& y = c.mat("y");
            const bool have_y = c.integer("have_y") != 0, fail = c.integer("fail") != 0;
            const long mnoise = c.has_int("mnoise") ? c.integer("mnoise") : 0;   // noise components of the measurement description
            std::unique_ptr<UKFCorrection> ukf;
            ServedLTI* served = nullptr; NoiseInputMeasModel* noisy = nullptr;
            MatrixXd Reff = R;
            {
                vf::Entry e("UKFCorrection::UKFCorrection");
                if (generic) {
                    const MatrixXd& D = c.mat("D");
                    Reff = D * R * D.transpose();
                    noisy = new NoiseInputMeasModel(A, R, y, have_y, fail, n, q);
                    noisy->mnoise_ = mnoise;
                    ukf.reset(new UKFCorrection(std::unique_ptr<MeasurementModel>(noisy), alpha, beta, kappa, c.integer("online") != 0));
                } else {
                    served = new ServedLTI(H, R, y, have_y, fail);
                    served->mnoise_ = mnoise;
                    ukf.reset(new UKFCorrection(std::unique_ptr<AdditiveMeasurementModel>(served), alpha, beta, kappa));
                }
            }
            GaussianMixture corr(c.mat("old_means").cols(), n);
            if (c.has_int("warm") && c.integer("warm")) {
                // an earlier, successful correction by the same object (measurement y0), into a scratch output
                vf::Entry e("UKFCorrection::correct(warm-up)");
                GaussianMixture scratch(c.mat("old_means").cols(), n);
                if (served) { served->y_ = c.mat("y0"); served->have_y_ = true; served->fail_ = false; }
                if (noisy) { noisy->y_ = c.mat("y0"); noisy->have_y_ = true; noisy->fail_ = false; }
                ukf->freeze_measurements();
                ukf->correct(in, scratch);
                if (served) { served->y_ = y; served->have_y_ = have_y; served->fail_ = fail; }
                if (noisy) { noisy->y_ = y; noisy->have_y_ = have_y; noisy->fail_ = fail; }
            }
            if (c.integer("skip")) ukf->skip(true);
            corr.mean() = c.mat("old_means"); corr.covariance() = c.mat("old_covs"); corr.weight() = c.mat("old_weights");
            {
                vf::Entry e("UKFCorrection::correct");
                ukf->freeze_measurements();
                ukf->correct(in, corr);
            }
            bool ok; VectorXd lik;
            { vf::Entry e("UKFCorrection::getLikelihood"); std::tie(ok, lik) = ukf->getLikelihood(); }
            vf::out_int("components", corr.components);
            dump("", corr);
            vf::out_mat("weights", corr.weight().transpose());
            vf::out_int("lik_valid", ok ? 1 : 0);
            if (ok) vf::out_mat("lik", lik.transpose());
            // the implementation's own Kalman correction on the same inputs
            KFCorrection kf(std::unique_ptr<LinearMeasurementModel>(new ServedLTI(H, Reff, y, true, false)));
            GaussianMixture kcorr(comps, n);
            { vf::Entry e("KFCorrection::correct"); kf.freeze_measurements(); kf.correct(in, kcorr); }
            bool kok; VectorXd klik;
            { vf::Entry e("KFCorrection::getLikelihood"); std::tie(kok, klik) = kf.getLikelihood(); }
            dump("kf_", kcorr);
            for (long i = 0; i < comps; i++) vf::out_num("kf_lik" + std::to_string(i), kok && i < klik.size() ? klik(i) : NAN);
        }
        vf::out_int("input_unchanged", same(in, in_copy) ? 1 : 0);
        vf::out_end();
    }
    return 0;
}
