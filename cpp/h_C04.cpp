// h_C04.cpp — harness for C04: ONE UKFPrediction resp. ONE UKFCorrection object (additive and generic
// constructors) driven through a SEQUENCE of calls over live, time-varying linear-Gaussian models, each call
// compared with KFPrediction / KFCorrection of the implementation itself (a fresh Kalman object per call).
//
// Object level: ints n (state rows), circ (the last circ of them Euler-circular), q (noise inputs, generic), generic,
//   nsteps, intrude, online (generic correction: update_weights_online); mat params (alpha beta kappa);
//   word hows, one token per call, saying how the live model reached the operands of that call:
//     first        first use of the fresh object
//     same         nothing changed in the model since the previous call
//     set          the harness changed the model's matrices through setters
//     time         ... through StateModel::setSamplingTime(index) of the time-varying model (prediction only)
//     movector     a new object was move-constructed from the (used) object; model unchanged
//     movector+set move-constructed, then the matrices changed
//     moveassign   the (used) object was move-assigned from another, used, object holding the model of this call
//                  (prediction only: UKFCorrection has no move assignment)
// Per call t (suffix _s<t>) the operands are what the live model holds at that call:
//   predict: F (n x n), B (n x q), A (additive: F; generic: [F B]), Q (additive: n x n; generic: Qw q x q), optional
//            exo_c (n x 1, additive only: constant exogenous input; present at every call or at none), means (n x comps),
//            covs (n x n*comps), weights (comps x 1); ints skip_pred skip_state out_shape (extra components / rows of
//            the output object handed to predict).
//   correct: ints n q (may differ from the object's only when generic && online) m skip have_y fail (no predicted
//            measurement) fail_innov (no innovation) mnoise (noise
//            components declared by getMeasurementDescription); H (m x n), D (m x q), A (additive: H; generic: [H D]),
//            R (additive: m x m; generic: Rv q x q), y (m x 1), means, covs, weights, old_means, old_covs, old_weights
//            (content of the output object); int alias: correct(g, g), the output object is the input object.
// Object lifetime (meta lifetime = fresh | moved | moved_after_use | assigned | assigned_after_use): the property is about every
//   UKFPrediction / UKFCorrection object however it was obtained.  moved: the subject is move-constructed from a fresh
//   object before the first call; moved_after_use: from an object that has already run a complete step (operands of call
//   0); assigned / assigned_after_use (UKFPrediction only): the subject is an object built over another model (and, after
//   use, used with it; other unscented parameters; int target_generic: built by the same or the other constructor) that is
//   then move-assigned from the fresh / used object holding the case's model.
// intrude = 1: inside every callback of the subject's models (state, exogenous, measurement) an independent twin
//   object (same constructor, its own model with other data of the same shapes) runs a complete step.
#define VF_MAIN
#include "common.hpp"
#include <BayesFilters/ExogenousModel.h>
#include <BayesFilters/GaussianMixture.h>
#include <BayesFilters/KFCorrection.h>
#include <BayesFilters/KFPrediction.h>
#include <BayesFilters/LTIMeasurementModel.h>
#include <BayesFilters/LTIStateModel.h>
#include <BayesFilters/UKFCorrection.h>
#include <BayesFilters/UKFPrediction.h>

using namespace bfl;
using namespace Eigen;

struct Hooked {
    bool intrudes_ = false;
    void hook() const { if (intrudes_) vf::intrude(); }
};

// constant exogenous input u(X) = c 1^T; c is changed by the harness between calls
struct VarExo : public ExogenousModel, public Hooked {
    MatrixXd c_; long lin_, circ_;
    VarExo(const MatrixXd& c, long lin, long circ) : c_(c), lin_(lin), circ_(circ) {}
    void propagate(const Ref<const MatrixXd>& cur, Ref<MatrixXd> prop) override { hook(); prop = c_.replicate(1, cur.cols()); }
    bool setProperty(const std::string&) override { return false; }
    VectorDescription getStateDescription() const override { return VectorDescription(lin_, circ_); }
};

// x' = F x (+ c) + w, noise additive; F, Q set directly or selected by setSamplingTime(index)
struct TVAdditive : public LinearStateModel, public Hooked {
    MatrixXd F_, Q_; std::vector<MatrixXd> Fs_, Qs_; long lin_, circ_;
    TVAdditive(const MatrixXd& F, const MatrixXd& Q, long lin, long circ) : F_(F), Q_(Q), lin_(lin), circ_(circ) {}
    void propagate(const Ref<const MatrixXd>& cur, Ref<MatrixXd> prop) override { hook(); LinearStateModel::propagate(cur, prop); }
    MatrixXd getStateTransitionMatrix() override { hook(); return F_; }
    MatrixXd getNoiseCovarianceMatrix() override { hook(); return Q_; }
    MatrixXd getJacobian() override { return F_; }
    bool setProperty(const std::string&) override { return false; }
    VectorDescription getStateDescription() override { hook(); return VectorDescription(lin_, circ_); }
    bool setSamplingTime(const double& t) override { const std::size_t i = static_cast<std::size_t>(t); F_ = Fs_.at(i); Q_ = Qs_.at(i); return true; }
    void set(const MatrixXd& F, const MatrixXd& Q) { F_ = F; Q_ = Q; }
};

// x' = [F B] [x; w], noise enters through the model
struct TVNoiseInput : public StateModel, public Hooked {
    MatrixXd A_, Qw_; std::vector<MatrixXd> As_, Qs_; long lin_, circ_, q_;
    TVNoiseInput(const MatrixXd& A, const MatrixXd& Qw, long lin, long circ, long q) : A_(A), Qw_(Qw), lin_(lin), circ_(circ), q_(q) {}
    void propagate(const Ref<const MatrixXd>& cur, Ref<MatrixXd> prop) override { hook(); prop = A_.leftCols(lin_ + circ_) * cur.topRows(lin_ + circ_); }
    void motion(const Ref<const MatrixXd>& cur, Ref<MatrixXd> mot) override { hook(); mot = A_ * cur; }
    bool setProperty(const std::string&) override { return false; }
    MatrixXd getNoiseCovarianceMatrix() override { hook(); return Qw_; }
    VectorDescription getInputDescription() override { hook(); return VectorDescription(lin_, circ_, q_); }
    VectorDescription getStateDescription() override { hook(); return VectorDescription(lin_, circ_); }
    bool setSamplingTime(const double& t) override { const std::size_t i = static_cast<std::size_t>(t); A_ = As_.at(i); Qw_ = Qs_.at(i); return true; }
    void set(const MatrixXd& A, const MatrixXd& Qw) { A_ = A; Qw_ = Qw; }
};

// plain time-invariant model for the Kalman reference
struct LTI : public LTIStateModel {
    long lin_, circ_;
    LTI(const MatrixXd& F, const MatrixXd& Q, long lin, long circ) : LTIStateModel(F, Q), lin_(lin), circ_(circ) {}
    VectorDescription getStateDescription() override { return VectorDescription(lin_, circ_); }
};

// y = H x + v, additive; serves the call's measurement
struct ServedLTI : public LTIMeasurementModel, public Hooked {
    MatrixXd y_; bool have_y_ = true, fail_ = false, innov_fail_ = false; long lin_, circ_; long mnoise_ = 0;
    ServedLTI(const MatrixXd& H, const MatrixXd& R, const MatrixXd& y, long lin, long circ)
        : LTIMeasurementModel(H, R), y_(y), lin_(lin), circ_(circ) {}
    void set(const MatrixXd& H, const MatrixXd& R) { H_ = H; R_ = R; }
    bool freeze(const Data&) override { hook(); return true; }
    std::pair<bool, Data> measure(const Data&) const override { hook(); return std::make_pair(have_y_, Data(y_)); }
    std::pair<bool, Data> predictedMeasure(const Ref<const MatrixXd>& cur) const override {
        hook();
        if (fail_) return std::make_pair(false, Data());
        return LTIMeasurementModel::predictedMeasure(cur);
    }
    std::pair<bool, Data> innovation(const Data& p, const Data& m) const override {
        hook();
        if (innov_fail_) return std::make_pair(false, Data());
        return LTIMeasurementModel::innovation(p, m);
    }
    std::pair<bool, MatrixXd> getNoiseCovarianceMatrix() const override { hook(); return LTIMeasurementModel::getNoiseCovarianceMatrix(); }
    MatrixXd getMeasurementMatrix() const override { hook(); return LTIMeasurementModel::getMeasurementMatrix(); }
    VectorDescription getInputDescription() const override { hook(); return VectorDescription(lin_, circ_, H_.rows()); }
    VectorDescription getMeasurementDescription() const override { hook(); return VectorDescription(H_.rows(), 0, mnoise_); }
};

// y = [H D] [x; v], noise enters through the model
struct NoiseInputMeasModel : public MeasurementModel, public Hooked {
    MatrixXd A_, Rv_, y_; bool have_y_ = true, fail_ = false, innov_fail_ = false; long lin_, circ_, q_; long mnoise_ = 0;
    NoiseInputMeasModel(const MatrixXd& A, const MatrixXd& Rv, const MatrixXd& y, long lin, long circ, long q)
        : A_(A), Rv_(Rv), y_(y), lin_(lin), circ_(circ), q_(q) {}
    bool freeze(const Data&) override { hook(); return true; }
    std::pair<bool, Data> measure(const Data&) const override { hook(); return std::make_pair(have_y_, Data(y_)); }
    std::pair<bool, Data> predictedMeasure(const Ref<const MatrixXd>& cur) const override {
        hook();
        if (fail_) return std::make_pair(false, Data());
        MatrixXd p = A_ * cur;
        return std::make_pair(true, Data(std::move(p)));
    }
    std::pair<bool, Data> innovation(const Data& pred, const Data& meas) const override {
        hook();
        if (innov_fail_) return std::make_pair(false, Data());
        MatrixXd innovation = -(any::any_cast<MatrixXd>(pred).colwise() - any::any_cast<MatrixXd>(meas).col(0));
        return std::make_pair(true, Data(std::move(innovation)));
    }
    std::pair<bool, MatrixXd> getNoiseCovarianceMatrix() const override { hook(); return std::make_pair(true, Rv_); }
    VectorDescription getInputDescription() const override { hook(); return VectorDescription(lin_, circ_, q_); }
    VectorDescription getMeasurementDescription() const override { hook(); return VectorDescription(A_.rows(), 0, mnoise_); }
};

static std::string sfx(const std::string& n, long t) { return n + "_s" + std::to_string(t); }

static void dump(const std::string& pre, long t, const GaussianMixture& g) {
    for (long i = 0; i < (long)g.components; i++) {
        vf::out_mat(sfx(pre + "mean" + std::to_string(i), t), g.mean(i));
        vf::out_mat(sfx(pre + "cov" + std::to_string(i), t), g.covariance(i));
    }
}
static bool same(const GaussianMixture& a, const GaussianMixture& b) {
    return a.components == b.components && a.dim == b.dim && vf::bit_equal(a.mean(), b.mean()) && vf::bit_equal(a.covariance(), b.covariance()) && vf::bit_equal(a.weight(), b.weight());
}
// other data of the same shape (twin objects of the re-entrancy probe)
static MatrixXd other(const MatrixXd& a) { return (-1.75 * a.array() + 0.375).matrix(); }

// ---------------------------------------------------------------------------------------------------------------
struct PredSubject {
    std::unique_ptr<UKFPrediction> ukf;
    TVAdditive* add = nullptr; TVNoiseInput* gen = nullptr; VarExo* exo = nullptr;
};

static PredSubject make_pred(const vf::Case& c, long t, bool generic, long lin, long circ, long q, const MatrixXd& params, bool with_tables, long nsteps, bool hooks) {
    PredSubject s;
    vf::Entry e("UKFPrediction::UKFPrediction");
    if (generic) {
        s.gen = new TVNoiseInput(c.mat(sfx("A", t)), c.mat(sfx("Q", t)), lin, circ, q);
        s.gen->intrudes_ = hooks;
        if (with_tables) for (long j = 0; j < nsteps; j++) { s.gen->As_.push_back(c.mat(sfx("A", j))); s.gen->Qs_.push_back(c.mat(sfx("Q", j))); }
        s.ukf.reset(new UKFPrediction(std::unique_ptr<StateModel>(s.gen), params(0, 0), params(0, 1), params(0, 2)));
    } else {
        s.add = new TVAdditive(c.mat(sfx("F", t)), c.mat(sfx("Q", t)), lin, circ);
        s.add->intrudes_ = hooks;
        if (with_tables) for (long j = 0; j < nsteps; j++) { s.add->Fs_.push_back(c.mat(sfx("F", j))); s.add->Qs_.push_back(c.mat(sfx("Q", j))); }
        std::unique_ptr<AdditiveStateModel> sm(s.add);
        if (c.has_mat(sfx("exo_c", t))) {
            s.exo = new VarExo(c.mat(sfx("exo_c", t)), lin, circ);
            s.exo->intrudes_ = hooks;
            sm->add_exogenous_model(std::unique_ptr<ExogenousModel>(s.exo));
        }
        s.ukf.reset(new UKFPrediction(std::move(sm), params(0, 0), params(0, 1), params(0, 2)));
    }
    return s;
}

static void run_predict(const vf::Case& c) {
    const MatrixXd& params = c.mat("params");
    const long n = c.integer("n"), q = c.integer("q"), circ = c.has_int("circ") ? c.integer("circ") : 0, lin = n - circ;
    const bool generic = c.integer("generic") != 0;
    const long nsteps = c.integer("nsteps");
    const bool intrude = c.has_int("intrude") && c.integer("intrude") != 0;
    const std::vector<std::string>& hows = c.word("hows");
    PredSubject s = make_pred(c, 0, generic, lin, circ, q, params, true, nsteps, intrude);
    // the twin of the re-entrancy probe: same constructor, own model, other data of the same shapes
    PredSubject twin;
    if (intrude) twin = make_pred(c, 0, generic, lin, circ, q, params, false, nsteps, false);
    const std::string lifetime = c.m("lifetime", "fresh");
    long relocations = 0;
    auto use_once = [&](UKFPrediction& u, double shift) {
        const MatrixXd& m0 = c.mat("means_s0");
        GaussianMixture a(m0.cols(), lin, circ), b(m0.cols(), lin, circ);
        a.mean() = (m0.array() + shift).matrix(); a.covariance() = c.mat("covs_s0"); a.weight() = c.mat("weights_s0");
        vf::Entry e("UKFPrediction::predict (before the move)");
        u.predict(a, b);
    };
    if (lifetime == "moved_after_use" || lifetime == "assigned_after_use") use_once(*s.ukf, 0.0);
    if (lifetime == "moved" || lifetime == "moved_after_use") {
        vf::Entry e("UKFPrediction::UKFPrediction(UKFPrediction&&)");
        std::unique_ptr<UKFPrediction> k2(new UKFPrediction(std::move(*s.ukf)));
        s.ukf = std::move(k2); relocations++;
    } else if (lifetime == "assigned" || lifetime == "assigned_after_use") {
        // the target: an object of its own - other unscented parameters, its own model holding other data, built (int
        // target_generic) by the same or by the other constructor
        const bool tgen = c.has_int("target_generic") ? c.integer("target_generic") != 0 : generic;
        const double a2 = 0.7 * params(0, 0) + 0.2, b2 = params(0, 1) + 0.5, k2 = params(0, 2) + 0.25;
        PredSubject target;
        {
            vf::Entry e("UKFPrediction::UKFPrediction");
            const MatrixXd F2 = other(c.mat("F_s0"));
            if (tgen) {
                MatrixXd A2(n, n + 1); A2 << F2, MatrixXd::Ones(n, 1);
                target.gen = new TVNoiseInput(A2, MatrixXd::Identity(1, 1) * 0.5, lin, circ, 1);
                target.ukf.reset(new UKFPrediction(std::unique_ptr<StateModel>(target.gen), a2, b2, k2));
            } else {
                target.add = new TVAdditive(F2, MatrixXd::Identity(n, n) * 0.5, lin, circ);
                target.ukf.reset(new UKFPrediction(std::unique_ptr<AdditiveStateModel>(target.add), a2, b2, k2));
            }
        }
        if (lifetime == "assigned_after_use") use_once(*target.ukf, 1.0);
        { vf::Entry e("UKFPrediction::operator=(UKFPrediction&&)"); *target.ukf = std::move(*s.ukf); }
        s.ukf = std::move(target.ukf); relocations++;      // s.add / s.gen / s.exo still point to the model, now owned by the new subject
    }
    vf::out_begin(c.id);
    vf::out_int("relocations", relocations);
    for (long t = 0; t < nsteps; t++) {
        const std::string h = t < (long)hows.size() ? hows[t] : "first";
        const MatrixXd& F = c.mat(sfx("F", t)); const MatrixXd& Q = c.mat(sfx("Q", t)); const MatrixXd& A = c.mat(sfx("A", t));
        const bool have_exo = c.has_mat(sfx("exo_c", t));
        if (h == "movector" || h == "movector+set") {
            vf::Entry e("UKFPrediction::UKFPrediction(UKFPrediction&&)");
            std::unique_ptr<UKFPrediction> k2(new UKFPrediction(std::move(*s.ukf)));
            s.ukf = std::move(k2);
        }
        if (h == "set" || h == "movector+set") {
            if (s.gen) s.gen->set(A, Q); else s.add->set(F, Q);
            if (s.exo && have_exo) s.exo->c_ = c.mat(sfx("exo_c", t));
        } else if (h == "time") {
            { vf::Entry e("StateModel::setSamplingTime"); s.ukf->getStateModel().setSamplingTime(static_cast<double>(t)); }
            if (s.exo && have_exo) s.exo->c_ = c.mat(sfx("exo_c", t));
        } else if (h == "moveassign") {
            // a donor that has already predicted once with ITS model (the model of this call), then moved into the subject
            PredSubject d = make_pred(c, t, generic, lin, circ, q, params, true, nsteps, intrude);
            GaussianMixture a(2, lin, circ), b(2, lin, circ);
            a.mean().setConstant(0.25); for (int i = 0; i < 2; i++) a.covariance(i) = 0.01 * MatrixXd::Identity(n, n);
            vf::clear_intruder();
            d.ukf->predict(a, b);
            { vf::Entry e("UKFPrediction::operator=(UKFPrediction&&)"); *s.ukf = std::move(*d.ukf); }
            s.add = d.add; s.gen = d.gen; s.exo = d.exo;
        }
        const MatrixXd& means = c.mat(sfx("means", t)); const MatrixXd& covs = c.mat(sfx("covs", t));
        const long comps = means.cols();
        GaussianMixture in(comps, lin, circ);
        in.mean() = means; in.covariance() = covs; in.weight() = c.mat(sfx("weights", t));
        GaussianMixture in_copy(in);
        if (intrude) {
            const MatrixXd A2 = other(generic ? A : F), Q2 = 3.0 * Q, m2 = (0.5 * means.array() + 1.0).matrix(), P2 = 2.0 * covs;
            MatrixXd c2; if (have_exo) c2 = other(c.mat(sfx("exo_c", t)));
            PredSubject* tw = &twin;
            vf::set_intruder([=]() {
                if (tw->gen) tw->gen->set(A2, Q2); else tw->add->set(A2, Q2);
                if (tw->exo && c2.size()) tw->exo->c_ = c2;
                GaussianMixture p2(comps, lin, circ), o2(comps, lin, circ);
                p2.mean() = m2; p2.covariance() = P2;
                tw->ukf->predict(p2, o2);
            });
        }
        // skip flags of this call (cleared first: skip("prediction", false) clears all three)
        s.ukf->skip("prediction", false);
        if (c.integer(sfx("skip_pred", t))) s.ukf->skip("prediction", true);
        else if (c.integer(sfx("skip_state", t))) s.ukf->skip("state", true);
        // the output object may have another shape: the unscented prediction assigns the whole mixture
        const long dshape = c.has_int(sfx("out_shape", t)) ? c.integer(sfx("out_shape", t)) : 0;
        GaussianMixture pred(comps + dshape, n + dshape);
        pred.mean().setConstant(7.25); pred.covariance().setConstant(-3.5); pred.weight().setConstant(0.125);
        { vf::Entry e("UKFPrediction::predict"); s.ukf->predict(in, pred); }
        if (intrude) vf::out_int(sfx("intruder_calls", t), vf::intruder_state().calls);
        vf::clear_intruder();
        vf::out_int(sfx("components", t), pred.components);
        vf::out_int(sfx("dim", t), pred.dim);
        vf::out_int(sfx("dim_circular", t), pred.dim_circular);
        dump("", t, pred);
        vf::out_mat(sfx("weights", t), pred.weight().transpose());
        vf::out_int(sfx("input_unchanged", t), same(in, in_copy) ? 1 : 0);
        // the implementation's own Kalman prediction on the same inputs (a fresh object per call)
        MatrixXd Qeff = Q;
        if (generic) { const MatrixXd& B = c.mat(sfx("B", t)); Qeff = B * Q * B.transpose(); }
        std::unique_ptr<LinearStateModel> ksm(new LTI(F, Qeff, lin, circ));
        if (!generic && have_exo) ksm->add_exogenous_model(std::unique_ptr<ExogenousModel>(new VarExo(c.mat(sfx("exo_c", t)), lin, circ)));
        KFPrediction kf(std::move(ksm));
        GaussianMixture kpred(comps, lin, circ);
        { vf::Entry e("KFPrediction::predict"); kf.predict(in, kpred); }
        dump("kf_", t, kpred);
    }
    vf::out_end();
}

// ---------------------------------------------------------------------------------------------------------------
struct CorrSubject {
    std::unique_ptr<UKFCorrection> ukf;
    ServedLTI* served = nullptr; NoiseInputMeasModel* noisy = nullptr;
};

static CorrSubject make_corr(const vf::Case& c, long t, bool generic, long lin, long circ, long q, const MatrixXd& params, bool online, bool hooks) {
    CorrSubject s;
    vf::Entry e("UKFCorrection::UKFCorrection");
    if (generic) {
        s.noisy = new NoiseInputMeasModel(c.mat(sfx("A", t)), c.mat(sfx("R", t)), c.mat(sfx("y", t)), lin, circ, q);
        s.noisy->intrudes_ = hooks;
        s.ukf.reset(new UKFCorrection(std::unique_ptr<MeasurementModel>(s.noisy), params(0, 0), params(0, 1), params(0, 2), online));
    } else {
        s.served = new ServedLTI(c.mat(sfx("H", t)), c.mat(sfx("R", t)), c.mat(sfx("y", t)), lin, circ);
        s.served->intrudes_ = hooks;
        s.ukf.reset(new UKFCorrection(std::unique_ptr<AdditiveMeasurementModel>(s.served), params(0, 0), params(0, 1), params(0, 2)));
    }
    return s;
}

static void run_correct(const vf::Case& c) {
    const MatrixXd& params = c.mat("params");
    const long circ = c.has_int("circ") ? c.integer("circ") : 0;
    const bool generic = c.integer("generic") != 0;
    const bool online = c.has_int("online") && c.integer("online") != 0;
    const long nsteps = c.integer("nsteps");
    const bool intrude = c.has_int("intrude") && c.integer("intrude") != 0;
    const std::vector<std::string>& hows = c.word("hows");
    CorrSubject s = make_corr(c, 0, generic, c.integer("n") - circ, circ, c.integer("q"), params, online, intrude);
    CorrSubject twin;
    if (intrude) twin = make_corr(c, 0, generic, c.integer("n") - circ, circ, c.integer("q"), params, online, false);
    const std::string lifetime = c.m("lifetime", "fresh");
    long relocations = 0;
    if (lifetime == "moved_after_use") {
        const MatrixXd& m0 = c.mat("means_s0");
        GaussianMixture a(m0.cols(), c.integer("n") - circ, circ), b(m0.cols(), c.integer("n") - circ, circ);
        a.mean() = m0; a.covariance() = c.mat("covs_s0"); a.weight() = c.mat("weights_s0");
        vf::Entry e("UKFCorrection::correct (before the move)");
        s.ukf->freeze_measurements(); s.ukf->correct(a, b); s.ukf->getLikelihood();
    }
    if (lifetime == "moved" || lifetime == "moved_after_use") {
        vf::Entry e("UKFCorrection::UKFCorrection(UKFCorrection&&)");
        std::unique_ptr<UKFCorrection> k2(new UKFCorrection(std::move(*s.ukf)));
        s.ukf = std::move(k2); relocations++;
    }
    vf::out_begin(c.id);
    vf::out_int("relocations", relocations);
    for (long t = 0; t < nsteps; t++) {
        const std::string h = t < (long)hows.size() ? hows[t] : "first";
        const long n = c.has_int(sfx("n", t)) ? c.integer(sfx("n", t)) : c.integer("n");
        const long q = c.has_int(sfx("q", t)) ? c.integer(sfx("q", t)) : c.integer("q");
        const long lin = n - circ;
        const MatrixXd& H = c.mat(sfx("H", t)); const MatrixXd& R = c.mat(sfx("R", t)); const MatrixXd& A = c.mat(sfx("A", t)); const MatrixXd& y = c.mat(sfx("y", t));
        const bool have_y = c.integer(sfx("have_y", t)) != 0, fail = c.integer(sfx("fail", t)) != 0;
        const bool innov_fail = c.has_int(sfx("fail_innov", t)) && c.integer(sfx("fail_innov", t)) != 0;
        const long mnoise = c.has_int(sfx("mnoise", t)) ? c.integer(sfx("mnoise", t)) : 0;
        if (h == "movector" || h == "movector+set") {
            vf::Entry e("UKFCorrection::UKFCorrection(UKFCorrection&&)");
            std::unique_ptr<UKFCorrection> k2(new UKFCorrection(std::move(*s.ukf)));
            s.ukf = std::move(k2);
        }
        if (h != "same" && h != "movector") {
            if (s.noisy) { s.noisy->A_ = A; s.noisy->Rv_ = R; s.noisy->lin_ = lin; s.noisy->q_ = q; }
            else s.served->set(H, R);
        }
        // the measurement of this call, its availability and the description's noise components are data, not model
        if (s.noisy) { s.noisy->y_ = y; s.noisy->have_y_ = have_y; s.noisy->fail_ = fail; s.noisy->innov_fail_ = innov_fail; s.noisy->mnoise_ = mnoise; }
        else { s.served->y_ = y; s.served->have_y_ = have_y; s.served->fail_ = fail; s.served->innov_fail_ = innov_fail; s.served->mnoise_ = mnoise; }
        const MatrixXd& means = c.mat(sfx("means", t)); const MatrixXd& covs = c.mat(sfx("covs", t));
        const long comps = means.cols();
        GaussianMixture in(comps, lin, circ);
        in.mean() = means; in.covariance() = covs; in.weight() = c.mat(sfx("weights", t));
        GaussianMixture in_copy(in);
        if (intrude) {
            const MatrixXd A2 = other(generic ? A : H), R2 = 3.0 * R, y2 = (0.5 * y.array() - 1.0).matrix(), m2 = (0.5 * means.array() + 1.0).matrix(), P2 = 2.0 * covs;
            CorrSubject* tw = &twin;
            vf::set_intruder([=]() {
                if (tw->noisy) { tw->noisy->A_ = A2; tw->noisy->Rv_ = R2; tw->noisy->y_ = y2; tw->noisy->lin_ = lin; tw->noisy->q_ = q; }
                else { tw->served->set(A2, R2); tw->served->y_ = y2; }
                GaussianMixture p2(comps, lin, circ), c2(comps, lin, circ);
                p2.mean() = m2; p2.covariance() = P2;
                tw->ukf->freeze_measurements(); tw->ukf->correct(p2, c2); tw->ukf->getLikelihood();
            });
        }
        s.ukf->skip(c.integer(sfx("skip", t)) != 0);
        // alias: correct(g, g), the output object is the input object
        const bool alias = c.has_int(sfx("alias", t)) && c.integer(sfx("alias", t)) != 0;
        GaussianMixture corr_obj(c.mat(sfx("old_means", t)).cols(), lin, circ);
        corr_obj.mean() = c.mat(sfx("old_means", t)); corr_obj.covariance() = c.mat(sfx("old_covs", t)); corr_obj.weight() = c.mat(sfx("old_weights", t));
        GaussianMixture& corr = alias ? in : corr_obj;
        {
            vf::Entry e("UKFCorrection::correct");
            s.ukf->freeze_measurements();
            s.ukf->correct(in, corr);
        }
        bool ok; VectorXd lik;
        { vf::Entry e("UKFCorrection::getLikelihood"); std::tie(ok, lik) = s.ukf->getLikelihood(); }
        // a second query must return the same values (no hidden state consumed by the query)
        bool ok2; VectorXd lik2;
        { vf::Entry e("UKFCorrection::getLikelihood"); std::tie(ok2, lik2) = s.ukf->getLikelihood(); }
        if (intrude) vf::out_int(sfx("intruder_calls", t), vf::intruder_state().calls);
        vf::clear_intruder();
        vf::out_int(sfx("components", t), corr.components);
        vf::out_int(sfx("dim", t), corr.dim);
        dump("", t, corr);
        vf::out_mat(sfx("weights", t), corr.weight().transpose());
        vf::out_int(sfx("lik_valid", t), ok ? 1 : 0);
        if (ok) vf::out_mat(sfx("lik", t), lik.transpose());
        vf::out_int(sfx("lik_requery_same", t), (ok == ok2 && vf::bit_equal(lik, lik2)) ? 1 : 0);
        vf::out_int(sfx("input_unchanged", t), (alias || same(in, in_copy)) ? 1 : 0);
        // the implementation's own Kalman correction on the same inputs (a fresh object per call)
        MatrixXd Reff = R;
        if (generic) { const MatrixXd& D = c.mat(sfx("D", t)); Reff = D * R * D.transpose(); }
        KFCorrection kf(std::unique_ptr<LinearMeasurementModel>(new ServedLTI(H, Reff, y, lin, circ)));
        GaussianMixture kcorr(comps, lin, circ);
        { vf::Entry e("KFCorrection::correct"); kf.freeze_measurements(); kf.correct(in_copy, kcorr); }
        bool kok; VectorXd klik;
        { vf::Entry e("KFCorrection::getLikelihood"); std::tie(kok, klik) = kf.getLikelihood(); }
        dump("kf_", t, kcorr);
        for (long i = 0; i < comps; i++) vf::out_num(sfx("kf_lik" + std::to_string(i), t), kok && i < klik.size() ? klik(i) : NAN);
    }
    vf::out_end();
}

int main() {
    vf::Case c;
    while (vf::read_case(std::cin, c)) {
        if (c.kind == "predict") run_predict(c); else run_correct(c);
    }
    return 0;
}
