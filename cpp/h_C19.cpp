// h_C19.cpp — harness for C19: directional_statistics::directional_add / _sub / _mean.
// kinds: add, sub  operands a (r x c), b (r x 1), a2, b2 (same shapes: entries shifted by multiples of 2 pi)
//        mean      operands a (r x c), w (c x 1), a2 (2 pi shifts), a3 (= a + delta, common rotation)
#define VF_MAIN
#include "common.hpp"
#include <BayesFilters/directional_statistics.h>

using namespace bfl;
using namespace Eigen;

int main() {
    vf::Case c;
    while (vf::read_case(std::cin, c)) {
        vf::out_begin(c.id);
        if (c.kind == "add" || c.kind == "sub") {
            const bool add = c.kind == "add";
            const MatrixXd& a = c.mat("a"); const VectorXd b = c.mat("b").col(0);
            MatrixXd a_copy = a; VectorXd b_copy = b;
            MatrixXd res;
            if (add) { vf::Entry e("directional_statistics::directional_add"); res = directional_statistics::directional_add(a, b); }
            else     { vf::Entry e("directional_statistics::directional_sub"); res = directional_statistics::directional_sub(a, b); }
            vf::out_mat("res", res);
            vf::out_int("inputs_unchanged", vf::bit_equal(a, a_copy) && vf::bit_equal(b, b_copy) ? 1 : 0);
            if (c.has_mat("a2")) {
                const MatrixXd& a2 = c.mat("a2"); const VectorXd b2 = c.mat("b2").col(0);
                MatrixXd res2;
                if (add) { vf::Entry e("directional_statistics::directional_add"); res2 = directional_statistics::directional_add(a2, b2); }
                else     { vf::Entry e("directional_statistics::directional_sub"); res2 = directional_statistics::directional_sub(a2, b2); }
                vf::out_mat("res2", res2);
            }
        } else if (c.kind == "mean") {
            const MatrixXd& a = c.mat("a"); const VectorXd w = c.mat("w").col(0);
            VectorXd res;
            { vf::Entry e("directional_statistics::directional_mean"); res = directional_statistics::directional_mean(a, w); }
            vf::out_mat("res", res);
            for (const char* nm : {"a2", "a3"}) {
                if (!c.has_mat(nm)) continue;
                VectorXd r2;
                { vf::Entry e("directional_statistics::directional_mean"); r2 = directional_statistics::directional_mean(c.mat(nm), w); }
                vf::out_mat(std::string("res") + (nm + 1), r2);
            }
        }
        vf::out_end();
    }
    return 0;
}
