// h_C19.cpp — harness for C19: directional_statistics::directional_add / _sub / _mean.
// kinds: add, sub  operands a (r x c), b (r x 1), a2, b2 (same shapes: entries shifted by multiples of 2 pi)
//        mean      operands a (r x c), w (c x 1), a2 (2 pi shifts), a3 (= a + delta, common rotation)
// Every call is made twice: with plain matrices and with expression arguments as the library's own callers
// pass them (M.bottomRows(k), M.col(j), M.transpose()); `via_equal` reports whether the results are bit-identical.
#define VF_MAIN
#include "common.hpp"
#include <BayesFilters/directional_statistics.h>

using namespace bfl;
using namespace Eigen;

// a embedded under two junk rows, b / w embedded between two junk columns
static MatrixXd under_junk(const MatrixXd& a) {
    MatrixXd big(a.rows() + 2, a.cols());
    big.topRows(2).setConstant(123.456);
    big.bottomRows(a.rows()) = a;
    return big;
}
static MatrixXd between_junk(const VectorXd& v) {
    MatrixXd B(v.rows(), 3);
    B.col(0).setConstant(-77.0); B.col(1) = v; B.col(2).setConstant(55.5);
    return B;
}

static MatrixXd call_addsub(bool add, const MatrixXd& a, const VectorXd& b, bool& via_equal) {
    MatrixXd res;
    if (add) { vf::Entry e("directional_statistics::directional_add"); res = directional_statistics::directional_add(a, b); }
    else     { vf::Entry e("directional_statistics::directional_sub"); res = directional_statistics::directional_sub(a, b); }
    const MatrixXd big = under_junk(a), B = between_junk(b), at = a.transpose();
    MatrixXd r1, r2;
    if (add) {
        vf::Entry e("directional_statistics::directional_add[expression arguments]");
        r1 = directional_statistics::directional_add(big.bottomRows(a.rows()), B.col(1));
        r2 = directional_statistics::directional_add(at.transpose(), B.col(1));
    } else {
        vf::Entry e("directional_statistics::directional_sub[expression arguments]");
        r1 = directional_statistics::directional_sub(big.bottomRows(a.rows()), B.col(1));
        r2 = directional_statistics::directional_sub(at.transpose(), B.col(1));
    }
    via_equal = via_equal && vf::bit_equal(res, r1) && vf::bit_equal(res, r2);
    return res;
}

static VectorXd call_mean(const MatrixXd& a, const VectorXd& w, bool& via_equal) {
    VectorXd res;
    { vf::Entry e("directional_statistics::directional_mean"); res = directional_statistics::directional_mean(a, w); }
    const MatrixXd big = under_junk(a), W = between_junk(w), at = a.transpose();
    VectorXd r1, r2;
    {
        vf::Entry e("directional_statistics::directional_mean[expression arguments]");
        r1 = directional_statistics::directional_mean(big.bottomRows(a.rows()), W.col(1));
        r2 = directional_statistics::directional_mean(at.transpose(), W.col(1));
    }
    via_equal = via_equal && vf::bit_equal(res, r1) && vf::bit_equal(res, r2);
    return res;
}

int main() {
    vf::Case c;
    while (vf::read_case(std::cin, c)) {
        vf::out_begin(c.id);
        bool via_equal = true;
        if (c.kind == "add" || c.kind == "sub") {
            const bool add = c.kind == "add";
            const MatrixXd& a = c.mat("a"); const VectorXd b = c.mat("b").col(0);
            MatrixXd a_copy = a; VectorXd b_copy = b;
            MatrixXd res = call_addsub(add, a, b, via_equal);
            vf::out_mat("res", res);
            vf::out_int("inputs_unchanged", vf::bit_equal(a, a_copy) && vf::bit_equal(b, b_copy) ? 1 : 0);
            if (c.has_mat("a2")) {
                const VectorXd b2 = c.mat("b2").col(0);
                vf::out_mat("res2", call_addsub(add, c.mat("a2"), b2, via_equal));
            }
        } else if (c.kind == "mean") {
            const MatrixXd& a = c.mat("a"); const VectorXd w = c.mat("w").col(0);
            vf::out_mat("res", call_mean(a, w, via_equal));
            for (const char* nm : {"a2", "a3"}) {
                if (!c.has_mat(nm)) continue;
                vf::out_mat(std::string("res") + (nm + 1), call_mean(c.mat(nm), w, via_equal));
            }
        }
        // pure functions: concurrent callers on other data of the same shapes must get the sequential results
        {
            vf::Entry e("directional_statistics from several threads");
            std::vector<std::function<MatrixXd()>> jobs;
            for (int t = 0; t < 3; t++) {
                const MatrixXd a = vf::rotate_cols(c.mat("a"), t);
                if (c.kind == "mean") {
                    const VectorXd w = c.mat("w").col(0);
                    jobs.push_back([a, w]() { MatrixXd m = directional_statistics::directional_mean(a, w); return m; });
                } else {
                    const VectorXd b = c.mat("b").col(0) * (1.0 + t);
                    const bool add = c.kind == "add";
                    jobs.push_back([a, b, add]() { MatrixXd m = add ? directional_statistics::directional_add(a, b) : directional_statistics::directional_sub(a, b); return m; });
                }
            }
            vf::out_int("concurrent_equal", vf::concurrent_same(jobs, 30) ? 1 : 0);
        }
        vf::out_int("via_equal", via_equal ? 1 : 0);
        vf::out_end();
    }
    return 0;
}
