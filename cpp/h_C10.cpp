// h_C10.cpp — harness for C10 (control interface used from another thread): built with ThreadSanitizer.
// One case = one filter, booted, with the controlling thread (this thread) issuing the command list of the
// case while the filtering thread runs.
//   case <id> <kind> model=lti|wna exo=0|1 log=0|1 rwp=0|1 inner=kf|ukf cap=<max filtering steps> np=<particles>
//     kind: kf    KFPrediction + KFCorrection                       (GaussianFilter subclass)
//           ukf   UKFPrediction(StateModel) + UKFCorrection(MeasurementModel)        (generic, augmented)
//           ukfa  UKFPrediction(AdditiveStateModel) + UKFCorrection(AdditiveMeasurementModel)
//           sukf  KFPrediction + SUKFCorrection
//           sis   SIS with DrawParticles + BootstrapCorrection
//           gpf   SIS with GPFPrediction(inner) + GPFCorrection(inner)
//     model=wna: WhiteNoiseAcceleration (OneD) instead of an LTI state model (kf, ukfa, sukf, sis, gpf)
//     exo=1: an exogenous model is attached; log=1: enable_log() before boot; rwp=1: ResamplingWithPrior
//   word cmds  run reset reboot teardown step isrun skip:<what>:<0|1> sleep:<microseconds> yield wait
//              enlog dislog   (Logger switches: NOT part of the property's command list; probes only)
//   end
// Every case ends with teardown + wait (added if the list does not).  ThreadSanitizer reports go to stderr;
// the plug-in (props/C10.py) reads them.  Output: final step number, commands executed, max step seen.
#define VF_MAIN
#include "common.hpp"
#include <BayesFilters/BootstrapCorrection.h>
#include <BayesFilters/DrawParticles.h>
#include <BayesFilters/ExogenousModel.h>
#include <BayesFilters/GPFCorrection.h>
#include <BayesFilters/GPFPrediction.h>
#include <BayesFilters/Gaussian.h>
#include <BayesFilters/GaussianFilter.h>
#include <BayesFilters/GaussianLikelihood.h>
#include <BayesFilters/KFCorrection.h>
#include <BayesFilters/KFPrediction.h>
#include <BayesFilters/LTIMeasurementModel.h>
#include <BayesFilters/LTIStateModel.h>
#include <BayesFilters/ParticleSet.h>
#include <BayesFilters/ParticleSetInitialization.h>
#include <BayesFilters/Resampling.h>
#include <BayesFilters/ResamplingWithPrior.h>
#include <BayesFilters/SIS.h>
#include <BayesFilters/SUKFCorrection.h>
#include <BayesFilters/UKFCorrection.h>
#include <BayesFilters/UKFPrediction.h>
#include <BayesFilters/WhiteNoiseAcceleration.h>
#include <chrono>
#include <thread>
#include <unistd.h>

using namespace bfl;
using namespace Eigen;

namespace {

struct Exo : public ExogenousModel {
    MatrixXd c_;
    explicit Exo(long n) : c_(MatrixXd::Constant(n, 1, 0.01)) {}
    void propagate(const Ref<const MatrixXd>& cur, Ref<MatrixXd> prop) override { prop = 0.5 * cur + c_.replicate(1, cur.cols()); }
    bool setProperty(const std::string&) override { return false; }
    VectorDescription getStateDescription() const override { return VectorDescription(c_.rows()); }
};

struct State : public LTIStateModel {
    long n_;
    State(const MatrixXd& F, const MatrixXd& Q) : LTIStateModel(F, Q), n_(F.rows()) {}
    VectorDescription getStateDescription() override { return VectorDescription(n_); }
    MatrixXd getNoiseSample(const std::size_t num) override { return MatrixXd::Constant(n_, num, 0.001); }
    VectorXd getTransitionProbability(const Ref<const MatrixXd>& prev, const Ref<const MatrixXd>& cur) override {
        MatrixXd d = cur - getStateTransitionMatrix() * prev;
        VectorXd p(cur.cols());
        for (long j = 0; j < cur.cols(); j++) p(j) = 0.1 + 0.3 * std::exp(-0.5 * d.col(j).squaredNorm());
        return p;
    }
};

// generic (non-additive) state model: motion() takes the state augmented with the noise
struct GenState : public StateModel {
    MatrixXd F_, Q_;
    GenState(const MatrixXd& F, const MatrixXd& Q) : F_(F), Q_(Q) {}
    void propagate(const Ref<const MatrixXd>& cur, Ref<MatrixXd> prop) override { prop = F_ * cur.topRows(F_.rows()); }
    void motion(const Ref<const MatrixXd>& cur, Ref<MatrixXd> mot) override {
        if (is_skipping()) { mot = cur.topRows(F_.rows()); return; }
        mot = F_ * cur.topRows(F_.rows());
        if (cur.rows() == F_.rows() + Q_.rows()) mot += cur.bottomRows(Q_.rows());
    }
    bool setProperty(const std::string&) override { return false; }
    VectorDescription getInputDescription() override { return VectorDescription(F_.rows(), 0, Q_.rows()); }
    VectorDescription getStateDescription() override { return VectorDescription(F_.rows()); }
    MatrixXd getNoiseCovarianceMatrix() override { return Q_; }
    MatrixXd getNoiseSample(const std::size_t num) override { return MatrixXd::Constant(F_.rows(), num, 0.001); }
};

struct Meas : public LTIMeasurementModel {
    MatrixXd y_;
    Meas(const MatrixXd& H, const MatrixXd& R) : LTIMeasurementModel(H, R), y_(MatrixXd::Constant(H.rows(), 1, 0.3)) {}
    bool freeze(const Data&) override { return true; }
    std::pair<bool, Data> measure(const Data&) const override { return std::make_pair(true, Data(y_)); }
    VectorDescription getInputDescription() const override { return VectorDescription(H_.cols()); }
    VectorDescription getMeasurementDescription() const override { return VectorDescription(H_.rows()); }
};

// generic measurement model: predictedMeasure() takes the state augmented with the measurement noise
struct GenMeas : public MeasurementModel {
    MatrixXd H_, R_, y_;
    GenMeas(const MatrixXd& H, const MatrixXd& R) : H_(H), R_(R), y_(MatrixXd::Constant(H.rows(), 1, 0.3)) {}
    bool freeze(const Data&) override { return true; }
    std::pair<bool, Data> measure(const Data&) const override { return std::make_pair(true, Data(y_)); }
    std::pair<bool, Data> predictedMeasure(const Ref<const MatrixXd>& cur) const override {
        MatrixXd p = H_ * cur.topRows(H_.cols());
        if (cur.rows() == H_.cols() + R_.rows()) p += cur.bottomRows(R_.rows());
        return std::make_pair(true, Data(p));
    }
    std::pair<bool, Data> innovation(const Data& predicted, const Data& measured) const override {
        MatrixXd d = any::any_cast<MatrixXd>(measured).replicate(1, any::any_cast<MatrixXd>(predicted).cols()) - any::any_cast<MatrixXd>(predicted);
        return std::make_pair(true, Data(d));
    }
    std::pair<bool, MatrixXd> getNoiseCovarianceMatrix() const override { return std::make_pair(true, R_); }
    VectorDescription getInputDescription() const override { return VectorDescription(H_.cols(), 0, R_.rows()); }
    VectorDescription getMeasurementDescription() const override { return VectorDescription(H_.rows()); }
};

struct Init : public ParticleSetInitialization {
    bool initialize(ParticleSet& p) override {
        for (long j = 0; j < p.state().cols(); j++)
            for (long i = 0; i < p.state().rows(); i++) p.state()(i, j) = 0.1 * static_cast<double>(i + 1) + 0.01 * static_cast<double>(j);
        p.weight().setConstant(-std::log(static_cast<double>(p.state().cols())));
        return true;
    }
};

MatrixXd F2() { MatrixXd F(2, 2); F << 1.0, 0.1, 0.0, 0.95; return F; }
MatrixXd Q2() { MatrixXd Q(2, 2); Q << 0.01, 0.0, 0.0, 0.02; return Q; }
MatrixXd H2() { MatrixXd H(1, 2); H << 1.0, 0.0; return H; }
MatrixXd R1() { MatrixXd R(1, 1); R << 0.5; return R; }

struct Opt { bool exo, wna, log, rwp; std::string inner; unsigned cap, np; };

template <typename SM> std::unique_ptr<SM> make_state(const Opt& o) {
    std::unique_ptr<LinearStateModel> s;
    if (o.wna) s.reset(new WhiteNoiseAcceleration(WhiteNoiseAcceleration::Dim::OneD, 0.1, 0.5, 3u));
    else s.reset(new State(F2(), Q2()));
    if (o.exo) s->add_exogenous_model(std::unique_ptr<ExogenousModel>(new Exo(2)));
    return std::unique_ptr<SM>(s.release());
}

std::unique_ptr<GaussianPrediction> gpred(const std::string& k, const Opt& o) {
    if (k == "kf" || k == "sukf") return std::unique_ptr<GaussianPrediction>(new KFPrediction(make_state<LinearStateModel>(o)));
    if (k == "ukfa") return std::unique_ptr<GaussianPrediction>(new UKFPrediction(make_state<AdditiveStateModel>(o), 1.0, 2.0, 0.0));
    std::unique_ptr<StateModel> g(new GenState(F2(), Q2()));
    if (o.exo) g->add_exogenous_model(std::unique_ptr<ExogenousModel>(new Exo(2)));
    return std::unique_ptr<GaussianPrediction>(new UKFPrediction(std::move(g), 1.0, 2.0, 0.0));
}

std::unique_ptr<GaussianCorrection> gcorr(const std::string& k) {
    if (k == "kf") return std::unique_ptr<GaussianCorrection>(new KFCorrection(std::unique_ptr<LinearMeasurementModel>(new Meas(H2(), R1()))));
    if (k == "ukfa") return std::unique_ptr<GaussianCorrection>(new UKFCorrection(std::unique_ptr<AdditiveMeasurementModel>(new Meas(H2(), R1())), 1.0, 2.0, 0.0));
    if (k == "sukf") return std::unique_ptr<GaussianCorrection>(new SUKFCorrection(std::unique_ptr<AdditiveMeasurementModel>(new Meas(H2(), R1())), 1.0, 2.0, 0.0, 1, false));
    return std::unique_ptr<GaussianCorrection>(new UKFCorrection(std::unique_ptr<MeasurementModel>(new GenMeas(H2(), R1())), 1.0, 2.0, 0.0));
}

// Gaussian filter in the style of test_KF / test_UKF
struct GF : public GaussianFilter {
    Gaussian pred_, corr_;
    unsigned cap_;
    GF(const std::string& k, const Opt& o) : GaussianFilter(gpred(k, o), gcorr(k)), pred_(2), corr_(2), cap_(o.cap) {
        corr_.mean() << 0.2, 0.1;
        corr_.covariance() = MatrixXd::Identity(2, 2);
    }
    bool initialization_step() override { return true; }
    bool run_condition() override { return step_number() < cap_; }
    void filtering_step() override {
        prediction().predict(corr_, pred_);
        correction().freeze_measurements();
        correction().correct(pred_, corr_);
        correction().getLikelihood();
        log();
    }
    std::vector<std::string> log_file_names(const std::string& folder, const std::string& prefix) override { return {folder + "/" + prefix + "_mean"}; }
    void log() override { logger(corr_.mean().transpose()); }
};

struct PF : public SIS {
    unsigned cap_;
    static std::unique_ptr<PFPrediction> pred(const std::string& k, const Opt& o) {
        if (k == "sis") return std::unique_ptr<PFPrediction>(new DrawParticles(make_state<StateModel>(o)));
        return std::unique_ptr<PFPrediction>(new GPFPrediction(gpred(o.inner, o)));
    }
    static std::unique_ptr<PFCorrection> corr(const std::string& k, const Opt& o) {
        if (k == "sis") return std::unique_ptr<PFCorrection>(new BootstrapCorrection(std::unique_ptr<MeasurementModel>(new Meas(H2(), R1())),
                                                                                        std::unique_ptr<LikelihoodModel>(new GaussianLikelihood())));
        return std::unique_ptr<PFCorrection>(new GPFCorrection(std::unique_ptr<LikelihoodModel>(new GaussianLikelihood()), gcorr(o.inner == "ukf" ? "ukfa" : o.inner),
                                                               std::unique_ptr<StateModel>(new State(F2(), Q2())), 7u));
    }
    static std::unique_ptr<Resampling> res(const Opt& o) {
        if (o.rwp) return std::unique_ptr<Resampling>(new ResamplingWithPrior(std::unique_ptr<ParticleSetInitialization>(new Init()), 0.5, 5u));
        return std::unique_ptr<Resampling>(new Resampling(1));
    }
    PF(const std::string& k, const Opt& o)
        : SIS(o.np, 2, std::unique_ptr<ParticleSetInitialization>(new Init()), pred(k, o), corr(k, o), res(o)), cap_(o.cap) {}
    bool run_condition() override { return step_number() < cap_; }
};

struct Result { long final_step = 0, executed = 0, max_step = 0, running_seen = 0; };

template <typename Filter> Result drive(Filter& f, const std::vector<std::string>& cmds, const Opt& o) {
    Result r;
    bool waited = false, torn = false;
    const std::string dir = "/tmp/C10_logs_" + std::to_string(static_cast<long>(getpid()));
    if (o.log) { std::string c = "mkdir -p " + dir; if (std::system(c.c_str()) != 0) std::exit(4); f.enable_log(dir, "c10"); }
    f.boot();
    auto exec = [&](const std::string& c) {
        if (waited) return;
        if (c == "run") { vf::Entry e("FilteringAlgorithm::run"); f.run(); }
        else if (c == "reset") { vf::Entry e("FilteringAlgorithm::reset"); f.reset(); }
        else if (c == "reboot") { vf::Entry e("FilteringAlgorithm::reboot"); f.reboot(); }
        else if (c == "teardown") { vf::Entry e("FilteringAlgorithm::teardown"); f.teardown(); torn = true; }
        else if (c == "step") { vf::Entry e("FilteringAlgorithm::step_number"); long s = f.step_number(); if (s > r.max_step) r.max_step = s; }
        else if (c == "isrun") { vf::Entry e("FilteringAlgorithm::is_running"); if (f.is_running()) r.running_seen++; }
        else if (c == "yield") { std::this_thread::yield(); }
        else if (c == "enlog") { f.enable_log(dir, "c10"); }
        else if (c == "dislog") { f.disable_log(); }
        else if (c == "wait") { if (torn) { vf::Entry e("FilteringAlgorithm::wait"); f.wait(); waited = true; } }
        else if (c.compare(0, 6, "sleep:") == 0) { std::this_thread::sleep_for(std::chrono::microseconds(std::stol(c.substr(6)))); }
        else if (c.compare(0, 5, "skip:") == 0) {
            auto p = c.rfind(':');
            vf::Entry e("Filter::skip");
            f.skip(c.substr(5, p - 5), c.substr(p + 1) == "1");
        }
        r.executed++;
    };
    for (const auto& c : cmds) exec(c);
    if (!waited) {
        if (!torn) exec("teardown");
        exec("wait");
    }
    r.final_step = f.step_number();
    if (o.log) { f.disable_log(); std::string c = "rm -rf " + dir; if (std::system(c.c_str()) != 0) std::exit(4); }
    return r;
}

}  // namespace

int main() {
    vf::Case c;
    while (vf::read_case(std::cin, c)) {
        Opt o;
        o.exo = c.mi("exo", 0) != 0; o.wna = c.m("model", "lti") == "wna"; o.log = c.mi("log", 0) != 0; o.rwp = c.mi("rwp", 0) != 0;
        o.inner = c.m("inner", "kf"); o.cap = static_cast<unsigned>(c.mi("cap", 100000)); o.np = static_cast<unsigned>(c.mi("np", 12));
        Result r;
        if (c.kind == "sis" || c.kind == "gpf") { PF f(c.kind, o); r = drive(f, c.word("cmds"), o); }
        else { GF f(c.kind, o); r = drive(f, c.word("cmds"), o); }
        vf::out_begin(c.id);
        vf::out_int("final_step", r.final_step);
        vf::out_int("executed", r.executed);
        vf::out_int("max_step", r.max_step);
        vf::out_int("running_seen", r.running_seen);
        vf::out_end();
    }
    return 0;
}
