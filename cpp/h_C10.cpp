// h_C10.cpp — harness for C10 (control interface used from another thread): built with ThreadSanitizer.
// One case = one filter (kind kf: KF-based GaussianFilter; kind sis: bootstrap SIS), booted, with the
// controlling thread (this thread) issuing the command list of the case while the filtering thread runs.
//   case <id> kf|sis exo=0|1 cap=<max filtering steps> np=<particles>
//   word cmds  run reset reboot teardown step isrun skip:<what>:<0|1> sleep:<microseconds> yield wait
//   end
// Every case ends with teardown + wait (added if the list does not).  ThreadSanitizer reports go to stderr;
// the plug-in (props/C10.py) reads them.  Output: final step number, commands executed, max step seen.
#define VF_MAIN
#include "common.hpp"
#include <BayesFilters/BootstrapCorrection.h>
#include <BayesFilters/DrawParticles.h>
#include <BayesFilters/ExogenousModel.h>
#include <BayesFilters/Gaussian.h>
#include <BayesFilters/GaussianFilter.h>
#include <BayesFilters/GaussianLikelihood.h>
#include <BayesFilters/KFCorrection.h>
#include <BayesFilters/KFPrediction.h>
#include <BayesFilters/LTIMeasurementModel.h>
#include <BayesFilters/LTIStateModel.h>
#include <BayesFilters/ParticleSet.h>
#include <BayesFilters/ParticleSetInitialization.h>
#include <BayesFilters/Resampling.h>
#include <BayesFilters/SIS.h>
#include <chrono>
#include <thread>

using namespace bfl;
using namespace Eigen;

namespace {

struct Exo : public ExogenousModel {
    MatrixXd c_;
    explicit Exo(long n) : c_(MatrixXd::Constant(n, 1, 0.01)) {}
    void propagate(const Ref<const MatrixXd>& cur, Ref<MatrixXd> prop) override { prop = 0.5 * cur + c_.replicate(1, cur.cols()); }
    bool setProperty(const std::string&) override { return false; }
    VectorDescription getStateDescription() const override { return VectorDescription(c_.rows()); }
};

struct State : public LTIStateModel {
    long n_;
    State(const MatrixXd& F, const MatrixXd& Q) : LTIStateModel(F, Q), n_(F.rows()) {}
    VectorDescription getStateDescription() override { return VectorDescription(n_); }
    MatrixXd getNoiseSample(const std::size_t num) override { return MatrixXd::Constant(n_, num, 0.001); }
};

struct Meas : public LTIMeasurementModel {
    MatrixXd y_;
    Meas(const MatrixXd& H, const MatrixXd& R) : LTIMeasurementModel(H, R), y_(MatrixXd::Constant(H.rows(), 1, 0.3)) {}
    bool freeze(const Data&) override { return true; }
    std::pair<bool, Data> measure(const Data&) const override { return std::make_pair(true, Data(y_)); }
    VectorDescription getInputDescription() const override { return VectorDescription(H_.cols()); }
    VectorDescription getMeasurementDescription() const override { return VectorDescription(H_.rows()); }
};

struct Init : public ParticleSetInitialization {
    bool initialize(ParticleSet& p) override {
        for (long j = 0; j < p.state().cols(); j++)
            for (long i = 0; i < p.state().rows(); i++) p.state()(i, j) = 0.1 * static_cast<double>(i + 1) + 0.01 * static_cast<double>(j);
        p.weight().setConstant(-std::log(static_cast<double>(p.state().cols())));
        return true;
    }
};

MatrixXd F2() { MatrixXd F(2, 2); F << 1.0, 0.1, 0.0, 0.95; return F; }
MatrixXd Q2() { MatrixXd Q(2, 2); Q << 0.01, 0.0, 0.0, 0.02; return Q; }
MatrixXd H2() { MatrixXd H(1, 2); H << 1.0, 0.0; return H; }
MatrixXd R1() { MatrixXd R(1, 1); R << 0.5; return R; }

template <typename SM> std::unique_ptr<SM> make_state(bool exo) {
    std::unique_ptr<State> s(new State(F2(), Q2()));
    if (exo) s->add_exogenous_model(std::unique_ptr<ExogenousModel>(new Exo(2)));
    return std::unique_ptr<SM>(s.release());
}

// KF-based Gaussian filter in the style of test_KF
struct KF : public GaussianFilter {
    Gaussian pred_, corr_;
    unsigned cap_;
    KF(bool exo, unsigned cap)
        : GaussianFilter(std::unique_ptr<GaussianPrediction>(new KFPrediction(make_state<LinearStateModel>(exo))),
                         std::unique_ptr<GaussianCorrection>(new KFCorrection(std::unique_ptr<LinearMeasurementModel>(new Meas(H2(), R1()))))),
          pred_(2), corr_(2), cap_(cap) {
        corr_.mean() << 0.2, 0.1;
        corr_.covariance() = MatrixXd::Identity(2, 2);
    }
    bool initialization_step() override { return true; }
    bool run_condition() override { return step_number() < cap_; }
    void filtering_step() override {
        prediction().predict(corr_, pred_);
        correction().freeze_measurements();
        correction().correct(pred_, corr_);
    }
};

// bootstrap SIS
struct PF : public SIS {
    unsigned cap_;
    PF(bool exo, unsigned cap, unsigned np)
        : SIS(np, 2, std::unique_ptr<ParticleSetInitialization>(new Init()),
              std::unique_ptr<PFPrediction>(new DrawParticles(make_state<StateModel>(exo))),
              std::unique_ptr<PFCorrection>(new BootstrapCorrection(std::unique_ptr<MeasurementModel>(new Meas(H2(), R1())),
                                                                    std::unique_ptr<LikelihoodModel>(new GaussianLikelihood()))),
              std::unique_ptr<Resampling>(new Resampling(1))),
          cap_(cap) {}
    bool run_condition() override { return step_number() < cap_; }
};

struct Result { long final_step = 0, executed = 0, max_step = 0, running_seen = 0; };

template <typename Filter> Result drive(Filter& f, const std::vector<std::string>& cmds) {
    Result r;
    bool waited = false, torn = false;
    f.boot();
    auto exec = [&](const std::string& c) {
        if (waited) return;
        if (c == "run") { vf::Entry e("FilteringAlgorithm::run"); f.run(); }
        else if (c == "reset") { vf::Entry e("FilteringAlgorithm::reset"); f.reset(); }
        else if (c == "reboot") { vf::Entry e("FilteringAlgorithm::reboot"); f.reboot(); }
        else if (c == "teardown") { vf::Entry e("FilteringAlgorithm::teardown"); f.teardown(); torn = true; }
        else if (c == "step") { vf::Entry e("FilteringAlgorithm::step_number"); long s = f.step_number(); if (s > r.max_step) r.max_step = s; }
        else if (c == "isrun") { vf::Entry e("FilteringAlgorithm::is_running"); if (f.is_running()) r.running_seen++; }
        else if (c == "yield") { std::this_thread::yield(); }
        else if (c == "wait") { if (torn) { vf::Entry e("FilteringAlgorithm::wait"); f.wait(); waited = true; } }
        else if (c.compare(0, 6, "sleep:") == 0) { std::this_thread::sleep_for(std::chrono::microseconds(std::stol(c.substr(6)))); }
        else if (c.compare(0, 5, "skip:") == 0) {
            auto p = c.rfind(':');
            vf::Entry e("Filter::skip");
            f.skip(c.substr(5, p - 5), c.substr(p + 1) == "1");
        }
        r.executed++;
    };
    for (const auto& c : cmds) exec(c);
    if (!waited) {
        if (!torn) exec("teardown");
        exec("wait");
    }
    r.final_step = f.step_number();
    return r;
}

}  // namespace

int main() {
    vf::Case c;
    while (vf::read_case(std::cin, c)) {
        const bool exo = c.mi("exo", 0) != 0;
        const unsigned cap = static_cast<unsigned>(c.mi("cap", 100000));
        Result r;
        if (c.kind == "kf") { KF f(exo, cap); r = drive(f, c.word("cmds")); }
        else { PF f(exo, cap, static_cast<unsigned>(c.mi("np", 20))); r = drive(f, c.word("cmds")); }
        vf::out_begin(c.id);
        vf::out_int("final_step", r.final_step);
        vf::out_int("executed", r.executed);
        vf::out_int("max_step", r.max_step);
        vf::out_int("running_seen", r.running_seen);
        vf::out_end();
    }
    return 0;
}
