// h_C01.cpp — harness for C01: ONE KFCorrection object over an LTIMeasurementModel that
// serves the case's measurement, driven through `steps` successive corrections (each with its own
// H, R, y, predicted belief — dimensions and component counts may change between steps), with
// getLikelihood() queried after every correction.  Operands of step t: H_s<t>, R_s<t>, y_s<t>,
// means_s<t> (n x comps), covs_s<t> (n x n*comps), weights_s<t> (comps x 1).
#define VF_MAIN
#include "common.hpp"
#include <BayesFilters/GaussianMixture.h>
#include <BayesFilters/KFCorrection.h>
#include <BayesFilters/LTIMeasurementModel.h>
#include <BayesFilters/utils.h>
#include <memory>

using namespace bfl;
using namespace Eigen;

// Every callback first gives the "intruder" (common.hpp) a chance to run a complete, unrelated correction on another
// KFCorrection object: user code called back by the library may itself use the library.
struct ServedLTI : public LTIMeasurementModel {
    MatrixXd y_;
    bool intrudes_ = false;
    ServedLTI(const MatrixXd& H, const MatrixXd& R, const MatrixXd& y) : LTIMeasurementModel(H, R), y_(y) {}
    void set(const MatrixXd& H, const MatrixXd& R, const MatrixXd& y) { H_ = H; R_ = R; y_ = y; }
    void hook() const { if (intrudes_) vf::intrude(); }
    bool freeze(const Data&) override { hook(); return true; }
    std::pair<bool, Data> measure(const Data&) const override { hook(); return std::make_pair(true, Data(y_)); }
    std::pair<bool, MatrixXd> getNoiseCovarianceMatrix() const override { hook(); return LTIMeasurementModel::getNoiseCovarianceMatrix(); }
    MatrixXd getMeasurementMatrix() const override { hook(); return LTIMeasurementModel::getMeasurementMatrix(); }
    std::pair<bool, Data> predictedMeasure(const Ref<const MatrixXd>& x) const override { hook(); return LTIMeasurementModel::predictedMeasure(x); }
    std::pair<bool, Data> innovation(const Data& p, const Data& m) const override { hook(); return LTIMeasurementModel::innovation(p, m); }
};

int main() {
    vf::Case c;
    while (vf::read_case(std::cin, c)) {
        const long steps = c.mi("steps", 1);
        ServedLTI* served = new ServedLTI(c.mat("H_s0"), c.mat("R_s0"), c.mat("y_s0"));
        // lifetime=moved: the subject is obtained through KFCorrection's hand-written move constructor, from a fresh
        // object or (moved_after_use) from one that has already run a correction; the property is about every KFCorrection
        // object however it was obtained
        const std::string lifetime = c.m("lifetime", "fresh");
        std::unique_ptr<KFCorrection> kf_first(new KFCorrection(std::unique_ptr<LinearMeasurementModel>(served)));
        if (lifetime == "moved_after_use") {
            const MatrixXd& m0 = c.mat("means_s0");
            GaussianMixture p0(m0.cols(), m0.rows()), c0(m0.cols(), m0.rows());
            p0.mean() = m0; p0.covariance() = c.mat("covs_s0");
            vf::Entry e("KFCorrection::correct (before the move)");
            kf_first->freeze_measurements(); kf_first->correct(p0, c0); kf_first->getLikelihood();
        }
        std::unique_ptr<KFCorrection> kf_moved;
        if (lifetime != "fresh") { vf::Entry e("KFCorrection::KFCorrection(KFCorrection&&)"); kf_moved.reset(new KFCorrection(std::move(*kf_first))); kf_first.reset(); }
        KFCorrection& kf = kf_moved ? *kf_moved : *kf_first;
        vf::out_begin(c.id);
        const long extra = c.mi("extra", 0);     // additional components of the output object (frame)
        const long alias = c.mi("alias", 0);     // correct(g, g): the output object is the input object
        std::unique_ptr<GaussianMixture> corr_keep;   // reused across steps while the shape allows it
        // intrude=1: during every callback of the subject's measurement model an independent twin filter (its own
        // KFCorrection object and model, other H / R / y / belief of the same shapes) runs a complete correction
        const bool intrude = c.mi("intrude", 0) != 0;
        served->intrudes_ = intrude;
        ServedLTI* twin_served = new ServedLTI(c.mat("H_s0"), c.mat("R_s0"), c.mat("y_s0"));
        KFCorrection twin((std::unique_ptr<LinearMeasurementModel>(twin_served)));
        for (long t = 0; t < steps; t++) {
            const std::string s = "_s" + std::to_string(t);
            const MatrixXd& means = c.mat("means" + s); const MatrixXd& covs = c.mat("covs" + s);
            served->set(c.mat("H" + s), c.mat("R" + s), c.mat("y" + s));
            const long n = means.rows(), comps = means.cols();
            if (intrude) {
                const MatrixXd H2 = -1.75 * c.mat("H" + s).array() + 0.375, R2 = 3.0 * c.mat("R" + s), y2 = 0.5 * c.mat("y" + s).array() - 1.0;
                const MatrixXd m2 = 0.5 * means.array() + 1.0, P2 = 2.0 * covs;
                vf::set_intruder([=, &twin]() {
                    twin_served->set(H2, R2, y2);
                    GaussianMixture p2(comps, n), c2(comps, n);
                    p2.mean() = m2; p2.covariance() = P2;
                    twin.freeze_measurements(); twin.correct(p2, c2); twin.getLikelihood();
                });
            }
            GaussianMixture pred(comps, n);
            pred.mean() = means; pred.covariance() = covs;
            if (c.has_mat("weights" + s)) pred.weight() = c.mat("weights" + s);
            GaussianMixture pred_copy(pred);
            if (!corr_keep || corr_keep->dim != (std::size_t)n || corr_keep->components != (std::size_t)(comps + extra)) {
                corr_keep.reset(new GaussianMixture(comps + extra, n));
                corr_keep->mean().setConstant(7.25); corr_keep->covariance().setConstant(-3.5);
            }
            GaussianMixture& corr = alias ? pred : *corr_keep;
            if (!alias) for (long i = 0; i < comps + extra; i++) corr.weight(i) = 0.125 + i;   // distinct, not the prior's
            GaussianMixture corr_before(corr);
            {
                vf::Entry e("KFCorrection::correct");
                kf.freeze_measurements();
                kf.correct(pred, corr);
            }
            bool ok; VectorXd lik;
            { vf::Entry e("KFCorrection::getLikelihood"); std::tie(ok, lik) = kf.getLikelihood(); }
            // a second query must return the same values (no hidden state consumed by the query)
            bool ok2; VectorXd lik2;
            { vf::Entry e("KFCorrection::getLikelihood"); std::tie(ok2, lik2) = kf.getLikelihood(); }
            vf::out_int("components" + s, (long)corr.components - (alias ? 0 : extra));   // components the output object reports, minus the frame ones
            for (long i = 0; i < comps; i++) {
                vf::out_mat("mean" + std::to_string(i) + s, corr.mean(i));
                vf::out_mat("cov" + std::to_string(i) + s, corr.covariance(i));
                vf::out_num("lik" + std::to_string(i) + s, ok && i < lik.size() ? lik(i) : NAN);
            }
            vf::out_int("lik_valid" + s, ok ? 1 : 0);
            vf::out_int("lik_size" + s, lik.size());
            vf::out_int("lik_requery_same" + s, (ok == ok2 && vf::bit_equal(lik, lik2)) ? 1 : 0);
            vf::out_int("pred_unchanged" + s, alias ? 1 : (vf::bit_equal(pred.mean(), pred_copy.mean()) && vf::bit_equal(pred.covariance(), pred_copy.covariance())
                                              && vf::bit_equal(pred.weight(), pred_copy.weight()) ? 1 : 0));
            // frame: the step writes mean(i) and covariance(i) of the first `comps` components only
            bool frame = vf::bit_equal(corr.weight(), corr_before.weight()) && corr.components == corr_before.components && corr.dim == corr_before.dim;
            for (long i = comps; i < comps + (alias ? 0 : extra); i++)
                frame = frame && vf::bit_equal(corr.mean(i), corr_before.mean(i)) && vf::bit_equal(corr.covariance(i), corr_before.covariance(i));
            vf::out_int("frame_kept" + s, frame ? 1 : 0);
        }
        if (intrude) vf::out_int("intruder_calls", vf::intruder_state().calls);
        vf::clear_intruder();
        vf::out_end();
    }
    return 0;
}
