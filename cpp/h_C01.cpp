// h_C01.cpp — harness for C01: KFCorrection over an LTIMeasurementModel that
// serves the case's measurement.  Operands: H, R, y, means (n x comps),
// covs (n x n*comps), weights (comps x 1), junk (scalar filler for the output object).
#define VF_MAIN
#include "common.hpp"
#include <BayesFilters/GaussianMixture.h>
#include <BayesFilters/KFCorrection.h>
#include <BayesFilters/LTIMeasurementModel.h>
#include <BayesFilters/utils.h>

using namespace bfl;
using namespace Eigen;

struct ServedLTI : public LTIMeasurementModel {
    MatrixXd y_;
    ServedLTI(const MatrixXd& H, const MatrixXd& R, const MatrixXd& y) : LTIMeasurementModel(H, R), y_(y) {}
    bool freeze(const Data&) override { return true; }
    std::pair<bool, Data> measure(const Data&) const override { return std::make_pair(true, Data(y_)); }
};

int main() {
    vf::Case c;
    while (vf::read_case(std::cin, c)) {
        const MatrixXd& H = c.mat("H"); const MatrixXd& R = c.mat("R"); const MatrixXd& y = c.mat("y");
        const MatrixXd& means = c.mat("means"); const MatrixXd& covs = c.mat("covs");
        const long n = means.rows(), comps = means.cols();
        GaussianMixture pred(comps, n);
        pred.mean() = means; pred.covariance() = covs;
        if (c.has_mat("weights")) pred.weight() = c.mat("weights");
        GaussianMixture pred_copy(pred);
        GaussianMixture corr(comps, n);
        corr.mean().setConstant(7.25); corr.covariance().setConstant(-3.5); corr.weight().setConstant(0.125);
        KFCorrection kf(std::unique_ptr<LinearMeasurementModel>(new ServedLTI(H, R, y)));
        {
            vf::Entry e("KFCorrection::correct");
            kf.freeze_measurements();
            kf.correct(pred, corr);
        }
        bool ok; VectorXd lik;
        { vf::Entry e("KFCorrection::getLikelihood"); std::tie(ok, lik) = kf.getLikelihood(); }
        vf::out_begin(c.id);
        vf::out_int("components", corr.components);
        for (long i = 0; i < comps; i++) {
            vf::out_mat("mean" + std::to_string(i), corr.mean(i));
            vf::out_mat("cov" + std::to_string(i), corr.covariance(i));
            vf::out_num("lik" + std::to_string(i), ok && i < lik.size() ? lik(i) : NAN);
        }
        vf::out_int("lik_valid", ok ? 1 : 0);
        vf::out_int("lik_size", lik.size());
        vf::out_int("pred_unchanged", vf::bit_equal(pred.mean(), pred_copy.mean()) && vf::bit_equal(pred.covariance(), pred_copy.covariance())
                                          && vf::bit_equal(pred.weight(), pred_copy.weight()) ? 1 : 0);
        bool wkept = true;
        for (long i = 0; i < comps; i++) wkept = wkept && corr.weight(i) == 0.125;
        vf::out_int("out_weights_kept", wkept ? 1 : 0);
        vf::out_end();
    }
    return 0;
}
